// Shared reporting/argument plumbing of all harnesses (no libnano dependency).
//
// A harness enumerates cases, evaluates its oracle on each and records what happened in a
// report_t; the python driver (bin/check) runs the harness in N shards, merges the per-shard
// reports into /verif/evidence/<id>.json, replays violations and prints the verdict lines.
#pragma once

#include <chrono>
#include <cmath>
#include <cstdint>
#include <cstdio>
#include <cstdlib>
#include <cstring>
#include <filesystem>
#include <fstream>
#include <functional>
#include <map>
#include <sstream>
#include <string>
#include <vector>

namespace verif
{
// ---------------------------------------------------------------------------------------------
// minimal JSON text building
inline std::string jstr(const std::string& s)
{
    std::string o = "\"";
    for (const char c : s)
    {
        switch (c)
        {
        case '"': o += "\\\""; break;
        case '\\': o += "\\\\"; break;
        case '\n': o += "\\n"; break;
        case '\t': o += "\\t"; break;
        case '\r': o += "\\r"; break;
        default:
            if (static_cast<unsigned char>(c) < 0x20)
            {
                char buf[8];
                std::snprintf(buf, sizeof(buf), "\\u%04x", c);
                o += buf;
            }
            else
            {
                o += c;
            }
        }
    }
    return o + "\"";
}

inline std::string jnum(const double v)
{
    if (!std::isfinite(v))
    {
        return jstr(std::isnan(v) ? "nan" : (v > 0 ? "inf" : "-inf"));
    }
    char buf[64];
    std::snprintf(buf, sizeof(buf), "%.17g", v);
    return buf;
}

template <class T>
inline std::string jint(const T v)
{
    return std::to_string(static_cast<long long>(v));
}

// {"k":v,...} from alternating key / already-encoded-value strings
inline std::string jobj(std::initializer_list<std::pair<std::string, std::string>> kv)
{
    std::string o     = "{";
    bool        first = true;
    for (const auto& [k, v] : kv)
    {
        if (!first)
        {
            o += ",";
        }
        first = false;
        o += jstr(k) + ":" + v;
    }
    return o + "}";
}

template <class It, class F>
inline std::string jarr(It b, It e, F f)
{
    std::string o     = "[";
    bool        first = true;
    for (; b != e; ++b)
    {
        if (!first)
        {
            o += ",";
        }
        first = false;
        o += f(*b);
    }
    return o + "]";
}

template <class C>
inline std::string jarr_num(const C& c)
{
    return jarr(c.begin(), c.end(), [](const auto v) { return jnum(static_cast<double>(v)); });
}

inline std::string jarr_str(const std::vector<std::string>& c)
{
    return jarr(c.begin(), c.end(), [](const std::string& v) { return jstr(v); });
}

// ---------------------------------------------------------------------------------------------
// command line of every harness
struct args_t
{
    std::string out;            ///< where to write the shard report
    std::string tier = "quick"; ///< quick | thorough
    std::string one;            ///< replay exactly this case (harness-defined encoding)
    std::string stage;          ///< optional sub-stage selector
    int         shard    = 0;
    int         shards   = 1;
    long        seed     = 0;
    double      deadline = 1e18; ///< seconds of wall time this shard may use
    std::map<std::string, std::string> extra;

    bool thorough() const { return tier == "thorough"; }
    bool mine(const uint64_t index) const { return static_cast<int>(index % static_cast<uint64_t>(shards)) == shard; }
    std::string get(const std::string& k, const std::string& d = "") const
    {
        const auto it = extra.find(k);
        return it == extra.end() ? d : it->second;
    }
    long geti(const std::string& k, const long d) const
    {
        const auto it = extra.find(k);
        return it == extra.end() ? d : std::atol(it->second.c_str());
    }
};

inline args_t parse_args(int argc, char** argv)
{
    args_t a;
    for (int i = 1; i < argc; ++i)
    {
        const std::string k = argv[i];
        const auto        v = [&]() -> std::string
        {
            if (i + 1 >= argc)
            {
                std::fprintf(stderr, "missing value for %s\n", k.c_str());
                std::exit(2);
            }
            return argv[++i];
        };
        if (k == "--out") a.out = v();
        else if (k == "--tier") a.tier = v();
        else if (k == "--case") a.one = v();
        else if (k == "--stage") a.stage = v();
        else if (k == "--seed") a.seed = std::atol(v().c_str());
        else if (k == "--deadline") a.deadline = std::atof(v().c_str());
        else if (k == "--shard")
        {
            const auto s = v();
            if (std::sscanf(s.c_str(), "%d/%d", &a.shard, &a.shards) != 2 || a.shards < 1 || a.shard < 0 ||
                a.shard >= a.shards)
            {
                std::fprintf(stderr, "bad --shard %s\n", s.c_str());
                std::exit(2);
            }
        }
        else if (k.rfind("--", 0) == 0) a.extra[k.substr(2)] = v();
        else
        {
            std::fprintf(stderr, "unknown argument %s\n", k.c_str());
            std::exit(2);
        }
    }
    return a;
}

// ---------------------------------------------------------------------------------------------
struct violation_t
{
    std::string key;    ///< identity of the failing case *class* (matched against known_findings.json)
    std::string one;    ///< harness-defined encoding of this one case (replayed with --case)
    std::string detail; ///< JSON object: observed vs. expected
};

class report_t
{
public:
    explicit report_t(std::string stage, const args_t& args)
        : m_stage(std::move(stage))
        , m_args(args)
        , m_start(std::chrono::steady_clock::now())
    {
    }

    // counters
    uint64_t evaluations = 0; ///< cases evaluated
    uint64_t nontrivial  = 0; ///< distinct cases whose precondition held and whose interesting branch ran
    uint64_t states      = 0; ///< distinct canonical states (E1/E2)
    uint64_t transitions = 0; ///< transitions executed on the implementation (E1/E2)
    uint64_t traces      = 0; ///< complete executions of the implementation (E1/E2)
    bool     exhaustive  = true;

    void outcome(const std::string& name, const uint64_t n = 1) { m_outcomes[name] += n; }
    void axis(const std::string& name, const std::string& json) { m_axes[name] = json; }
    void cap(const std::string& what)
    {
        exhaustive = false;
        m_caps.push_back(what);
    }
    void assume(const std::string& what) { m_assumptions.push_back(what); }
    void note(const std::string& k, const std::string& json) { m_notes[k] = json; }

    /// keep a few written-out cases (rotated by the seed so different runs show different ones)
    void sample(const std::string& json)
    {
        ++m_sample_seen;
        if (m_samples.size() < 4)
        {
            m_samples.push_back(json);
        }
        else if ((m_sample_seen * 2654435761ULL + static_cast<uint64_t>(m_args.seed)) % 9973ULL == 0)
        {
            m_samples[m_sample_seen % 4] = json;
        }
    }

    void violation(const std::string& key, const std::string& one, const std::string& detail)
    {
        ++m_violation_count;
        m_violation_keys[key] += 1;
        // keep the first few of every key (smallest first as alphabets are ordered simplest-first)
        if (m_violation_keys[key] <= 3 && m_violations.size() < 60)
        {
            m_violations.push_back({key, one, detail});
        }
    }
    uint64_t violation_count() const { return m_violation_count; }

    double elapsed() const
    {
        return std::chrono::duration<double>(std::chrono::steady_clock::now() - m_start).count();
    }
    bool out_of_time() const { return elapsed() > m_args.deadline; }

    std::string to_json() const
    {
        std::ostringstream o;
        o << "{" << jstr("stage") << ":" << jstr(m_stage);
        o << "," << jstr("shard") << ":" << m_args.shard << "," << jstr("shards") << ":" << m_args.shards;
        o << "," << jstr("evaluations") << ":" << evaluations;
        o << "," << jstr("nontrivial") << ":" << nontrivial;
        o << "," << jstr("states") << ":" << states;
        o << "," << jstr("transitions") << ":" << transitions;
        o << "," << jstr("traces") << ":" << traces;
        o << "," << jstr("exhaustive") << ":" << (exhaustive ? "true" : "false");
        o << "," << jstr("wall_s") << ":" << jnum(elapsed());
        o << "," << jstr("violation_count") << ":" << m_violation_count;
        o << "," << jstr("outcomes") << ":{";
        bool first = true;
        for (const auto& [k, v] : m_outcomes)
        {
            o << (first ? "" : ",") << jstr(k) << ":" << v;
            first = false;
        }
        o << "}," << jstr("violation_keys") << ":{";
        first = true;
        for (const auto& [k, v] : m_violation_keys)
        {
            o << (first ? "" : ",") << jstr(k) << ":" << v;
            first = false;
        }
        o << "}," << jstr("axes") << ":{";
        first = true;
        for (const auto& [k, v] : m_axes)
        {
            o << (first ? "" : ",") << jstr(k) << ":" << v;
            first = false;
        }
        o << "}," << jstr("notes") << ":{";
        first = true;
        for (const auto& [k, v] : m_notes)
        {
            o << (first ? "" : ",") << jstr(k) << ":" << v;
            first = false;
        }
        o << "}," << jstr("caps") << ":" << jarr_str(m_caps);
        o << "," << jstr("assumptions") << ":" << jarr_str(m_assumptions);
        o << "," << jstr("samples") << ":"
          << jarr(m_samples.begin(), m_samples.end(), [](const std::string& s) { return s; });
        o << "," << jstr("violations") << ":"
          << jarr(m_violations.begin(), m_violations.end(),
                  [](const violation_t& v) {
                      return jobj({{"key", jstr(v.key)}, {"case", jstr(v.one)}, {"detail", v.detail}});
                  });
        o << "}";
        return o.str();
    }

    /// write the shard report; returns the process exit code (0 ok, 1 violations)
    int finish() const
    {
        const auto text = to_json();
        if (m_args.out.empty())
        {
            std::printf("%s\n", text.c_str());
        }
        else
        {
            std::ofstream f(m_args.out);
            f << text << "\n";
            if (!f)
            {
                std::fprintf(stderr, "cannot write %s\n", m_args.out.c_str());
                return 2;
            }
        }
        return m_violation_count == 0 ? 0 : 1;
    }

    const args_t& args() const { return m_args; }

private:
    std::string                           m_stage;
    args_t                                m_args;
    std::chrono::steady_clock::time_point m_start;
    std::map<std::string, uint64_t>       m_outcomes;
    std::map<std::string, uint64_t>       m_violation_keys;
    std::map<std::string, std::string>    m_axes;
    std::map<std::string, std::string>    m_notes;
    std::vector<std::string>              m_caps;
    std::vector<std::string>              m_assumptions;
    std::vector<std::string>              m_samples;
    std::vector<violation_t>              m_violations;
    uint64_t                              m_sample_seen     = 0;
    uint64_t                              m_violation_count = 0;
};

// ---------------------------------------------------------------------------------------------
/// libnano's model fitting writes one log file per (trial, fold) into $TMPDIR: harnesses that fit or tune inside a
/// loop call this regularly, otherwise millions of small files exhaust the file system's inodes
inline void purge_tmpdir()
{
    const char* dir = std::getenv("TMPDIR");
    if (dir == nullptr || *dir == 0 || std::string(dir) == "/tmp")
    {
        return;
    }
    std::error_code ec;
    for (const auto& entry : std::filesystem::directory_iterator(dir, ec))
    {
        if (entry.path().extension() == ".log")
        {
            std::filesystem::remove(entry.path(), ec);
        }
    }
}

// ---------------------------------------------------------------------------------------------
// E3: odometer over named finite axes with a stable mixed-radix case number.
class lattice_t
{
public:
    size_t axis(const std::string& name, const uint64_t size, const std::string& alphabet_json = "")
    {
        m_names.push_back(name);
        m_sizes.push_back(size);
        m_alpha.push_back(alphabet_json);
        return m_sizes.size() - 1;
    }
    uint64_t size() const
    {
        uint64_t p = 1;
        for (const auto s : m_sizes)
        {
            p *= s;
        }
        return p;
    }
    /// digits of a case number (axis 0 is the slowest => simplest-first ordering follows axis order)
    std::vector<uint64_t> digits(uint64_t index) const
    {
        std::vector<uint64_t> d(m_sizes.size());
        for (size_t i = m_sizes.size(); i-- > 0;)
        {
            d[i] = index % m_sizes[i];
            index /= m_sizes[i];
        }
        return d;
    }
    void describe(report_t& r, const std::string& prefix = "") const
    {
        for (size_t i = 0; i < m_sizes.size(); ++i)
        {
            r.axis(prefix + m_names[i],
                   m_alpha[i].empty() ? jobj({{"size", jint(m_sizes[i])}})
                                      : jobj({{"size", jint(m_sizes[i])}, {"alphabet", m_alpha[i]}}));
        }
        r.axis(prefix + "product", jint(size()));
    }
    std::string show(const std::vector<uint64_t>& d) const
    {
        std::string o;
        for (size_t i = 0; i < d.size(); ++i)
        {
            o += (i ? " " : "") + m_names[i] + "=" + std::to_string(d[i]);
        }
        return o;
    }

private:
    std::vector<std::string> m_names;
    std::vector<uint64_t>    m_sizes;
    std::vector<std::string> m_alpha;
};

/// run `f(index, digits)` for every case of this shard (or only the replayed one), honouring the deadline
template <class F>
inline void for_each_case(const lattice_t& lat, report_t& r, const std::string& tag, const F& f)
{
    const auto& a     = r.args();
    const auto  total = lat.size();
    if (!a.one.empty())
    {
        // "<tag>:<index>"
        const auto p = a.one.find(':');
        if (p == std::string::npos || a.one.substr(0, p) != tag)
        {
            return;
        }
        const auto index = std::strtoull(a.one.c_str() + p + 1, nullptr, 10);
        if (index < total)
        {
            f(index, lat.digits(index));
        }
        return;
    }
    uint64_t done = 0;
    for (uint64_t index = 0; index < total; ++index)
    {
        if (!a.mine(index))
        {
            continue;
        }
        if ((++done & 63U) == 0U && r.out_of_time())
        {
            r.cap("deadline hit in lattice '" + tag + "' at case " + std::to_string(index) + " of " +
                  std::to_string(total));
            return;
        }
        f(index, lat.digits(index));
    }
}
} // namespace verif
