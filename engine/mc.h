// E2 — choice-point exploration and explicit-state breadth-first search over operation histories.
// Header-only, no libnano dependency. See DESIGN.md §2.
#pragma once

#include <cstdint>
#include <deque>
#include <functional>
#include <stdexcept>
#include <string>
#include <unordered_set>
#include <vector>

namespace mc
{
// ---------------------------------------------------------------------------------------------
// choice points: the harness body calls ch.choose(n) wherever the environment decides something;
// the driver re-executes the body for every sequence of answers (answer 0 = default answer).
struct diverged_t : std::runtime_error
{
    using std::runtime_error::runtime_error;
};

class chooser_t
{
public:
    explicit chooser_t(const std::vector<int>& prefix)
        : m_prefix(prefix)
    {
    }
    /// returns a value in [0, n); replays the prefix first, then answers 0
    int choose(const int n)
    {
        const auto i = m_choices.size();
        int        c = 0;
        if (i < m_prefix.size())
        {
            c = m_prefix[i];
            if (c < 0 || c >= n)
            {
                throw diverged_t("replayed choice out of range: the body is not deterministic");
            }
        }
        m_choices.push_back(c);
        m_arity.push_back(n);
        return c;
    }
    const std::vector<int>& choices() const { return m_choices; }
    const std::vector<int>& arity() const { return m_arity; }
    int deviations() const
    {
        int d = 0;
        for (const auto c : m_choices)
        {
            d += c != 0 ? 1 : 0;
        }
        return d;
    }

private:
    const std::vector<int>& m_prefix;
    std::vector<int>        m_choices;
    std::vector<int>        m_arity;
};

struct explore_stats_t
{
    uint64_t executions = 0;
    uint64_t choice_points = 0;
    uint64_t max_choices = 0;
    bool     complete = true; ///< false when `keep_going` returned false before the space was exhausted
};

/// body(chooser) runs one execution; after(chooser) judges it and returns false to stop.
/// max_deviations < 0: all answer sequences; otherwise at most that many non-default answers per execution.
/// only_shard/shards: the first-level alternatives are dealt out round-robin (the root execution belongs to shard 0).
template <class tbody, class tafter>
explore_stats_t explore(const tbody& body, const tafter& after, const int max_deviations, const int shard = 0,
                        const int shards = 1)
{
    explore_stats_t               st;
    std::vector<std::vector<int>> stack;
    stack.emplace_back();
    uint64_t level1 = 0;
    while (!stack.empty())
    {
        const auto prefix = std::move(stack.back());
        stack.pop_back();
        chooser_t ch(prefix);
        body(ch);
        const bool root  = prefix.empty();
        const bool count = !root || shard == 0;
        if (count)
        {
            ++st.executions;
            st.choice_points += ch.choices().size();
            st.max_choices = std::max<uint64_t>(st.max_choices, ch.choices().size());
            if (!after(ch))
            {
                st.complete = false;
                return st;
            }
        }
        const auto& c = ch.choices();
        const auto& a = ch.arity();
        int         dev = 0;
        for (size_t i = 0; i < prefix.size(); ++i)
        {
            dev += c[i] != 0 ? 1 : 0;
        }
        // alternatives at the points after the prefix (deviations before point i = dev + non-defaults in between = dev)
        for (size_t i = c.size(); i-- > prefix.size();)
        {
            if (max_deviations >= 0 && dev + 1 > max_deviations)
            {
                break;
            }
            for (int alt = a[i] - 1; alt >= 1; --alt)
            {
                if (root && shards > 1 && static_cast<int>(level1++ % static_cast<uint64_t>(shards)) != shard)
                {
                    continue;
                }
                std::vector<int> next(c.begin(), c.begin() + static_cast<std::ptrdiff_t>(i));
                next.push_back(alt);
                stack.push_back(std::move(next));
            }
        }
    }
    return st;
}

// ---------------------------------------------------------------------------------------------
// explicit-state BFS: a state is the operation history that reaches it; `apply(history)` rebuilds a fresh
// real object by replaying the history, compares it with the reference model (recording violations itself)
// and returns the canonical string of the property-relevant state ("" = do not expand: terminal or the
// last operation is not enabled in this state).
struct bfs_stats_t
{
    uint64_t states      = 0;
    uint64_t transitions = 0;
    uint64_t max_depth   = 0;
    uint64_t replays_checked = 0; ///< histories applied twice to assert canon-on-replay
    bool     replay_ok   = true;
    bool     complete    = true;
};

template <class tapply, class tstop>
bfs_stats_t bfs(const int nops, const int max_depth, const tapply& apply, const tstop& stop)
{
    bfs_stats_t                     st;
    std::unordered_set<std::string> seen;
    std::deque<std::vector<int>>    frontier;
    const auto                      c0 = apply(std::vector<int>{});
    seen.insert(c0);
    st.states = 1;
    frontier.emplace_back();
    while (!frontier.empty())
    {
        const auto hist = std::move(frontier.front());
        frontier.pop_front();
        st.max_depth = std::max<uint64_t>(st.max_depth, hist.size());
        if (static_cast<int>(hist.size()) >= max_depth)
        {
            continue;
        }
        for (int op = 0; op < nops; ++op)
        {
            auto next = hist;
            next.push_back(op);
            const auto c = apply(next);
            ++st.transitions;
            if ((st.transitions & 1023U) == 0U)
            {
                // canon-on-replay: the same history must give the same canonical state (catches uninitialised fields)
                ++st.replays_checked;
                if (apply(next) != c)
                {
                    st.replay_ok = false;
                }
                if (stop())
                {
                    st.complete = false;
                    return st;
                }
            }
            if (c.empty())
            {
                continue;
            }
            if (seen.insert(c).second)
            {
                ++st.states;
                frontier.push_back(std::move(next));
            }
        }
    }
    return st;
}
} // namespace mc
