// E1 — controlled scheduler + preemption-bounded explorer. See vsched.h and DESIGN.md §2.
//
// This translation unit is never compiled with a sanitizer and shares no template instantiation
// with instrumented code (plain C arrays only): the hand-offs between controlled threads are raw
// futex system calls that a race detector cannot see, so under -fsanitize=thread only the *real*
// synchronisation (forwarded pthread calls, the atomics of libstdc++'s future state) creates
// happens-before edges.
#include "vsched.h"

#include <cerrno>
#include <climits>
#include <cstdio>
#include <cstdlib>
#include <cstring>
#include <ctime>
#include <dlfcn.h>
#include <future>
#include <linux/futex.h>
#include <pthread.h>
#include <sys/mman.h>
#include <sys/syscall.h>
#include <thread>
#include <unistd.h>

namespace
{
// ---------------------------------------------------------------------------------------------
// real functions
typedef int (*mutex_fn)(pthread_mutex_t*);
typedef int (*create_fn)(pthread_t*, const pthread_attr_t*, void* (*)(void*), void*);
typedef int (*join_fn)(pthread_t, void**);
typedef int (*cwait_fn)(pthread_cond_t*, pthread_mutex_t*);
typedef int (*ctimed_fn)(pthread_cond_t*, pthread_mutex_t*, const struct timespec*);
typedef int (*cclock_fn)(pthread_cond_t*, pthread_mutex_t*, clockid_t, const struct timespec*);
typedef int (*csig_fn)(pthread_cond_t*);

mutex_fn  real_lock, real_trylock, real_unlock;
create_fn real_create;
join_fn   real_join;
cwait_fn  real_cwait;
ctimed_fn real_ctimed;
cclock_fn real_cclock;
csig_fn   real_csignal, real_cbroadcast;
volatile int g_resolved  = 0;
volatile int g_resolving = 0;

void resolve()
{
    if (g_resolved || g_resolving)
    {
        return;
    }
    g_resolving     = 1;
    real_lock       = reinterpret_cast<mutex_fn>(dlsym(RTLD_NEXT, "pthread_mutex_lock"));
    real_trylock    = reinterpret_cast<mutex_fn>(dlsym(RTLD_NEXT, "pthread_mutex_trylock"));
    real_unlock     = reinterpret_cast<mutex_fn>(dlsym(RTLD_NEXT, "pthread_mutex_unlock"));
    real_create     = reinterpret_cast<create_fn>(dlsym(RTLD_NEXT, "pthread_create"));
    real_join       = reinterpret_cast<join_fn>(dlsym(RTLD_NEXT, "pthread_join"));
    real_cwait      = reinterpret_cast<cwait_fn>(dlsym(RTLD_NEXT, "pthread_cond_wait"));
    real_ctimed     = reinterpret_cast<ctimed_fn>(dlsym(RTLD_NEXT, "pthread_cond_timedwait"));
    real_cclock     = reinterpret_cast<cclock_fn>(dlsym(RTLD_NEXT, "pthread_cond_clockwait"));
    real_csignal    = reinterpret_cast<csig_fn>(dlsym(RTLD_NEXT, "pthread_cond_signal"));
    real_cbroadcast = reinterpret_cast<csig_fn>(dlsym(RTLD_NEXT, "pthread_cond_broadcast"));
    g_resolved      = 1;
    g_resolving     = 0;
}

// ---------------------------------------------------------------------------------------------
// model state
enum
{
    OP_NONE,
    OP_START,
    OP_LOCK,
    OP_TRYLOCK,
    OP_CWAIT,
    OP_RELOCK,
    OP_SIGNAL,
    OP_BCAST,
    OP_CREATE,
    OP_JOIN,
    OP_FWAIT,
    OP_FNOTIFY,
    OP_POINT,
    OP_UNLOCK,
    OP_SPURIOUS,
    OP_EXIT
};
const char* const OPNAME[] = {"none",   "start", "lock",  "trylock", "cwait",   "relock", "signal", "bcast",
                              "create", "join",  "fwait", "fnotify", "point",   "unlock", "spurious", "exit"};

enum
{
    T_FREE,
    T_READY,  ///< parked (or running) with a pending visible operation
    T_CVWAIT, ///< blocked in a condition variable
    T_DONE
};

const int MAXT = 32;

struct thr_t
{
    volatile int wake;
    volatile int ready;
    int          booting; ///< created, still running (alone) towards its first visible operation
    int          state;
    int          op;
    const void*  obj;
    const void*  obj2; ///< mutex of a condition wait
    unsigned     fval;
    int          target; ///< join target
    int          straight; ///< straight-line code: the operation count is part of the thread's state
    unsigned     nops;
    uint64_t     chain;
    pthread_t    real;
    void* (*fn)(void*);
    void* arg;
};

thr_t         T[MAXT];
int           NT  = 0;
int           CUR = -1;
volatile int  ACTIVE = 0;
__thread int  TID = -1;
int           g_hw = 0;

// tracked objects (mutexes, condition variables, futex words), by address
struct obj_t
{
    const void* addr;
    int         owner; ///< mutex owner or -1
    uint64_t    chain;
};
const int OBJCAP = 1 << 13;
obj_t     OBJ[OBJCAP];
int       OBJUSED[OBJCAP];
int       NOBJ = 0;
uint64_t  G_CHAIN = 0; ///< pseudo-object ordering all explicit points

inline uint64_t mix(uint64_t x)
{
    x ^= x >> 30;
    x *= 0xbf58476d1ce4e5b9ULL;
    x ^= x >> 27;
    x *= 0x94d049bb133111ebULL;
    x ^= x >> 31;
    return x;
}
inline uint64_t mix2(const uint64_t a, const uint64_t b)
{
    return mix(a * 0x9e3779b97f4a7c15ULL + b + 0x632be59bd9b4e019ULL);
}

obj_t* object(const void* addr)
{
    auto h = static_cast<unsigned>(mix(reinterpret_cast<uintptr_t>(addr)) & (OBJCAP - 1));
    for (;;)
    {
        if (OBJ[h].addr == addr)
        {
            return &OBJ[h];
        }
        if (OBJ[h].addr == nullptr)
        {
            if (NOBJ >= OBJCAP / 2)
            {
                std::fprintf(stderr, "sched: object table full\n");
                std::abort();
            }
            OBJ[h].addr     = addr;
            OBJ[h].owner    = -1;
            OBJ[h].chain    = 0;
            OBJUSED[NOBJ++] = static_cast<int>(h);
            return &OBJ[h];
        }
        h = (h + 1) & (OBJCAP - 1);
    }
}

// ---------------------------------------------------------------------------------------------
// exploration state of the execution in progress
sched::config_t CFG;
sched::fatal_t  FATAL     = nullptr;
void*           FATAL_CTX = nullptr;

const int MAXDEC = 1 << 20;
int*      dec_choice; ///< chosen alternative
int*      dec_n;      ///< number of alternatives
int*      dec_nthr;   ///< number of thread alternatives (the rest are spurious wake-ups); -1: signal-target choice
char*     dec_curfirst;
short*    dec_pre;    ///< preemptions used before the decision
short*    dec_spu;    ///< spurious wake-ups used before the decision
int       NDEC        = 0;
const int* PREFIX     = nullptr;
int       PREFIX_LEN  = 0;
int       PRE_USED    = 0;
int       SPU_USED    = 0;
long      STEPS       = 0;
int       PRUNED_AT   = -1;
uint64_t  TRANSITIONS = 0;

// visited fingerprints: open addressing, value = remaining preemption budget + 1
struct vis_t
{
    uint64_t key;
    int      val;
};
vis_t*   VIS     = nullptr;
uint64_t VISCAP  = 0;
uint64_t VISUSED = 0;

void vis_init()
{
    VISCAP  = 1ULL << 16;
    VISUSED = 0;
    VIS     = static_cast<vis_t*>(std::calloc(VISCAP, sizeof(vis_t)));
}
void vis_free()
{
    std::free(VIS);
    VIS = nullptr;
}
int* vis_slot(const uint64_t key0)
{
    const uint64_t key = key0 ? key0 : 1;
    if (VISUSED * 2 > VISCAP)
    {
        const auto old    = VIS;
        const auto oldcap = VISCAP;
        VISCAP *= 2;
        VIS = static_cast<vis_t*>(std::calloc(VISCAP, sizeof(vis_t)));
        for (uint64_t i = 0; i < oldcap; ++i)
        {
            if (old[i].key)
            {
                auto h = old[i].key & (VISCAP - 1);
                while (VIS[h].key)
                {
                    h = (h + 1) & (VISCAP - 1);
                }
                VIS[h] = old[i];
            }
        }
        std::free(old);
    }
    auto h = key & (VISCAP - 1);
    while (VIS[h].key && VIS[h].key != key)
    {
        h = (h + 1) & (VISCAP - 1);
    }
    if (!VIS[h].key)
    {
        VIS[h].key = key;
        VIS[h].val = 0;
        ++VISUSED;
    }
    return &VIS[h].val;
}

// optional textual trace
bool  TRACE_ON  = false;
char* TRACE_BUF = nullptr;
size_t TRACE_LEN = 0, TRACE_CAP = 0;
void tracef(const int t, const int op, const void* obj, const char* extra = "")
{
    if (!TRACE_ON)
    {
        return;
    }
    if (TRACE_LEN + 128 > TRACE_CAP)
    {
        TRACE_CAP = TRACE_CAP ? TRACE_CAP * 2 : 1 << 16;
        TRACE_BUF = static_cast<char*>(std::realloc(TRACE_BUF, TRACE_CAP));
    }
    TRACE_LEN += static_cast<size_t>(std::snprintf(TRACE_BUF + TRACE_LEN, 128, "%ld t%d %s %p %s\n", STEPS, t,
                                                   OPNAME[op], obj, extra));
}

// ---------------------------------------------------------------------------------------------
void park(thr_t* t)
{
    while (__atomic_load_n(&t->wake, __ATOMIC_ACQUIRE) == 0)
    {
        syscall(SYS_futex, &t->wake, FUTEX_WAIT_PRIVATE, 0, nullptr, nullptr, 0);
    }
    __atomic_store_n(&t->wake, 0, __ATOMIC_RELAXED);
}
void unpark(thr_t* t)
{
    __atomic_store_n(&t->wake, 1, __ATOMIC_RELEASE);
    syscall(SYS_futex, &t->wake, FUTEX_WAKE_PRIVATE, 1, nullptr, nullptr, 0);
}

[[noreturn]] void fatal(const sched::status_t why)
{
    if (FATAL != nullptr)
    {
        FATAL(FATAL_CTX, why, dec_choice, NDEC);
    }
    std::fprintf(stderr, "sched: fatal status %d\n", static_cast<int>(why));
    _exit(why == sched::ST_DIVERGED ? 2 : 1);
}

bool enabled(const int t)
{
    const thr_t& x = T[t];
    if (x.state != T_READY)
    {
        return false;
    }
    switch (x.op)
    {
    case OP_LOCK:
    case OP_RELOCK: return object(x.obj)->owner < 0;
    case OP_JOIN: return T[x.target].state == T_DONE;
    case OP_FWAIT: return __atomic_load_n(static_cast<const unsigned*>(x.obj), __ATOMIC_ACQUIRE) != x.fval;
    default: return true;
    }
}

sched::digest_t DIGEST     = nullptr;
void*           DIGEST_CTX = nullptr;

/// state fingerprint (prune mode 2)
uint64_t fingerprint_state()
{
    uint64_t h = mix2(static_cast<uint64_t>(CUR + 1), static_cast<uint64_t>(NT) + 1000);
    for (int t = 0; t < NT; ++t)
    {
        const thr_t& x = T[t];
        uint64_t     k = mix2(static_cast<uint64_t>(x.state * 64 + x.op), reinterpret_cast<uintptr_t>(x.obj));
        k              = mix2(k, x.straight ? x.nops + 1 : 0);
        k              = mix2(k, x.op == OP_JOIN ? static_cast<uint64_t>(x.target) : x.fval);
        if (x.op == OP_FWAIT && x.state == T_READY)
        {
            k = mix2(k, enabled(t) ? 1 : 2);
        }
        h = mix2(h, k);
    }
    uint64_t owners = 0;
    for (int i = 0; i < NOBJ; ++i)
    {
        const obj_t& o = OBJ[OBJUSED[i]];
        if (o.owner >= 0)
        {
            owners += mix2(reinterpret_cast<uintptr_t>(o.addr), static_cast<uint64_t>(o.owner));
        }
    }
    h = mix2(h, owners);
    return mix2(h, DIGEST != nullptr ? DIGEST(DIGEST_CTX) : 0);
}

uint64_t fingerprint()
{
    uint64_t h = mix2(static_cast<uint64_t>(CUR + 1), static_cast<uint64_t>(NT));
    for (int t = 0; t < NT; ++t)
    {
        const thr_t& x = T[t];
        uint64_t     k = mix2(x.chain, static_cast<uint64_t>(x.state * 64 + x.op));
        k              = mix2(k, reinterpret_cast<uintptr_t>(x.obj));
        if (x.op == OP_FWAIT && x.state == T_READY)
        {
            k = mix2(k, enabled(t) ? 1 : 2);
        }
        h = mix2(h, k);
    }
    return h;
}

/// take the next decision among n alternatives
int decide(const int n, const int nthr, const bool curfirst)
{
    const int i = NDEC;
    if (CFG.horizon > 0 && i >= CFG.horizon && i >= PREFIX_LEN)
    {
        return 0; // beyond the horizon: default answer, nothing recorded, nothing branched on
    }
    if (i >= MAXDEC)
    {
        fatal(sched::ST_HANG);
    }
    int c = 0;
    if (i < PREFIX_LEN)
    {
        c = PREFIX[i];
        if (c < 0 || c >= n)
        {
            fatal(sched::ST_DIVERGED);
        }
    }
    else if (CFG.prune && PRUNED_AT < 0 && (CFG.horizon <= 0 || i < CFG.horizon))
    {
        const auto key = mix2(CFG.prune == 2 ? fingerprint_state() : fingerprint(), static_cast<uint64_t>(SPU_USED) * 131 + static_cast<uint64_t>(nthr + 7));
        int*       val = vis_slot(key);
        const int  rem = CFG.budget - PRE_USED + 1;
        if (*val >= rem)
        {
            PRUNED_AT = i;
        }
        else
        {
            *val = rem;
        }
    }
    dec_choice[i]   = c;
    dec_n[i]        = n;
    dec_nthr[i]     = nthr;
    dec_curfirst[i] = curfirst ? 1 : 0;
    dec_pre[i]      = static_cast<short>(PRE_USED);
    dec_spu[i]      = static_cast<short>(SPU_USED);
    ++NDEC;
    return c;
}

/// choose the next thread to run (-1: every thread is done)
int pick()
{
    for (;;)
    {
        if (++STEPS > CFG.max_steps)
        {
            fatal(sched::ST_HANG);
        }
        int  alts[MAXT], spur[MAXT];
        int  nthr = 0, nsp = 0;
        bool curfirst = false;
        if (CUR >= 0 && enabled(CUR))
        {
            alts[nthr++] = CUR;
            curfirst     = true;
        }
        bool alldone = true;
        for (int t = 0; t < NT; ++t)
        {
            if (T[t].state != T_DONE)
            {
                alldone = false;
            }
            if (t != CUR && enabled(t))
            {
                alts[nthr++] = t;
            }
            if (T[t].state == T_CVWAIT && SPU_USED < CFG.spurious)
            {
                spur[nsp++] = t;
            }
        }
        if (alldone)
        {
            return -1;
        }
        if (nthr == 0)
        {
            // spurious wake-ups cannot be relied upon: unfinished threads and nobody can move
            fatal(sched::ST_DEADLOCK);
        }
        // a switch away from a runnable thread is a preemption, except at the point immediately before a
        // condition wait: the thread is about to block there anyway, only the timing of the hand-over differs
        const bool costly = CFG.count_all != 0 || (curfirst && T[CUR].op != OP_CWAIT);
        const int  n      = nthr + nsp;
        const int  c      = (n == 1) ? 0 : decide(n, nthr, costly);
        if (c < nthr)
        {
            if (costly && c > 0)
            {
                ++PRE_USED;
            }
            ++TRANSITIONS;
            return alts[c];
        }
        // spurious wake-up of a condition waiter: it now has to re-acquire its mutex
        thr_t& w = T[spur[c - nthr]];
        ++SPU_USED;
        w.state = T_READY;
        w.op    = OP_RELOCK;
        w.obj   = w.obj2;
        w.chain = mix2(w.chain, OP_SPURIOUS);
        tracef(spur[c - nthr], OP_SPURIOUS, w.obj2);
    }
}

/// the calling controlled thread announces its next visible operation and yields to the scheduler
void yield_at(const int op, const void* obj, const void* obj2 = nullptr, const unsigned fval = 0, const int target = -1)
{
    thr_t& me = T[TID];
    me.state  = T_READY;
    me.op     = op;
    me.obj    = obj;
    me.obj2   = obj2;
    me.fval   = fval;
    me.target = target;
    ++me.nops;
    if (me.booting)
    {
        // first visible operation of a new thread: give the token back to the creator and wait to be scheduled
        me.booting = 0;
        __atomic_store_n(&me.ready, 1, __ATOMIC_RELEASE);
        syscall(SYS_futex, &me.ready, FUTEX_WAKE_PRIVATE, 1, nullptr, nullptr, 0);
        park(&me);
        tracef(TID, op, obj);
        return;
    }
    const int next = pick();
    if (next != TID)
    {
        CUR = next;
        unpark(&T[next]);
        park(&me);
    }
    tracef(TID, op, obj);
}

void touch(thr_t& me, const int op, obj_t* o)
{
    me.chain = mix2(mix2(me.chain, static_cast<uint64_t>(op)), o->chain);
    o->chain = mix2(me.chain, 0x51);
}

void* trampoline(void* p)
{
    thr_t* me = static_cast<thr_t*>(p);
    TID       = static_cast<int>(me - T);
    // the creator is blocked until this thread reaches its first visible operation (see yield_at): the
    // invisible prefix of a thread is local, so running it eagerly loses no behaviour
    void* ret = me->fn(me->arg);
    // thread exit: hand the token over; from here on this thread is uncontrolled
    tracef(TID, OP_EXIT, nullptr);
    me->state      = T_DONE;
    me->op         = OP_NONE;
    const int self = TID;
    TID            = -1;
    if (me->booting)
    {
        me->booting = 0;
        __atomic_store_n(&me->ready, 1, __ATOMIC_RELEASE);
        syscall(SYS_futex, &me->ready, FUTEX_WAKE_PRIVATE, 1, nullptr, nullptr, 0);
        return ret;
    }
    const int next = pick();
    if (next >= 0 && next != self)
    {
        CUR = next;
        unpark(&T[next]);
    }
    return ret;
}

void reset_execution(const int* prefix, const int nprefix)
{
    for (int i = 0; i < NOBJ; ++i)
    {
        OBJ[OBJUSED[i]].addr = nullptr;
    }
    NOBJ    = 0;
    G_CHAIN = 0;
    std::memset(T, 0, sizeof(T));
    NT          = 1;
    T[0].state  = T_READY;
    T[0].op     = OP_NONE;
    T[0].chain  = 1;
    T[0].straight = 1;
    T[0].real   = pthread_self();
    CUR         = 0;
    TID         = 0;
    NDEC        = 0;
    PREFIX      = prefix;
    PREFIX_LEN  = nprefix;
    PRE_USED    = 0;
    SPU_USED    = 0;
    STEPS       = 0;
    PRUNED_AT   = -1;
    TRACE_LEN   = 0;
    if (TRACE_BUF != nullptr)
    {
        TRACE_BUF[0] = 0;
    }
}

void ensure_arrays()
{
    if (dec_choice == nullptr)
    {
        dec_choice   = static_cast<int*>(std::malloc(sizeof(int) * MAXDEC));
        dec_n        = static_cast<int*>(std::malloc(sizeof(int) * MAXDEC));
        dec_nthr     = static_cast<int*>(std::malloc(sizeof(int) * MAXDEC));
        dec_curfirst = static_cast<char*>(std::malloc(MAXDEC));
        dec_pre      = static_cast<short*>(std::malloc(sizeof(short) * MAXDEC));
        dec_spu      = static_cast<short*>(std::malloc(sizeof(short) * MAXDEC));
    }
}

sched::status_t execute(sched::body_t body, void* ctx, const int* prefix, const int nprefix)
{
    resolve();
    ensure_arrays();
    reset_execution(prefix, nprefix);
    __atomic_store_n(&ACTIVE, 1, __ATOMIC_RELEASE);
    body(ctx);
    __atomic_store_n(&ACTIVE, 0, __ATOMIC_RELEASE);
    TID = -1;
    for (int t = 1; t < NT; ++t)
    {
        if (T[t].state != T_DONE)
        {
            fatal(sched::ST_LEAK);
        }
    }
    return sched::ST_OK;
}

// work stack of schedule prefixes (byte buffer: [n][c0..cn-1] ... with the length repeated at the end)
int*   WS     = nullptr;
size_t WS_LEN = 0, WS_CAP = 0;
void ws_push(const int* c, const int n, const int last)
{
    const size_t need = WS_LEN + static_cast<size_t>(n) + 3;
    if (need > WS_CAP)
    {
        WS_CAP = need * 2 + 1024;
        WS     = static_cast<int*>(std::realloc(WS, WS_CAP * sizeof(int)));
    }
    std::memcpy(WS + WS_LEN, c, sizeof(int) * static_cast<size_t>(n));
    WS[WS_LEN + static_cast<size_t>(n)]     = last;
    WS[WS_LEN + static_cast<size_t>(n) + 1] = n + 1;
    WS_LEN += static_cast<size_t>(n) + 2;
}
int ws_pop(int* out)
{
    const int n = WS[WS_LEN - 1];
    WS_LEN -= static_cast<size_t>(n) + 1;
    std::memcpy(out, WS + WS_LEN, sizeof(int) * static_cast<size_t>(n));
    return n;
}

double now_s()
{
    struct timespec ts;
    clock_gettime(CLOCK_MONOTONIC, &ts);
    return static_cast<double>(ts.tv_sec) + 1e-9 * static_cast<double>(ts.tv_nsec);
}

/// push every alternative of the execution just finished that stays within the bounds; returns how many
int push_children(const int nprefix)
{
    int pushed = 0;
    for (int i = NDEC - 1; i >= nprefix; --i)
    {
        if (PRUNED_AT >= 0 && i >= PRUNED_AT)
        {
            continue;
        }
        if (CFG.horizon > 0 && i >= CFG.horizon)
        {
            continue;
        }
        for (int alt = dec_n[i] - 1; alt >= 1; --alt)
        {
            if (dec_nthr[i] < 0 || alt < dec_nthr[i])
            {
                const int cost = dec_curfirst[i] ? 1 : 0;
                if (dec_pre[i] + cost > CFG.budget)
                {
                    continue;
                }
            }
            ws_push(dec_choice, i, alt);
            ++pushed;
        }
    }
    return pushed;
}

int LAST_PREEMPTIONS = 0;
} // namespace

// ---------------------------------------------------------------------------------------------
// public interface
namespace sched
{
int self()
{
    return (ACTIVE != 0) ? TID : -1;
}
bool active()
{
    return ACTIVE != 0;
}
void set_hw_threads(const int n)
{
    g_hw = n;
}
void point(const int label)
{
    if (ACTIVE == 0 || TID < 0)
    {
        return;
    }
    yield_at(OP_POINT, nullptr);
    thr_t& me = T[TID];
    me.chain  = mix2(mix2(me.chain, static_cast<uint64_t>(label) + 977), G_CHAIN);
    G_CHAIN   = mix2(me.chain, 0x77);
}
void set_digest(digest_t fn, void* ctx)
{
    DIGEST     = fn;
    DIGEST_CTX = ctx;
}
void straightline()
{
    if (ACTIVE != 0 && TID >= 0)
    {
        T[TID].straight = 1;
    }
}
void observe(const uint64_t x)
{
    if (ACTIVE == 0 || TID < 0)
    {
        return;
    }
    T[TID].chain = mix2(T[TID].chain, x);
}
const int* current_choices(int* n)
{
    *n = NDEC;
    return dec_choice;
}
int last_preemptions()
{
    return LAST_PREEMPTIONS;
}
void trace(const bool on)
{
    TRACE_ON = on;
}
const char* trace_text()
{
    return TRACE_BUF != nullptr ? TRACE_BUF : "";
}

status_t replay(const config_t& cfg, body_t body, after_t after, fatal_t fatal_cb, void* ctx, const int* choices,
                const int nchoices)
{
    CFG       = cfg;
    CFG.prune = 0;
    FATAL     = fatal_cb;
    FATAL_CTX = ctx;
    execute(body, ctx, choices, nchoices);
    LAST_PREEMPTIONS = PRE_USED;
    if (after != nullptr)
    {
        after(ctx, dec_choice, NDEC);
    }
    return ST_OK;
}

status_t explore(const config_t& cfg, body_t body, after_t after, fatal_t fatal_cb, void* ctx, const int shard,
                 const int shards, const double deadline_s, stats_t* st)
{
    CFG       = cfg;
    FATAL     = fatal_cb;
    FATAL_CTX = ctx;
    ensure_arrays();
    vis_init();
    WS_LEN         = 0;
    const auto t0  = now_s();
    int*       cur = static_cast<int*>(std::malloc(sizeof(int) * MAXDEC));
    bool       stop = false;

    const auto run_one = [&](const int n, const bool count) -> void
    {
        const auto before = TRANSITIONS;
        execute(body, ctx, cur, n);
        LAST_PREEMPTIONS = PRE_USED;
        if (count)
        {
            st->executions += 1;
            st->transitions += TRANSITIONS - before;
            st->decisions += static_cast<uint64_t>(NDEC);
            st->max_depth = NDEC > static_cast<int>(st->max_depth) ? static_cast<uint64_t>(NDEC) : st->max_depth;
            st->pruned += PRUNED_AT >= 0 ? 1 : 0;
            st->preempted += PRE_USED > 0 ? 1 : 0;
            if (after != nullptr && !after(ctx, dec_choice, NDEC))
            {
                stop = true;
            }
        }
    };

    // expansion phase: every shard runs the root and its children identically (counted by shard 0 only),
    // the grandchildren are dealt out round-robin; pruning is off here so that the frontier cannot depend on
    // anything process-specific (object names in the fingerprints are addresses)
    if (shards > 1)
    {
        CFG.prune = 0;
    }
    run_one(0, shard == 0);
    push_children(0);
    if (shards > 1 && !stop)
    {
        // level 1
        const size_t mark = WS_LEN;
        (void)mark;
        // collect level-1 items
        size_t nitems = 0;
        {
            size_t pos = WS_LEN;
            while (pos > 0)
            {
                pos -= static_cast<size_t>(WS[pos - 1]) + 1;
                ++nitems;
            }
        }
        int*   l1     = static_cast<int*>(std::malloc(sizeof(int) * (WS_LEN + 1)));
        size_t l1_len = WS_LEN;
        std::memcpy(l1, WS, sizeof(int) * WS_LEN);
        WS_LEN = 0;
        // run level-1 items in stack order; their children form the level-2 frontier
        int*     save     = WS;
        size_t   save_cap = WS_CAP;
        WS                = nullptr;
        WS_CAP            = 0;
        uint64_t index    = 0;
        int*     mine     = nullptr;
        size_t   mine_len = 0, mine_cap = 0;
        while (l1_len > 0 && !stop)
        {
            const int n = l1[l1_len - 1];
            l1_len -= static_cast<size_t>(n) + 1;
            std::memcpy(cur, l1 + l1_len, sizeof(int) * static_cast<size_t>(n));
            run_one(n, shard == 0);
            WS_LEN = 0;
            push_children(n);
            // deal out
            size_t pos = WS_LEN;
            while (pos > 0)
            {
                const int m = WS[pos - 1];
                pos -= static_cast<size_t>(m) + 1;
                if (static_cast<int>(index % static_cast<uint64_t>(shards)) == shard)
                {
                    const size_t need = mine_len + static_cast<size_t>(m) + 1;
                    if (need > mine_cap)
                    {
                        mine_cap = need * 2 + 1024;
                        mine     = static_cast<int*>(std::realloc(mine, mine_cap * sizeof(int)));
                    }
                    std::memcpy(mine + mine_len, WS + pos, sizeof(int) * (static_cast<size_t>(m) + 1));
                    mine_len += static_cast<size_t>(m) + 1;
                }
                ++index;
            }
        }
        std::free(WS);
        std::free(l1);
        WS     = save;
        WS_CAP = save_cap;
        WS_LEN = 0;
        if (mine_len > 0)
        {
            if (mine_len > WS_CAP)
            {
                WS_CAP = mine_len * 2;
                WS     = static_cast<int*>(std::realloc(WS, WS_CAP * sizeof(int)));
            }
            std::memcpy(WS, mine, sizeof(int) * mine_len);
            WS_LEN = mine_len;
        }
        std::free(mine);
        (void)nitems;
        CFG.prune = cfg.prune;
    }

    uint64_t since_check = 0;
    while (WS_LEN > 0 && !stop)
    {
        const int n = ws_pop(cur);
        run_one(n, true);
        push_children(n);
        if ((++since_check & 255U) == 0U && now_s() - t0 > deadline_s)
        {
            st->capped = 1;
            break;
        }
    }
    st->states += VISUSED;
    std::free(cur);
    vis_free();
    return ST_OK;
}
} // namespace sched

// ---------------------------------------------------------------------------------------------
// interposed functions
#define CONTROLLED() (ACTIVE != 0 && TID >= 0)

extern "C" int pthread_mutex_lock(pthread_mutex_t* m)
{
    if (!g_resolved)
    {
        if (g_resolving)
        {
            return 0;
        }
        resolve();
    }
    if (!CONTROLLED())
    {
        return real_lock(m);
    }
    yield_at(OP_LOCK, m);
    obj_t* o = object(m);
    o->owner = TID;
    touch(T[TID], OP_LOCK, o);
    return real_lock(m);
}

extern "C" int pthread_mutex_trylock(pthread_mutex_t* m)
{
    if (!g_resolved)
    {
        if (g_resolving)
        {
            return 0;
        }
        resolve();
    }
    if (!CONTROLLED())
    {
        return real_trylock(m);
    }
    yield_at(OP_TRYLOCK, m);
    obj_t* o = object(m);
    touch(T[TID], OP_TRYLOCK, o);
    if (o->owner >= 0)
    {
        return EBUSY;
    }
    o->owner = TID;
    return real_trylock(m);
}

extern "C" int pthread_mutex_unlock(pthread_mutex_t* m)
{
    if (!g_resolved)
    {
        if (g_resolving)
        {
            return 0;
        }
        resolve();
    }
    if (!CONTROLLED())
    {
        return real_unlock(m);
    }
    obj_t* o = object(m);
    o->owner = -1;
    o->chain = mix2(o->chain, T[TID].chain);
    tracef(TID, OP_UNLOCK, m);
    return real_unlock(m);
}

static int cond_wait_model(pthread_cond_t* cv, pthread_mutex_t* m)
{
    // scheduling point between the caller's predicate check and the wait itself
    yield_at(OP_CWAIT, cv, m);
    thr_t& me  = T[TID];
    obj_t* om  = object(m);
    obj_t* ocv = object(cv);
    touch(me, OP_CWAIT, ocv);
    om->owner = -1;
    om->chain = mix2(om->chain, me.chain);
    real_unlock(m);
    // block in the condition variable until signalled (or spuriously woken), then re-acquire
    me.state = T_CVWAIT;
    me.op    = OP_CWAIT;
    me.obj   = cv;
    me.obj2  = m;
    {
        const int next = pick();
        if (next != TID)
        {
            CUR = next;
            unpark(&T[next]);
            park(&me);
        }
    }
    tracef(TID, OP_RELOCK, m);
    om        = object(m);
    om->owner = TID;
    touch(me, OP_RELOCK, om);
    return real_lock(m);
}

extern "C" int pthread_cond_wait(pthread_cond_t* cv, pthread_mutex_t* m)
{
    resolve();
    if (!CONTROLLED())
    {
        return real_cwait(cv, m);
    }
    return cond_wait_model(cv, m);
}
extern "C" int pthread_cond_timedwait(pthread_cond_t* cv, pthread_mutex_t* m, const struct timespec* ts)
{
    resolve();
    if (!CONTROLLED())
    {
        return real_ctimed(cv, m, ts);
    }
    return cond_wait_model(cv, m); // time-outs never fire under the scheduler (libnano has no timed waits)
}
extern "C" int pthread_cond_clockwait(pthread_cond_t* cv, pthread_mutex_t* m, clockid_t c, const struct timespec* ts)
{
    resolve();
    if (!CONTROLLED())
    {
        return real_cclock(cv, m, c, ts);
    }
    return cond_wait_model(cv, m);
}

static void wake_waiter(const int w, obj_t* ocv)
{
    thr_t& x = T[w];
    x.state  = T_READY;
    x.op     = OP_RELOCK;
    x.obj    = x.obj2;
    x.chain  = mix2(x.chain, ocv->chain);
}

extern "C" int pthread_cond_signal(pthread_cond_t* cv)
{
    resolve();
    if (!CONTROLLED())
    {
        return real_csignal(cv);
    }
    yield_at(OP_SIGNAL, cv);
    obj_t* ocv = object(cv);
    touch(T[TID], OP_SIGNAL, ocv);
    int waiters[MAXT], nw = 0;
    for (int t = 0; t < NT; ++t)
    {
        if (T[t].state == T_CVWAIT && T[t].obj == cv)
        {
            waiters[nw++] = t;
        }
    }
    if (nw == 1)
    {
        wake_waiter(waiters[0], ocv);
    }
    else if (nw > 1)
    {
        // which waiter a signal wakes is up to the implementation: a free choice, always explored
        const int w = decide(nw, -1, CFG.count_all != 0);
        if (w > 0 && CFG.count_all != 0)
        {
            ++PRE_USED;
        }
        wake_waiter(waiters[w], ocv);
    }
    return 0;
}

extern "C" int pthread_cond_broadcast(pthread_cond_t* cv)
{
    resolve();
    if (!CONTROLLED())
    {
        return real_cbroadcast(cv);
    }
    yield_at(OP_BCAST, cv);
    obj_t* ocv = object(cv);
    touch(T[TID], OP_BCAST, ocv);
    for (int t = 0; t < NT; ++t)
    {
        if (T[t].state == T_CVWAIT && T[t].obj == cv)
        {
            wake_waiter(t, ocv);
        }
    }
    return 0;
}

extern "C" int pthread_create(pthread_t* th, const pthread_attr_t* attr, void* (*fn)(void*), void* arg)
{
    resolve();
    if (!CONTROLLED())
    {
        return real_create(th, attr, fn, arg);
    }
    // creation is not a scheduling point: it cannot conflict with anything another thread does
    if (NT >= MAXT)
    {
        std::fprintf(stderr, "sched: too many threads\n");
        std::abort();
    }
    const int id = NT;
    thr_t&    c  = T[id];
    std::memset(&c, 0, sizeof(c));
    c.state   = T_READY;
    c.op      = OP_START;
    c.booting = 1;
    c.fn      = fn;
    c.arg   = arg;
    T[TID].chain = mix2(T[TID].chain, OP_CREATE * 1000 + static_cast<uint64_t>(id));
    c.chain      = mix2(T[TID].chain, static_cast<uint64_t>(id));
    NT           = id + 1;
    const int rc = real_create(th, attr, trampoline, &c);
    if (rc != 0)
    {
        NT = id;
        return rc;
    }
    c.real = *th;
    while (__atomic_load_n(&c.ready, __ATOMIC_ACQUIRE) == 0)
    {
        syscall(SYS_futex, &c.ready, FUTEX_WAIT_PRIVATE, 0, nullptr, nullptr, 0);
    }
    return 0;
}

extern "C" int pthread_join(pthread_t th, void** ret)
{
    resolve();
    if (!CONTROLLED())
    {
        return real_join(th, ret);
    }
    int target = -1;
    for (int t = 1; t < NT; ++t)
    {
        if (pthread_equal(T[t].real, th))
        {
            target = t;
        }
    }
    if (target < 0)
    {
        return real_join(th, ret);
    }
    yield_at(OP_JOIN, nullptr, nullptr, 0, target);
    T[TID].chain = mix2(mix2(T[TID].chain, OP_JOIN), T[target].chain);
    return real_join(th, ret);
}

// libstdc++ 12: the blocking half of std::future::wait/get and of packaged_task completion
namespace std
{
bool __atomic_futex_unsigned_base::_M_futex_wait_until(unsigned* addr, unsigned val, bool has_timeout,
                                                       chrono::seconds s, chrono::nanoseconds ns)
{
    if (!CONTROLLED())
    {
        if (!has_timeout)
        {
            syscall(SYS_futex, addr, FUTEX_WAIT_PRIVATE, val, nullptr, nullptr, 0);
            return true;
        }
        // absolute CLOCK_REALTIME time-out -> relative
        struct timespec now;
        clock_gettime(CLOCK_REALTIME, &now);
        long long rel = (static_cast<long long>(s.count()) - now.tv_sec) * 1000000000LL + (ns.count() - now.tv_nsec);
        if (rel <= 0)
        {
            return false;
        }
        struct timespec rt;
        rt.tv_sec  = static_cast<time_t>(rel / 1000000000LL);
        rt.tv_nsec = static_cast<long>(rel % 1000000000LL);
        if (syscall(SYS_futex, addr, FUTEX_WAIT_PRIVATE, val, &rt, nullptr, 0) == -1 && errno == ETIMEDOUT)
        {
            return false;
        }
        return true;
    }
    yield_at(OP_FWAIT, addr, nullptr, val);
    touch(T[TID], OP_FWAIT, object(addr));
    return true;
}
bool __atomic_futex_unsigned_base::_M_futex_wait_until_steady(unsigned* addr, unsigned val, bool has_timeout,
                                                              chrono::seconds s, chrono::nanoseconds ns)
{
    if (!CONTROLLED())
    {
        if (!has_timeout)
        {
            syscall(SYS_futex, addr, FUTEX_WAIT_PRIVATE, val, nullptr, nullptr, 0);
            return true;
        }
        struct timespec now;
        clock_gettime(CLOCK_MONOTONIC, &now);
        long long rel = (static_cast<long long>(s.count()) - now.tv_sec) * 1000000000LL + (ns.count() - now.tv_nsec);
        if (rel <= 0)
        {
            return false;
        }
        struct timespec rt;
        rt.tv_sec  = static_cast<time_t>(rel / 1000000000LL);
        rt.tv_nsec = static_cast<long>(rel % 1000000000LL);
        if (syscall(SYS_futex, addr, FUTEX_WAIT_PRIVATE, val, &rt, nullptr, 0) == -1 && errno == ETIMEDOUT)
        {
            return false;
        }
        return true;
    }
    yield_at(OP_FWAIT, addr, nullptr, val);
    touch(T[TID], OP_FWAIT, object(addr));
    return true;
}
void __atomic_futex_unsigned_base::_M_futex_notify_all(unsigned* addr)
{
    if (!CONTROLLED())
    {
        syscall(SYS_futex, addr, FUTEX_WAKE_PRIVATE, INT_MAX, nullptr, nullptr, 0);
        return;
    }
    // no scheduling point: waiters are enabled by the value stored before this call, the notify itself is a
    // release that conflicts with nothing
    touch(T[TID], OP_FNOTIFY, object(addr));
    tracef(TID, OP_FNOTIFY, addr);
}

unsigned int thread::hardware_concurrency() noexcept
{
    if (g_hw > 0)
    {
        return static_cast<unsigned int>(g_hw);
    }
    const long n = sysconf(_SC_NPROCESSORS_ONLN);
    return n > 0 ? static_cast<unsigned int>(n) : 0U;
}
} // namespace std
