#include "detrand.h"
#include <atomic>
#include <random>

namespace
{
std::atomic<uint64_t> g_seed{0x9e3779b97f4a7c15ULL};
std::atomic<uint64_t> g_count{0};
uint64_t mix(uint64_t x)
{
    x ^= x >> 30;
    x *= 0xbf58476d1ce4e5b9ULL;
    x ^= x >> 27;
    x *= 0x94d049bb133111ebULL;
    x ^= x >> 31;
    return x;
}
} // namespace

void verif::detrand_reset(const uint64_t seed)
{
    g_seed  = seed;
    g_count = 0;
}
uint64_t verif::detrand_draws()
{
    return g_count.load();
}

// the executable's definition wins over libstdc++.so's for the (statically linked) libnano code
std::random_device::result_type std::random_device::_M_getval()
{
    const auto k = g_count.fetch_add(1);
    return static_cast<result_type>(mix(g_seed.load() + 0x632be59bd9b4e019ULL * (k + 1)) >> 16);
}
