// E1 — controlled scheduler + preemption-bounded stateless explorer (see DESIGN.md §2).
//
// The harness executable defines (in sched.cpp) pthread_mutex_lock/trylock/unlock, pthread_cond_wait/
// timedwait/clockwait/signal/broadcast, pthread_create/join, libstdc++'s future futex wait/notify and
// std::thread::hardware_concurrency; the unmodified libnano code (std::mutex, std::condition_variable,
// std::thread, std::packaged_task/shared_future) therefore runs on top of the scheduler. While no
// exploration is active every interposer forwards to the real function, so the same harness body can
// also run free (ThreadSanitizer pass).
#pragma once

#include <cstddef>
#include <cstdint>

namespace sched
{
struct config_t
{
    int  budget    = 0;       ///< preemption budget (switching away from a thread that could continue)
    int  spurious  = 0;       ///< budget of spurious condition-variable wake-ups
    long horizon   = 0;       ///< 0: branch at every decision; >0: no new branches after this many decisions
    long max_steps = 2000000; ///< scheduling steps after which an execution is declared a hang
    int  count_all = 0;       ///< 1: every non-default choice (also a free switch after a thread blocked, the choice of
                              ///< the waiter a signal wakes) costs one unit of `budget` — a deviation bound, used with a horizon
    int  prune     = 1;       ///< 0: none; 1: happens-before fingerprints (history based, sound under data-race
                              ///< freedom); 2: state fingerprints (pending operations + mutex owners + the digest of
                              ///< the shared data supplied by the harness; see set_digest)
};

enum status_t
{
    ST_OK       = 0,
    ST_DEADLOCK = 1, ///< unfinished threads, none enabled
    ST_HANG     = 2, ///< max_steps exceeded
    ST_DIVERGED = 3, ///< a replayed prefix asked for an alternative that does not exist (broken check)
    ST_LEAK     = 4, ///< body returned while controlled threads were still alive
};

struct stats_t
{
    uint64_t executions  = 0; ///< complete executions of the body
    uint64_t transitions = 0; ///< scheduling steps executed
    uint64_t decisions   = 0; ///< decision points with >= 2 alternatives
    uint64_t states      = 0; ///< distinct fingerprints seen at fresh decision points
    uint64_t pruned      = 0; ///< executions whose branching was cut by a visited fingerprint
    uint64_t max_depth   = 0; ///< largest number of decisions in one execution
    uint64_t preempted   = 0; ///< executions containing at least one preemption
    int      capped      = 0; ///< 1 when the deadline stopped the search before the bound was complete
};

typedef void (*body_t)(void* ctx);
/// called on the main thread after every complete execution; return false to stop the exploration
typedef bool (*after_t)(void* ctx, const int* choices, int nchoices);
/// called (on whatever thread detects it) when an execution cannot complete; must not return
typedef void (*fatal_t)(void* ctx, status_t why, const int* choices, int nchoices);

/// explore all schedules of `body` within the bounds; `shard`/`shards` split the level-2 frontier.
/// returns ST_OK or ST_DIVERGED.
status_t explore(const config_t& cfg, body_t body, after_t after, fatal_t fatal, void* ctx, int shard, int shards,
                 double deadline_s, stats_t* stats);

/// run exactly one schedule (choices beyond the list: default policy); `after` is called once.
status_t replay(const config_t& cfg, body_t body, after_t after, fatal_t fatal, void* ctx, const int* choices,
                int nchoices);

/// explicit scheduling point inside a harness task body (all points are totally ordered in the fingerprint)
void point(int label = 0);
/// controlled thread id of the caller (0 = the thread that called explore/replay), -1 when not controlled
int self();
/// true while an execution is in progress
bool active();
/// value returned by std::thread::hardware_concurrency() (0: the real one)
void set_hw_threads(int n);
/// mix a harness observation into the caller's happens-before chain (keeps pruning sound for state the harness
/// shares between threads outside the tracked objects)
void observe(uint64_t x);
/// state-fingerprint mode: the harness supplies a digest of *all* data shared between controlled threads (the
/// protected data of the tracked mutexes and its own monitors). The state of a thread is then taken to be its
/// pending operation and object, plus its own operation count for threads marked straight-line (thread 0 always is).
typedef uint64_t (*digest_t)(void* ctx);
void set_digest(digest_t fn, void* ctx);
/// marks the calling controlled thread as straight-line code (its operation count is its program counter)
void straightline();
/// decision log of the execution in progress / last finished (for crash handlers)
const int* current_choices(int* n);
/// number of decisions of the last execution at which the running thread was preempted
int last_preemptions();
/// event trace of the last execution (one line per step) when tracing was enabled with trace(true)
void        trace(bool on);
const char* trace_text();
} // namespace sched
