// Deterministic std::random_device: link engine/detrand.cpp into a harness and every
// std::random_device{}() (hence nano::make_rng() without a seed) returns a replayable value.
#pragma once
#include <cstdint>
namespace verif
{
/// restart the sequence: the k-th draw after this call returns mix(seed, k)
void detrand_reset(uint64_t seed);
/// number of draws since the last reset
uint64_t detrand_draws();
} // namespace verif
