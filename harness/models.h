// Small deterministic datasets and cheap model configurations shared by the model-level harnesses (C11, C18).
#pragma once

#include "table_ds.h"
#include <nano/gboost/model.h>
#include <nano/gboost/result.h>
#include <nano/linear.h>
#include <nano/linear/result.h>
#include <nano/loss.h>
#include <nano/machine/params.h>
#include <nano/wlearner.h>

namespace vt
{
/// regression (classes == 0) or `classes`-way classification dataset: 2 scalar features, 1 categorical feature
/// (3 labels), generic values without exact ties, a few missing cells when `with_missing`.
inline std::unique_ptr<table_datasource_t> make_model_source(const tensor_size_t samples, const int classes,
                                                             const bool with_missing, const uint64_t salt = 0)
{
    std::vector<column_t> cols = {make_scalar("x0"), make_scalar("x1"), make_sclass("c", 3)};
    cols.push_back(classes == 0 ? make_scalar("y") : make_sclass("y", static_cast<size_t>(classes)));
    const double table[3] = {-0.6, 0.1, 0.8};
    for (auto& c : cols)
    {
        c.values.resize(static_cast<size_t>(samples));
    }
    for (tensor_size_t s = 0; s < samples; ++s)
    {
        const auto   u  = static_cast<uint64_t>(s);
        const double x0 = generic(u, 1 + salt), x1 = generic(u, 2 + salt);
        const int    c  = static_cast<int>((u * 5 + salt) % 3);
        const double y  = 0.7 * x0 - 0.4 * x1 + table[c] + 0.05 * generic(u, 3 + salt);
        const auto   i  = static_cast<size_t>(s);
        cols[0].values[i] = std::vector<double>{x0};
        if (!(with_missing && s % 11 == 5))
        {
            cols[1].values[i] = std::vector<double>{x1};
        }
        if (!(with_missing && s % 13 == 7))
        {
            cols[2].values[i] = std::vector<double>{static_cast<double>(c)};
        }
        if (classes == 0)
        {
            cols[3].values[i] = std::vector<double>{y};
        }
        else
        {
            const int label = classes == 2 ? (y > 0.1 ? 1 : 0) : (y < -0.3 ? 0 : y < 0.4 ? 1 : 2);
            cols[3].values[i] = std::vector<double>{static_cast<double>(std::min(label, classes - 1))};
        }
    }
    auto src = std::make_unique<table_datasource_t>(samples, std::move(cols), 3);
    src->load();
    return src;
}

inline dataset_t make_model_dataset(const datasource_t& source, const size_t threads)
{
    auto dataset = dataset_t{source, threads};
    add_identity_generators(dataset);
    return dataset;
}

/// cheap fitting parameters: k-fold with the given folds, the given tuner, lbfgs with a modest budget
inline ml::params_t make_fit_params(const int folds, const std::string& tuner, const int max_evals = 300,
                                    const double epsilon = 1e-7)
{
    ml::params_t params;
    auto         splitter                  = splitter_t::all().get("k-fold");
    splitter->parameter("splitter::folds") = folds;
    params.splitter(*splitter);
    auto rtuner                           = tuner_t::all().get(tuner);
    rtuner->parameter("tuner::max_evals") = 10;
    params.tuner(*rtuner);
    auto solver                             = solver_t::all().get("lbfgs");
    solver->parameter("solver::max_evals") = max_evals;
    solver->parameter("solver::epsilon")   = epsilon;
    params.solver(*solver);
    params.logger(make_null_logger());
    return params;
}

/// weak-learner pools: 0 = {stump}, 1 = {stump, dense-table}, 2 = {affine, dtree}
inline rwlearners_t make_pool(const int pool)
{
    rwlearners_t w;
    const auto   add = [&](const char* id) { w.emplace_back(wlearner_t::all().get(id)); };
    switch (pool)
    {
    case 0: add("stump"); break;
    case 1:
        add("stump");
        add("dense-table");
        break;
    default:
        add("affine");
        add("dtree");
        break;
    }
    return w;
}

inline gboost_model_t make_gboost(const int pool, const int max_rounds = 10, const int patience = 2, const double epsilon = 1e-6)
{
    auto model = gboost_model_t{};
    model.parameter("gboost::max_rounds") = max_rounds;
    model.parameter("gboost::epsilon")    = epsilon;
    model.parameter("gboost::patience")   = patience;
    model.parameter("gboost::batch")      = 10;
    model.prototypes(make_pool(pool));
    return model;
}
} // namespace vt
