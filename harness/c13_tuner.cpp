// C13 (tuners) — choice-point exploration (E2): the tuner is a deterministic machine whose only input is what
// the evaluation callback returns. The callback answers every *new* grid point with mc::choose(3) from the value
// alphabet {0,1,2} (plateaus and ties are the interesting landscapes), so the exploration is exhaustive over all
// landscapes as far as the tuner can distinguish them.
//
// stages: "landscape" (all landscapes), "nonfinite" (one evaluation returns NaN/+inf/-inf: optimize must throw)
// case encoding: "<tuner>:<grid id>:<scale 0|1>:<max_evals>|c0,c1,..."
#include "mc.h"
#include "verif.h"
#include <nano/tuner.h>
#include <set>

using namespace nano;
using namespace verif;

namespace
{
struct grid_t
{
    std::string      name;
    std::vector<int> sizes;
};

const std::vector<grid_t>& grids(const bool thorough)
{
    static const std::vector<grid_t> quick = {{"2", {2}},     {"3", {3}},     {"5", {5}},      {"7", {7}},
                                              {"2x2", {2, 2}}, {"3x3", {3, 3}}, {"2x2x2", {2, 2, 2}}};
    static const std::vector<grid_t> deep  = {{"2", {2}},     {"3", {3}},     {"5", {5}},         {"7", {7}},      {"9", {9}},
                                              {"2x2", {2, 2}}, {"3x3", {3, 3}}, {"2x5", {2, 5}},    {"3x4", {3, 4}},
                                              {"2x2x2", {2, 2, 2}}, {"2x2x3", {2, 2, 3}}};
    return thorough ? deep : quick;
}

struct config_t
{
    std::string tuner = "local-search";
    int         grid  = 0;
    int         scale = 0; ///< 0 linear, 1 log10
    int         max_evals = 10;
    int         alphabet = 0; ///< value alphabet: 0 {0,1,2}; 1 {0,1e-17,2e-17}; 2 {1, 1+eps, 1+2eps} (distinct values a few ulps apart)
    bool        thorough = false;
    std::string str() const
    {
        return tuner + ":" + std::to_string(grid) + ":" + std::to_string(scale) + ":" + std::to_string(max_evals) + ":" +
               std::to_string(alphabet);
    }
};

param_spaces_t make_spaces(const config_t& k, const grid_t& g)
{
    param_spaces_t spaces;
    for (size_t i = 0; i < g.sizes.size(); ++i)
    {
        tensor1d_t values(g.sizes[i]);
        for (tensor_size_t j = 0; j < values.size(); ++j)
        {
            // sorted grid values; log10 grids span decades, linear grids are equidistant with an offset per space
            values(j) = k.scale == 1 ? std::pow(10.0, static_cast<double>(j) - 3.0 + static_cast<double>(i))
                                     : 0.25 * static_cast<double>(j) + static_cast<double>(i);
        }
        spaces.emplace_back("p" + std::to_string(i), k.scale == 1 ? param_space_t::type::log10 : param_space_t::type::linear,
                            values);
    }
    return spaces;
}

double alphabet_value(const int alphabet, const int k)
{
    switch (alphabet)
    {
    case 1: return 1e-17 * static_cast<double>(k);
    case 2: return 1.0 + std::numeric_limits<double>::epsilon() * static_cast<double>(k);
    default: return static_cast<double>(k);
    }
}

struct run_t
{
    // observations of one execution
    std::vector<std::vector<int>> evaluated;  ///< grid index tuples in evaluation order
    std::vector<double>           answers;
    std::set<std::vector<int>>    seen;
    bool                          off_grid = false, repeated = false, thrown = false, bad_shape = false;
    std::string                   what;
    tuner_steps_t                 steps;
};

void execute(const config_t& k, mc::chooser_t& ch, run_t& out, const int poison_at = -1, const double poison = 0.0)
{
    const auto& g      = grids(k.thorough)[static_cast<size_t>(k.grid)];
    const auto  spaces = make_spaces(k, g);
    auto        tuner  = tuner_t::all().get(k.tuner);
    tuner->parameter("tuner::max_evals") = k.max_evals;
    const auto callback = [&](const tensor2d_t& params)
    {
        tensor1d_t values(params.size<0>());
        if (params.size<1>() != static_cast<tensor_size_t>(g.sizes.size()))
        {
            out.bad_shape = true;
        }
        for (tensor_size_t t = 0; t < params.size<0>(); ++t)
        {
            std::vector<int> idx;
            for (tensor_size_t p = 0; p < params.size<1>() && p < static_cast<tensor_size_t>(spaces.size()); ++p)
            {
                const auto& gv    = spaces[static_cast<size_t>(p)].values();
                int         found = -1;
                for (tensor_size_t j = 0; j < gv.size(); ++j)
                {
                    if (std::memcmp(&gv(j), &params(t, p), sizeof(scalar_t)) == 0)
                    {
                        found = static_cast<int>(j);
                    }
                }
                if (found < 0)
                {
                    out.off_grid = true;
                }
                idx.push_back(found);
            }
            if (!out.seen.insert(idx).second)
            {
                out.repeated = true;
            }
            const auto   n = static_cast<int>(out.evaluated.size());
            const double v = (n == poison_at) ? poison : alphabet_value(k.alphabet, ch.choose(3));
            out.evaluated.push_back(idx);
            out.answers.push_back(v);
            values(t) = v;
        }
        return values;
    };
    try
    {
        out.steps = tuner->optimize(spaces, callback, make_null_logger());
    }
    catch (const std::exception& e)
    {
        out.thrown = true;
        out.what   = e.what();
    }
}

std::string vec_str(const std::vector<int>& h)
{
    std::string s;
    for (size_t i = 0; i < h.size(); ++i)
    {
        s += (i ? "," : "") + std::to_string(h[i]);
    }
    return s;
}

/// the clauses of the statement for one finished run
std::string judge(const config_t& k, const run_t& run)
{
    const auto& g = grids(k.thorough)[static_cast<size_t>(k.grid)];
    if (run.thrown)
    {
        return "tuner:unexpected-exception";
    }
    if (run.bad_shape)
    {
        return "tuner:callback-shape";
    }
    if (run.off_grid)
    {
        return "tuner:off-grid";
    }
    if (run.repeated)
    {
        return "tuner:point-evaluated-twice";
    }
    size_t pow3 = 1;
    for (size_t i = 0; i < g.sizes.size(); ++i)
    {
        pow3 *= 3;
    }
    if (run.evaluated.size() > static_cast<size_t>(k.max_evals) + pow3)
    {
        return "tuner:too-many-evaluations";
    }
    if (run.evaluated.empty())
    {
        return "tuner:nothing-evaluated";
    }
    if (run.steps.size() != run.evaluated.size())
    {
        return "tuner:steps-count";
    }
    double minv = run.answers[0];
    for (const auto v : run.answers)
    {
        minv = std::min(minv, v);
    }
    if (run.steps.front().m_value != minv)
    {
        return "tuner:first-not-minimum";
    }
    const auto spaces = make_spaces(k, g);
    std::multiset<std::pair<std::vector<int>, double>> expected, got;
    for (size_t i = 0; i < run.evaluated.size(); ++i)
    {
        expected.insert({run.evaluated[i], run.answers[i]});
    }
    for (size_t i = 0; i < run.steps.size(); ++i)
    {
        const auto& s = run.steps[i];
        if (i > 0 && run.steps[i - 1].m_value > s.m_value)
        {
            return "tuner:steps-not-sorted";
        }
        std::vector<int> idx;
        if (s.m_igrid.size() != static_cast<tensor_size_t>(g.sizes.size()) || s.m_param.size() != s.m_igrid.size())
        {
            return "tuner:step-shape";
        }
        for (tensor_size_t p = 0; p < s.m_igrid.size(); ++p)
        {
            const auto j = s.m_igrid(p);
            if (j < 0 || j >= g.sizes[static_cast<size_t>(p)] || spaces[static_cast<size_t>(p)].values()(j) != s.m_param(p))
            {
                return "tuner:step-param-not-grid-value";
            }
            idx.push_back(static_cast<int>(j));
        }
        got.insert({idx, s.m_value});
    }
    if (got != expected)
    {
        return "tuner:steps-differ-from-evaluations";
    }
    return "";
}

bool parse_case(const std::string& s, config_t& k, std::vector<int>& choices, int& poison_at, int& poison_kind)
{
    const auto bar  = s.find('|');
    const auto head = s.substr(0, bar);
    char       name[64];
    poison_at = -1, poison_kind = 0;
    if (std::sscanf(head.c_str(), "%63[^:]:%d:%d:%d:%d:%d:%d", name, &k.grid, &k.scale, &k.max_evals, &k.alphabet, &poison_at, &poison_kind) < 5)
    {
        return false;
    }
    k.tuner = name;
    choices.clear();
    if (bar != std::string::npos)
    {
        const char* q = s.c_str() + bar + 1;
        while (*q)
        {
            choices.push_back(static_cast<int>(std::strtol(q, const_cast<char**>(&q), 10)));
            if (*q == ',')
            {
                ++q;
            }
        }
    }
    return true;
}

double poison_value(const int kind)
{
    return kind == 0 ? std::numeric_limits<double>::quiet_NaN()
           : kind == 1 ? std::numeric_limits<double>::infinity()
                       : -std::numeric_limits<double>::infinity();
}
} // namespace

int main(int argc, char** argv)
{
    const auto  args  = parse_args(argc, argv);
    const auto  stage = args.stage.empty() ? "landscape" : args.stage;
    report_t    r("c13/" + stage, args);
    config_t    k;
    k.thorough = args.thorough();

    if (!args.one.empty())
    {
        std::vector<int> choices;
        int              pat = -1, pkind = 0;
        if (!parse_case(args.one, k, choices, pat, pkind))
        {
            return 2;
        }
        run_t         run;
        mc::chooser_t ch(choices);
        execute(k, ch, run, pat, poison_value(pkind));
        r.evaluations = 1;
        if (pat >= 0)
        {
            if (static_cast<int>(run.evaluated.size()) > pat && !run.thrown)
            {
                r.violation("tuner:nonfinite-accepted", args.one, jobj({{"config", jstr(k.str())}}));
            }
        }
        else
        {
            const auto v = judge(k, run);
            if (!v.empty())
            {
                r.violation(v, args.one, jobj({{"config", jstr(k.str())}, {"what", jstr(run.what)}}));
            }
        }
        return r.finish();
    }

    const auto&                   G      = grids(k.thorough);
    const std::vector<std::string> tuners = {"local-search", "surrogate"};
    const std::vector<int>         evals  = {10, 12, 20};
    r.axis("grids", jarr(G.begin(), G.end(), [](const grid_t& g) { return jstr(g.name); }));
    r.axis("scales", jstr("linear, log10"));
    r.axis("max_evals", jarr_num(evals));
    r.axis("tuners", jarr_str(tuners));
    r.axis("value_alphabet", jstr("three answers for every grid point the tuner queries (lazy: unqueried cells are not branched on), "
                                   "from each of the alphabets {0,1,2} (all grids), {0,1e-17,2e-17} and {1,1+eps,1+2eps} (grids of at most 9 cells)"));

    // configurations are dealt out to the shards, heaviest first so that they spread
    std::vector<config_t> configs;
    for (size_t gi = G.size(); gi-- > 0;)
    {
        for (const auto& t : tuners)
        {
            for (int scale = 0; scale < 2; ++scale)
            {
                for (const auto me : evals)
                {
                    for (int alphabet = 0; alphabet < 3; ++alphabet)
                    {
                        // the near-tie alphabets are run on the grids of at most 9 cells (3^9 landscapes each)
                        int cells = 1;
                        for (const auto sz : G[gi].sizes)
                        {
                            cells *= sz;
                        }
                        if (alphabet > 0 && cells > 9)
                        {
                            continue;
                        }
                        config_t c = k;
                        c.tuner = t, c.grid = static_cast<int>(gi), c.scale = scale, c.max_evals = me, c.alphabet = alphabet;
                        configs.push_back(c);
                    }
                }
            }
        }
    }
    std::stable_sort(configs.begin(), configs.end(),
                     [&](const config_t& a, const config_t& b)
                     {
                         const auto cells = [&](const config_t& c)
                         {
                             int n = 1;
                             for (const auto s : G[static_cast<size_t>(c.grid)].sizes)
                             {
                                 n *= s;
                             }
                             return n * (c.tuner == "surrogate" ? 3 : 1);
                         };
                         return cells(a) > cells(b);
                     });

    for (size_t ci = 0; ci < configs.size(); ++ci)
    {
        if (!args.mine(ci))
        {
            continue;
        }
        k = configs[ci];
        if (stage == "landscape")
        {
            uint64_t   ties = 0;
            const auto st   = mc::explore(
                [&](mc::chooser_t& ch)
                {
                    run_t run;
                    execute(k, ch, run);
                    const auto v = judge(k, run);
                    if (!v.empty())
                    {
                        r.violation(v, k.str() + "|" + vec_str(ch.choices()),
                                    jobj({{"config", jstr(k.str())}, {"grid", jstr(G[static_cast<size_t>(k.grid)].name)},
                                          {"answers", jarr_num(run.answers)}, {"what", jstr(run.what)}}));
                    }
                    // non-trivial: the landscape has a tie for the minimum (the sort/first-is-minimum clauses are exercised)
                    int    nmin = 0;
                    double minv = std::numeric_limits<double>::max();
                    for (const auto a : run.answers)
                    {
                        minv = std::min(minv, a);
                    }
                    for (const auto a : run.answers)
                    {
                        nmin += a == minv ? 1 : 0;
                    }
                    ties += nmin > 1 ? 1 : 0;
                    r.outcome("evaluated " + std::to_string(run.evaluated.size()) + " points");
                },
                [&](const mc::chooser_t&) { return r.violation_count() < 20 && !r.out_of_time(); }, -1);
            r.evaluations += st.executions;
            r.traces += st.executions;
            r.transitions += st.choice_points;
            r.states += st.executions; // every leaf is a distinct landscape-as-seen-by-the-tuner
            r.nontrivial += ties;
            if (!st.complete)
            {
                r.cap("stopped early in " + k.str());
            }
            r.sample(jobj({{"config", jstr(k.str())}, {"grid", jstr(G[static_cast<size_t>(k.grid)].name)},
                           {"landscapes", jint(st.executions)}, {"max_cells_queried", jint(st.max_choices)}}));
        }
        else if (stage == "nonfinite")
        {
            // landscape: value = (sum of grid indices) mod 3 via default/alternating answers is not needed: answers are
            // all default (0) except the poisoned evaluation; every position and every kind
            for (int kind = 0; kind < 3; ++kind)
            {
                for (int at = 0; at < k.max_evals + 27; ++at)
                {
                    run_t            run;
                    std::vector<int> none;
                    mc::chooser_t    ch(none);
                    execute(k, ch, run, at, poison_value(kind));
                    r.evaluations += 1;
                    if (static_cast<int>(run.evaluated.size()) <= at)
                    {
                        break; // the tuner never made that many evaluations
                    }
                    ++r.nontrivial;
                    r.outcome(run.thrown ? "rejected" : "accepted");
                    if (!run.thrown)
                    {
                        r.violation("tuner:nonfinite-accepted",
                                    k.str() + ":" + std::to_string(at) + ":" + std::to_string(kind) + "|",
                                    jobj({{"config", jstr(k.str())}, {"evaluation", jint(at)}, {"kind", jint(kind)}}));
                    }
                }
            }
        }
    }
    r.assume("grids larger than the listed ones are not explored exhaustively; landscapes use three values, which is enough "
             "to produce every order/tie pattern among the <= 3^d points compared at a time but not every real-valued gap");
    return r.finish();
}
