// C19 — parameters stay inside their declared domain; clones are configuration-equal.
//
// stage "bfs" (E2): explicit-state model checking of the real nano::parameter_t, one search per parameter shape.
//   (a) mc::bfs over operation histories with deduplication by the canonical state (= the complete object state:
//       name, kind, stored value bits, domain bounds and strictness flags, enumeration names);
//   (b) every history of length 1..L over the full operation alphabet WITHOUT deduplication (does not trust the
//       canonicalisation), (c) every history of length L+1..Lc over a core sub-alphabet.
//   Every history is replayed on a fresh real parameter next to a small reference model written from the
//   property statement; the last transition of every history is judged (prefixes are histories of their own).
//   Replay: --case "<shape>:<op,op,op>" (indices into the shape's operation list).
// stage "factory" (E3): every id of the 11 factories: id, defaults inside their domains, clone equality
//   (parameters, serialisation bytes, behaviour probe), independence of clone and original, unknown names throw.
//   Replay: --case "fac:<index>".
#include "detrand.h"
#include "mc.h"
#include "verif.h"
#include <cinttypes>
#include <nano/core/stream.h>
#include <nano/parameter.h>
#include <sstream>

namespace c19
{
int stage_factory(const verif::args_t&, verif::report_t&); // harness/c19_factory.cpp
}

using namespace nano;
using namespace verif;

namespace nano
{
enum class c19_enum : uint8_t
{
    type1,
    type2,
    type3
};
enum class c19_other : uint8_t
{
    alpha,
    beta
};
template <>
inline enum_map_t<c19_enum> enum_string<c19_enum>()
{
    return {
        {c19_enum::type1, "type1"},
        {c19_enum::type2, "type2"},
        {c19_enum::type3, "type3"}
    };
}
template <>
inline enum_map_t<c19_other> enum_string<c19_other>()
{
    return {
        {c19_other::alpha, "alpha"},
        { c19_other::beta,  "beta"}
    };
}
} // namespace nano

namespace
{
const double NaN  = std::numeric_limits<double>::quiet_NaN();
const double INF  = std::numeric_limits<double>::infinity();
const double DMIN = std::numeric_limits<double>::denorm_min();

std::string bits(const double v)
{
    uint64_t u = 0;
    std::memcpy(&u, &v, sizeof(u));
    char buf[32];
    std::snprintf(buf, sizeof(buf), "%016" PRIx64, u);
    return buf;
}

enum class kind_t
{
    ENUM,
    INT,
    SCALAR,
    IPAIR,
    SPAIR,
    STRING,
    NONE
};

// ---------------------------------------------------------------------------------------------
// operations
enum class ot
{
    I64,
    I32,
    U64,
    F64,
    F32,
    PI64,
    PI32,
    PF64,
    STR,
    ENUM,
    ENUM_OTHER,
    WRITE_READ,      // member write -> member read into a fresh parameter_t, which replaces the object under test
    WRITE_READ_FREE, // the same through nano::write / nano::read
    COPY             // copy-construct, the copy replaces the object under test
};

const char* name_of(const ot t)
{
    switch (t)
    {
    case ot::I64: return "assign_int64";
    case ot::I32: return "assign_int32";
    case ot::U64: return "assign_uint64";
    case ot::F64: return "assign_double";
    case ot::F32: return "assign_float";
    case ot::PI64: return "assign_pair_int64";
    case ot::PI32: return "assign_pair_int32";
    case ot::PF64: return "assign_pair_double";
    case ot::STR: return "assign_string";
    case ot::ENUM: return "assign_enum";
    case ot::ENUM_OTHER: return "assign_other_enum";
    case ot::WRITE_READ: return "write_read";
    case ot::WRITE_READ_FREE: return "write_read_free";
    case ot::COPY: return "copy";
    }
    return "?";
}

struct op_t
{
    ot          type{ot::I64};
    int64_t     i1{0}, i2{0};
    uint64_t    u1{0};
    double      d1{0}, d2{0};
    std::string s;
    int         e{0};

    std::string label() const
    {
        switch (type)
        {
        case ot::I64:
        case ot::I32: return std::string(name_of(type)) + "(" + std::to_string(i1) + ")";
        case ot::U64: return std::string(name_of(type)) + "(" + std::to_string(u1) + ")";
        case ot::F64:
        case ot::F32: return std::string(name_of(type)) + "(" + jnum(d1) + "/" + bits(d1) + ")";
        case ot::PI64:
        case ot::PI32: return std::string(name_of(type)) + "(" + std::to_string(i1) + "," + std::to_string(i2) + ")";
        case ot::PF64: return std::string(name_of(type)) + "(" + jnum(d1) + "," + jnum(d2) + ")";
        case ot::STR: return std::string(name_of(type)) + "('" + s + "')";
        case ot::ENUM:
        case ot::ENUM_OTHER: return std::string(name_of(type)) + "(" + std::to_string(e) + ")";
        default: return name_of(type);
        }
    }
};

op_t opI64(const int64_t v)
{
    op_t o;
    o.type = ot::I64;
    o.i1   = v;
    return o;
}
op_t opU64(const uint64_t v)
{
    op_t o;
    o.type = ot::U64;
    o.u1   = v;
    return o;
}
op_t opI32(const int32_t v)
{
    op_t o;
    o.type = ot::I32;
    o.i1   = v;
    return o;
}
op_t opF64(const double v)
{
    op_t o;
    o.type = ot::F64;
    o.d1   = v;
    return o;
}
op_t opF32(const float v)
{
    op_t o;
    o.type = ot::F32;
    o.d1   = static_cast<double>(v);
    return o;
}
op_t opPI64(const int64_t a, const int64_t b)
{
    op_t o;
    o.type = ot::PI64;
    o.i1   = a;
    o.i2   = b;
    return o;
}
op_t opPI32(const int32_t a, const int32_t b)
{
    op_t o;
    o.type = ot::PI32;
    o.i1   = a;
    o.i2   = b;
    return o;
}
op_t opPF64(const double a, const double b)
{
    op_t o;
    o.type = ot::PF64;
    o.d1   = a;
    o.d2   = b;
    return o;
}
op_t opS(std::string s)
{
    op_t o;
    o.type = ot::STR;
    o.s    = std::move(s);
    return o;
}
op_t opE(const int e)
{
    op_t o;
    o.type = ot::ENUM;
    o.e    = e;
    return o;
}
op_t opT(const ot t)
{
    op_t o;
    o.type = t;
    return o;
}

// ---------------------------------------------------------------------------------------------
// reference model, written from the property statement: a value and its declared domain;
// accept iff finite and inside the domain with the declared strictness, converted to the parameter's kind.
enum class verdict
{
    ACCEPT,    // well-formed input inside the domain: must not throw, must be read back as the converted input
    REJECT,    // input outside the domain / not a value of the kind at all: must throw, value intact
    UNDEFINED, // the statement does not define the conversion: only (i) in-domain and (ii) throw => intact are judged
    KEEP       // write+read / copy: must not throw, the state must be the same
};

struct expect_t
{
    verdict     v{verdict::UNDEFINED};
    int64_t     i1{0}, i2{0};
    double      d1{0}, d2{0};
    std::string s;
    std::string why;
};

struct numtok_t
{
    enum
    {
        FULL,
        PREFIX,
        NONE,
        RANGE_OVER,
        RANGE_UNDER
    } cls{NONE};
    int64_t i{0};
    double  d{0};
};

// decimal integer literal [+-]?[0-9]+ covering the whole token
numtok_t parse_int(const std::string& s)
{
    numtok_t t;
    size_t   k   = 0;
    bool     neg = false;
    if (k < s.size() && (s[k] == '+' || s[k] == '-'))
    {
        neg = s[k] == '-';
        ++k;
    }
    const size_t d0  = k;
    __int128     acc = 0;
    bool         big = false;
    while (k < s.size() && s[k] >= '0' && s[k] <= '9')
    {
        acc = acc * 10 + (s[k] - '0');
        if (acc > (static_cast<__int128>(1) << 64))
        {
            big = true;
            acc = static_cast<__int128>(1) << 64;
        }
        ++k;
    }
    if (k == d0)
    {
        return t;
    }
    if (neg)
    {
        acc = -acc;
    }
    if (big || acc > std::numeric_limits<int64_t>::max() || acc < std::numeric_limits<int64_t>::min())
    {
        t.cls = numtok_t::RANGE_OVER;
        return t;
    }
    t.i   = static_cast<int64_t>(acc);
    t.cls = k == s.size() ? numtok_t::FULL : numtok_t::PREFIX;
    return t;
}

// floating point literal covering the whole token (C grammar, correctly rounded by strtod)
numtok_t parse_real(const std::string& s)
{
    numtok_t t;
    if (s.empty() || std::isspace(static_cast<unsigned char>(s[0])) != 0 || s.find('\0') != std::string::npos)
    {
        return t;
    }
    errno     = 0;
    char* end = nullptr;
    t.d       = std::strtod(s.c_str(), &end);
    if (end == s.c_str())
    {
        return t;
    }
    t.cls = (*end == '\0') ? numtok_t::FULL : numtok_t::PREFIX;
    if (errno == ERANGE)
    {
        t.cls = std::isinf(t.d) ? numtok_t::RANGE_OVER : numtok_t::RANGE_UNDER;
    }
    return t;
}

bool is_sep(const char c)
{
    return c == ';' || c == ',' || c == ':' || c == '|' || c == '/' || c == ' ';
}

struct ref_t
{
    kind_t                   kind{kind_t::NONE};
    double                   lo{0}, hi{0}; // bounds (small integers / [0,1]: exact in double)
    bool                     loLE{true}, valLE{true}, hiLE{true};
    std::vector<std::string> names;
    int64_t                  i1{0}, i2{0};
    double                   d1{0}, d2{0};
    std::string              s;

    template <class T>
    bool above_lo(const T v) const
    {
        return loLE ? (static_cast<long double>(lo) <= static_cast<long double>(v))
                    : (static_cast<long double>(lo) < static_cast<long double>(v));
    }
    template <class T>
    bool below_hi(const T v) const
    {
        return hiLE ? (static_cast<long double>(v) <= static_cast<long double>(hi))
                    : (static_cast<long double>(v) < static_cast<long double>(hi));
    }
    bool in1(const int64_t v) const { return above_lo(v) && below_hi(v); }
    bool in1(const double v) const { return std::isfinite(v) && above_lo(v) && below_hi(v); }
    bool in2(const int64_t a, const int64_t b) const { return above_lo(a) && (valLE ? a <= b : a < b) && below_hi(b); }
    bool in2(const double a, const double b) const
    {
        return std::isfinite(a) && std::isfinite(b) && above_lo(a) && (valLE ? a <= b : a < b) && below_hi(b);
    }
    bool has_name(const std::string& n) const { return std::find(names.begin(), names.end(), n) != names.end(); }

    static expect_t mk(const verdict v, std::string why)
    {
        expect_t e;
        e.v   = v;
        e.why = std::move(why);
        return e;
    }

    // classification of a double that is to become an integer
    static bool outside_int64(const double d) { return !std::isfinite(d) || d >= 9223372036854775808.0 || d < -9223372036854775808.0; }
    static bool int_convertible(const double d, std::string& why)
    {
        if (!std::isfinite(d) || std::fabs(d) >= 9223372036854775808.0)
        {
            why = "undefined:double-outside-int64-to-integer";
            return false;
        }
        if (d != std::trunc(d))
        {
            why = "undefined:non-integral-double-to-integer";
            return false;
        }
        return true;
    }

    expect_t single_int(const int64_t v) const
    {
        if (kind == kind_t::INT)
        {
            auto e = mk(in1(v) ? verdict::ACCEPT : verdict::REJECT, in1(v) ? "accept" : "reject:out-of-domain");
            e.i1   = v;
            return e;
        }
        if (kind == kind_t::SCALAR)
        {
            const auto d = static_cast<double>(v);
            auto       e = mk(in1(d) ? verdict::ACCEPT : verdict::REJECT, in1(d) ? "accept" : "reject:out-of-domain");
            e.d1         = d;
            return e;
        }
        return mk(verdict::UNDEFINED, "undefined:kind-mismatch");
    }
    expect_t single_real(const double v) const
    {
        if (kind == kind_t::INT)
        {
            std::string why;
            if (!int_convertible(v, why))
            {
                return outside_int64(v) ? mk(verdict::REJECT, "reject:no-int64-value-for-this-double") : mk(verdict::UNDEFINED, why);
            }
            return single_int(static_cast<int64_t>(v));
        }
        if (kind == kind_t::SCALAR)
        {
            auto e = mk(in1(v) ? verdict::ACCEPT : verdict::REJECT,
                        in1(v) ? "accept" : (std::isfinite(v) ? "reject:out-of-domain" : "reject:non-finite"));
            e.d1   = v;
            return e;
        }
        return mk(verdict::UNDEFINED, "undefined:kind-mismatch");
    }
    expect_t pair_int(const int64_t a, const int64_t b) const
    {
        if (kind == kind_t::IPAIR)
        {
            auto e = mk(in2(a, b) ? verdict::ACCEPT : verdict::REJECT, in2(a, b) ? "accept" : "reject:out-of-domain");
            e.i1   = a;
            e.i2   = b;
            return e;
        }
        if (kind == kind_t::SPAIR)
        {
            const auto x = static_cast<double>(a), y = static_cast<double>(b);
            auto       e = mk(in2(x, y) ? verdict::ACCEPT : verdict::REJECT, in2(x, y) ? "accept" : "reject:out-of-domain");
            e.d1         = x;
            e.d2         = y;
            return e;
        }
        return mk(verdict::UNDEFINED, "undefined:kind-mismatch");
    }
    expect_t pair_real(const double a, const double b) const
    {
        if (kind == kind_t::IPAIR)
        {
            std::string why;
            if (outside_int64(a) || outside_int64(b))
            {
                return mk(verdict::REJECT, "reject:no-int64-value-for-this-double");
            }
            if (!int_convertible(a, why) || !int_convertible(b, why))
            {
                return mk(verdict::UNDEFINED, why);
            }
            return pair_int(static_cast<int64_t>(a), static_cast<int64_t>(b));
        }
        if (kind == kind_t::SPAIR)
        {
            const bool fin = std::isfinite(a) && std::isfinite(b);
            auto       e   = mk(in2(a, b) ? verdict::ACCEPT : verdict::REJECT,
                                in2(a, b) ? "accept" : (fin ? "reject:out-of-domain" : "reject:non-finite"));
            e.d1           = a;
            e.d2           = b;
            return e;
        }
        return mk(verdict::UNDEFINED, "undefined:kind-mismatch");
    }
    // one numeric token for the kind: returns false when the verdict is already decided
    bool token(const std::string& tok, const bool integer, numtok_t& out, expect_t& decided) const
    {
        out = integer ? parse_int(tok) : parse_real(tok);
        switch (out.cls)
        {
        case numtok_t::NONE: decided = mk(verdict::REJECT, "reject:not-a-number"); return false;
        case numtok_t::PREFIX: decided = mk(verdict::REJECT, "reject:numeric-prefix-with-trailing-text"); return false;
        case numtok_t::RANGE_OVER: decided = mk(verdict::REJECT, "reject:literal-overflows"); return false;
        case numtok_t::RANGE_UNDER: decided = mk(verdict::UNDEFINED, "undefined:literal-underflows"); return false;
        default: return true;
        }
    }
    expect_t string(const std::string& v) const
    {
        switch (kind)
        {
        case kind_t::STRING:
        {
            auto e = mk(verdict::ACCEPT, "accept");
            e.s    = v;
            return e;
        }
        case kind_t::ENUM:
        {
            auto e = mk(has_name(v) ? verdict::ACCEPT : verdict::REJECT, has_name(v) ? "accept" : "reject:not-an-enumerator");
            e.s    = v;
            return e;
        }
        case kind_t::INT:
        case kind_t::SCALAR:
        {
            numtok_t t;
            expect_t e;
            if (!token(v, kind == kind_t::INT, t, e))
            {
                return e;
            }
            return kind == kind_t::INT ? single_int(t.i) : single_real(t.d);
        }
        case kind_t::IPAIR:
        case kind_t::SPAIR:
        {
            // pieces between separator characters
            std::vector<std::string> pieces;
            std::string              cur;
            size_t                   nsep = 0;
            for (const char c : v)
            {
                if (is_sep(c))
                {
                    ++nsep;
                    if (!cur.empty())
                    {
                        pieces.push_back(cur);
                    }
                    cur.clear();
                }
                else
                {
                    cur += c;
                }
            }
            if (!cur.empty())
            {
                pieces.push_back(cur);
            }
            if (pieces.size() < 2)
            {
                return mk(verdict::REJECT, "reject:fewer-than-two-values");
            }
            const bool integer = kind == kind_t::IPAIR;
            numtok_t   t1, t2;
            expect_t   e1, e2;
            const bool ok1 = token(pieces[0], integer, t1, e1);
            const bool ok2 = token(pieces[1], integer, t2, e2);
            if ((!ok1 && e1.v == verdict::REJECT && t1.cls == numtok_t::NONE) ||
                (!ok2 && e2.v == verdict::REJECT && t2.cls == numtok_t::NONE && pieces.size() == 2))
            {
                return mk(verdict::REJECT, "reject:not-a-number");
            }
            if (pieces.size() > 2)
            {
                return mk(verdict::REJECT, "reject:more-than-two-values-for-a-pair");
            }
            if (nsep != 1)
            {
                return mk(verdict::UNDEFINED, "undefined:pair-text-not-of-the-form-a-sep-b");
            }
            if (!ok1)
            {
                return e1;
            }
            if (!ok2)
            {
                return e2;
            }
            return integer ? pair_int(t1.i, t2.i) : pair_real(t1.d, t2.d);
        }
        default: return mk(verdict::UNDEFINED, "undefined:kind-mismatch");
        }
    }

    expect_t judge(const op_t& op) const
    {
        switch (op.type)
        {
        case ot::I64:
        case ot::I32: return single_int(op.i1);
        case ot::U64:
            // an unsigned value above INT64_MAX has no int64 (and, for real kinds, is simply a large number)
            return op.u1 > static_cast<uint64_t>(std::numeric_limits<int64_t>::max())
                     ? (kind == kind_t::INT ? mk(verdict::REJECT, "reject:unsigned-value-above-int64-max") : single_real(static_cast<double>(op.u1)))
                     : single_int(static_cast<int64_t>(op.u1));
        case ot::F64:
        case ot::F32: return single_real(op.d1);
        case ot::PI64:
        case ot::PI32: return pair_int(op.i1, op.i2);
        case ot::PF64: return pair_real(op.d1, op.d2);
        case ot::STR: return string(op.s);
        case ot::ENUM:
            if (kind == kind_t::ENUM)
            {
                static const char* const n[] = {"type1", "type2", "type3"};
                auto                     e   = mk(verdict::ACCEPT, "accept");
                e.s                          = n[op.e];
                return e;
            }
            return mk(verdict::UNDEFINED, "undefined:kind-mismatch");
        case ot::ENUM_OTHER:
            if (kind == kind_t::ENUM)
            {
                return mk(verdict::REJECT, "reject:not-an-enumerator");
            }
            return mk(verdict::UNDEFINED, "undefined:kind-mismatch");
        default: return mk(verdict::KEEP, "roundtrip");
        }
    }
    void commit(const expect_t& e)
    {
        i1 = e.i1;
        i2 = e.i2;
        d1 = e.d1;
        d2 = e.d2;
        s  = e.s;
    }
};

// ---------------------------------------------------------------------------------------------
// the state of the real parameter, read from storage()
struct snap_t
{
    kind_t                   kind{kind_t::NONE};
    std::string              name;
    int64_t                  i1{0}, i2{0};
    double                   d1{0}, d2{0};
    std::string              s;
    double                   lo{0}, hi{0};
    bool                     loLE{true}, valLE{true}, hiLE{true};
    std::vector<std::string> names;
    std::string              canon;
};

snap_t snapshot(const parameter_t& p)
{
    snap_t      z;
    const auto& st = p.storage();
    z.name         = p.name();
    const auto le  = [](const LEorLT& c) { return std::holds_alternative<LE_t>(c); };
    std::string v;
    if (const auto* e = std::get_if<parameter_t::enum_t>(&st))
    {
        z.kind  = kind_t::ENUM;
        z.s     = e->m_value;
        z.names = e->m_domain;
        v       = "E|" + e->m_value + "|";
        for (const auto& n : e->m_domain)
        {
            v += n + ",";
        }
    }
    else if (const auto* i = std::get_if<parameter_t::irange_t>(&st))
    {
        z.kind = kind_t::INT;
        z.i1   = i->m_value;
        z.lo   = static_cast<double>(i->m_min);
        z.hi   = static_cast<double>(i->m_max);
        z.loLE = le(i->m_mincomp);
        z.hiLE = le(i->m_maxcomp);
        v      = "I|" + std::to_string(i->m_value) + "|" + std::to_string(i->m_min) + (z.loLE ? "<=" : "<") +
            (z.hiLE ? "<=" : "<") + std::to_string(i->m_max);
    }
    else if (const auto* f = std::get_if<parameter_t::frange_t>(&st))
    {
        z.kind = kind_t::SCALAR;
        z.d1   = f->m_value;
        z.lo   = f->m_min;
        z.hi   = f->m_max;
        z.loLE = le(f->m_mincomp);
        z.hiLE = le(f->m_maxcomp);
        v      = "F|" + bits(f->m_value) + "|" + bits(f->m_min) + (z.loLE ? "<=" : "<") + (z.hiLE ? "<=" : "<") +
            bits(f->m_max);
    }
    else if (const auto* ip = std::get_if<parameter_t::iprange_t>(&st))
    {
        z.kind  = kind_t::IPAIR;
        z.i1    = ip->m_value1;
        z.i2    = ip->m_value2;
        z.lo    = static_cast<double>(ip->m_min);
        z.hi    = static_cast<double>(ip->m_max);
        z.loLE  = le(ip->m_mincomp);
        z.valLE = le(ip->m_valcomp);
        z.hiLE  = le(ip->m_maxcomp);
        v       = "IP|" + std::to_string(ip->m_value1) + "," + std::to_string(ip->m_value2) + "|" +
            std::to_string(ip->m_min) + (z.loLE ? "<=" : "<") + (z.valLE ? "<=" : "<") + (z.hiLE ? "<=" : "<") +
            std::to_string(ip->m_max);
    }
    else if (const auto* fp = std::get_if<parameter_t::fprange_t>(&st))
    {
        z.kind  = kind_t::SPAIR;
        z.d1    = fp->m_value1;
        z.d2    = fp->m_value2;
        z.lo    = fp->m_min;
        z.hi    = fp->m_max;
        z.loLE  = le(fp->m_mincomp);
        z.valLE = le(fp->m_valcomp);
        z.hiLE  = le(fp->m_maxcomp);
        v       = "FP|" + bits(fp->m_value1) + "," + bits(fp->m_value2) + "|" + bits(fp->m_min) + (z.loLE ? "<=" : "<") +
            (z.valLE ? "<=" : "<") + (z.hiLE ? "<=" : "<") + bits(fp->m_max);
    }
    else if (const auto* s = std::get_if<string_t>(&st))
    {
        z.kind = kind_t::STRING;
        z.s    = *s;
        v      = "S|" + *s;
    }
    else
    {
        v = "N/A";
    }
    z.canon = z.name + "#" + v;
    return z;
}

// (i): kind and domain as declared, stored value inside the domain (the membership test is the reference's)
std::string domain_clause(const ref_t& ref, const snap_t& z)
{
    if (z.kind != ref.kind)
    {
        return "kind-changed";
    }
    if (z.name != "p")
    {
        return "name-changed";
    }
    switch (z.kind)
    {
    case kind_t::ENUM: return z.names != ref.names ? "domain-changed" : (ref.has_name(z.s) ? "" : "stored-value-outside-domain");
    case kind_t::STRING: return "";
    default: break;
    }
    if (z.lo != ref.lo || z.hi != ref.hi || z.loLE != ref.loLE || z.hiLE != ref.hiLE ||
        ((z.kind == kind_t::IPAIR || z.kind == kind_t::SPAIR) && z.valLE != ref.valLE))
    {
        return "domain-changed";
    }
    bool in = false;
    switch (z.kind)
    {
    case kind_t::INT: in = ref.in1(z.i1); break;
    case kind_t::SCALAR: in = ref.in1(z.d1); break;
    case kind_t::IPAIR: in = ref.in2(z.i1, z.i2); break;
    default: in = ref.in2(z.d1, z.d2); break;
    }
    return in ? "" : "stored-value-outside-domain";
}

bool value_equals(const snap_t& z, const expect_t& e)
{
    switch (z.kind)
    {
    case kind_t::INT: return z.i1 == e.i1;
    case kind_t::SCALAR: return z.d1 == e.d1;
    case kind_t::IPAIR: return z.i1 == e.i1 && z.i2 == e.i2;
    case kind_t::SPAIR: return z.d1 == e.d1 && z.d2 == e.d2;
    default: return z.s == e.s;
    }
}

// the judgement of one transition: "" or the violated clause
std::string judge_step(const ref_t& ref, const expect_t& e, const snap_t& before, const snap_t& after, const bool threw)
{
    if (const auto c = domain_clause(ref, after); !c.empty())
    {
        return "i:" + c; // (i)
    }
    if (threw && after.canon != before.canon)
    {
        return "ii:threw-but-state-changed"; // (ii)
    }
    switch (e.v)
    {
    case verdict::ACCEPT:
        if (threw)
        {
            return "iii:in-domain-value-rejected";
        }
        if (!value_equals(after, e))
        {
            return "iii:accepted-value-not-read-back";
        }
        break;
    case verdict::REJECT:
        if (!threw)
        {
            return "iii:out-of-domain-value-accepted";
        }
        break;
    case verdict::KEEP:
        if (threw)
        {
            return "v:roundtrip-threw";
        }
        if (after.canon != before.canon)
        {
            return "v:roundtrip-changed-state";
        }
        break;
    default: break;
    }
    return "";
}

// ---------------------------------------------------------------------------------------------
struct shape_t
{
    std::string              name;
    ref_t                    ref; // initial reference state (declared domain + initial value)
    std::function<parameter_t()> make;
    std::vector<op_t>        ops;
    std::vector<int>         core; // sub-alphabet for the deep histories
};

void add_common_tail(std::vector<op_t>& ops)
{
    ops.push_back(opE(1));
    ops.push_back(opT(ot::ENUM_OTHER));
    ops.push_back(opT(ot::WRITE_READ));
    ops.push_back(opT(ot::WRITE_READ_FREE));
    ops.push_back(opT(ot::COPY));
}

int find_op(const std::vector<op_t>& ops, const std::string& label)
{
    for (size_t i = 0; i < ops.size(); ++i)
    {
        if (ops[i].label() == label)
        {
            return static_cast<int>(i);
        }
    }
    std::fprintf(stderr, "core operation %s is not in the alphabet\n", label.c_str());
    std::exit(2);
}

std::vector<shape_t> make_shapes()
{
    std::vector<shape_t> shapes;
    const auto           names3 = std::vector<std::string>{"type1", "type2", "type3"};
    const auto           core_of = [](shape_t& s, std::initializer_list<op_t> sel)
    {
        for (const auto& o : sel)
        {
            s.core.push_back(find_op(s.ops, o.label()));
        }
    };
    {
        shape_t s;
        s.name      = "enum3";
        s.ref.kind  = kind_t::ENUM;
        s.ref.names = names3;
        s.ref.s     = "type1";
        s.make      = [] { return parameter_t::make_enum("p", c19_enum::type1); };
        s.ops       = {opE(0), opE(1), opE(2), opS("type1"), opS("type2"), opS("type3"), opS("typeX"), opS(""), opS("abc"),
                       opS("5"), opS("0.5"), opS("1e-1"), opS("5,7"), opS("7;5"), opS("nan"), opS("Type1"), opS("type"),
                       opS("type1 "), opS("type1,type2"), opS("alpha"), opI64(0), opI64(1), opI32(2), opF64(0.0), opF64(NaN),
                       opPI64(0, 1), opPF64(0.0, 1.0), opT(ot::ENUM_OTHER), opT(ot::WRITE_READ), opT(ot::WRITE_READ_FREE),
                       opT(ot::COPY)};
        core_of(s, {opE(0), opE(2), opS("type2"), opS("typeX"), opS(""), opS("type"), opI64(1), opT(ot::ENUM_OTHER),
                    opT(ot::WRITE_READ), opT(ot::COPY)});
        shapes.push_back(s);
    }
    for (const bool strict : {false, true})
    {
        shape_t s;
        s.name     = strict ? "int_1_lt_v_lt_10" : "int_1_le_v_le_10";
        s.ref.kind = kind_t::INT;
        s.ref.lo   = 1;
        s.ref.hi   = 10;
        s.ref.loLE = s.ref.hiLE = !strict;
        s.ref.i1                = 5;
        s.make                  = [strict]
        { return strict ? parameter_t::make_integer("p", 1, LT, 5, LT, 10) : parameter_t::make_integer("p", 1, LE, 5, LE, 10); };
        s.ops = {opI64(0), opI64(1), opI64(2), opI64(5), opI64(9), opI64(10), opI64(11), opI64(std::numeric_limits<int64_t>::min()),
                 opI64(std::numeric_limits<int64_t>::max()), opI32(0), opI32(10),
                 opF64(0.0), opF64(1.0), opF64(2.0), opF64(9.0), opF64(10.0), opF64(11.0), opF64(-0.0),
                 opF64(2.5), opF64(0.5), opF64(10.5), opF64(std::nextafter(1.0, 0.0)), opF64(std::nextafter(10.0, 11.0)),
                 // non-integral values strictly inside the real interval that truncate onto a bound
                 opF64(1.5), opF64(std::nextafter(1.0, 2.0)), opF64(9.5), opF64(std::nextafter(10.0, 0.0)),
                 opF64(NaN), opF64(INF), opF64(-INF), opF64(1e300), opF32(3.0F),
                 opPI64(1, 2), opPI32(1, 2), opPF64(1.0, 2.0),
                 opS("5"), opS("1"), opS("10"), opS("0"), opS("11"), opS("-3"), opS("0.5"), opS("1e-1"), opS("5,7"), opS("7;5"),
                 opS(""), opS("abc"), opS("nan"), opS("3abc"), opS("type2"), opS("99999999999999999999")};
        add_common_tail(s.ops);
        core_of(s, {opI64(0), opI64(1), opI64(9), opI64(10), opI64(11), opF64(2.0), opF64(10.0), opF64(NaN), opF64(2.5),
                    opS("5"), opS("0"), opS("abc"), opS(""), opPI64(1, 2), opT(ot::WRITE_READ), opT(ot::COPY)});
        shapes.push_back(s);
    }
    for (const bool upper_closed : {true, false})
    {
        shape_t s;
        s.name     = upper_closed ? "scalar_0_lt_v_le_1" : "scalar_0_le_v_lt_1";
        s.ref.kind = kind_t::SCALAR;
        s.ref.lo   = 0;
        s.ref.hi   = 1;
        s.ref.loLE = !upper_closed;
        s.ref.hiLE = upper_closed;
        s.ref.d1   = 0.5;
        s.make     = [upper_closed]
        {
            return upper_closed ? parameter_t::make_scalar("p", 0, LT, 0.5, LE, 1) : parameter_t::make_scalar("p", 0, LE, 0.5, LT, 1);
        };
        s.ops = {opI64(-1), opI64(0), opI64(1), opI64(2), opI32(0), opI32(1),
                 opF64(-1.0), opF64(-0.0), opF64(0.0), opF64(DMIN), opF64(-DMIN), opF64(0.1), opF64(0.5),
                 opF64(std::nextafter(1.0, 0.0)), opF64(1.0), opF64(std::nextafter(1.0, 2.0)), opF64(2.5), opF64(NaN), opF64(INF),
                 opF64(-INF), opF64(1e300), opF64(1e-300), opF32(0.25F), opF32(1.0F), opF32(0.1F),
                 opPI64(0, 1), opPI32(0, 1), opPF64(0.25, 0.75),
                 opS("5"), opS("0.5"), opS("1e-1"), opS("1"), opS("0"), opS("1.0"), opS("-0.0"), opS("5,7"), opS("7;5"), opS(""),
                 opS("abc"), opS("nan"), opS("inf"), opS("-inf"), opS("3abc"), opS("0.5x"), opS("type2"), opS("typeX"),
                 opS("1e999"), opS("1e-999"), opS("0.99999999999999999999")};
        add_common_tail(s.ops);
        core_of(s, {opI64(1), opF64(0.0), opF64(DMIN), opF64(0.1), opF64(std::nextafter(1.0, 0.0)), opF64(1.0),
                    opF64(std::nextafter(1.0, 2.0)), opF64(NaN), opF64(INF), opS("0.5"), opS("1e-1"), opS("abc"),
                    opT(ot::WRITE_READ), opT(ot::COPY)});
        shapes.push_back(s);
    }
    for (const bool first : {true, false})
    {
        // 0 <= a < b <= 10   and   0 < a <= b < 10
        shape_t s;
        s.name      = first ? "ipair_0_le_a_lt_b_le_10" : "ipair_0_lt_a_le_b_lt_10";
        s.ref.kind  = kind_t::IPAIR;
        s.ref.lo    = 0;
        s.ref.hi    = 10;
        s.ref.loLE  = first;
        s.ref.valLE = !first;
        s.ref.hiLE  = first;
        s.ref.i1    = 3;
        s.ref.i2    = 7;
        s.make      = [first]
        {
            return first ? parameter_t::make_integer_pair("p", 0, LE, 3, LT, 7, LE, 10)
                         : parameter_t::make_integer_pair("p", 0, LT, 3, LE, 7, LT, 10);
        };
        for (const int64_t a : {0, 1, 9, 10})
        {
            for (const int64_t b : {0, 1, 9, 10})
            {
                s.ops.push_back(opPI64(a, b));
            }
        }
        for (const auto& o : {opPI64(-1, 5), opPI64(5, 11), opPI64(5, 5), opPI64(7, 3),
                              opPI32(1, 9), opPI32(0, 10), opPI32(4, 4),
                              opPF64(1.0, 9.0), opPF64(0.0, 10.0), opPF64(6.0, 6.0), opPF64(1.5, 9.5),
                              // non-integral components that truncate onto a bound / onto each other
                              opPF64(0.5, 9.5), opPF64(2.0, 2.5), opPF64(2.5, 2.75), opPF64(std::nextafter(0.0, 1.0), 5.0),
                              opPF64(5.0, std::nextafter(10.0, 0.0)),
                              opPF64(NaN, 5.0), opPF64(1.0, INF),
                              opI64(5), opF64(5.0),
                              opS("5,7"), opS("7;5"), opS("5"), opS("0.5"), opS(""), opS("abc"),
                              opS("1,9"), opS("0,10"), opS("0:0"), opS("5|5"), opS("1 9"), opS("1,2,3"), opS("5,"),
                              opS(",5"), opS("3abc,7"), opS("abc,7"), opS("0.5,7"), opS("5,,7"), opS("type2"),
                              opS("nan,7"), opS("1,99999999999999999999")})
        {
            s.ops.push_back(o);
        }
        add_common_tail(s.ops);
        core_of(s, {opPI64(0, 1), opPI64(1, 9), opPI64(9, 1), opPI64(9, 9), opPI64(0, 10), opPI64(-1, 5), opPI64(5, 11),
                    opPF64(6.0, 6.0), opPF64(NaN, 5.0), opS("5,7"), opS("7;5"), opS("5"), opS("abc"), opI64(5), opT(ot::WRITE_READ),
                    opT(ot::COPY)});
        shapes.push_back(s);
    }
    {
        shape_t s;
        s.name      = "spair_0_lt_a_lt_b_lt_1";
        s.ref.kind  = kind_t::SPAIR;
        s.ref.lo    = 0;
        s.ref.hi    = 1;
        s.ref.loLE = s.ref.valLE = s.ref.hiLE = false;
        s.ref.d1                              = 0.25;
        s.ref.d2                              = 0.75;
        s.make = [] { return parameter_t::make_scalar_pair("p", 0, LT, 0.25, LT, 0.75, LT, 1); };
        for (const double a : {0.0, 0.25, 0.75, 1.0})
        {
            for (const double b : {0.0, 0.25, 0.75, 1.0})
            {
                s.ops.push_back(opPF64(a, b));
            }
        }
        const double below1 = std::nextafter(1.0, 0.0);
        for (const auto& o : {opPF64(DMIN, below1), opPF64(0.5, std::nextafter(0.5, 1.0)), opPF64(0.5, 0.5),
                              opPF64(-0.0, 0.5), opPF64(0.25, NaN), opPF64(NaN, 0.75), opPF64(-INF, 0.5), opPF64(0.5, INF),
                              opPF64(0.1, 0.9), opPI64(0, 1), opPI64(1, 0), opPI32(0, 1),
                              opI64(0), opF64(0.5),
                              opS("0.25,0.75"), opS("0.75;0.25"), opS("0.5"), opS("5,7"), opS("7;5"), opS(""), opS("abc"), opS("nan"),
                              opS("0.1,nan"), opS("nan,0.9"), opS("1e-1,0.5"), opS("0,1"), opS("0.5,0.5"), opS("0.25 0.5"),
                              opS("0.1,0.2,0.3"), opS("0.1x,0.5"), opS("abc,0.5"), opS("type2"),
                              opS("0.1|inf"), opS("1e-999,0.5")})
        {
            s.ops.push_back(o);
        }
        add_common_tail(s.ops);
        core_of(s, {opPF64(0.25, 0.75), opPF64(0.75, 0.25), opPF64(0.25, 0.25), opPF64(0.0, 0.75), opPF64(0.25, 1.0),
                    opPF64(DMIN, below1), opPF64(0.25, NaN), opPF64(0.5, INF), opPI64(0, 1), opS("1e-1,0.5"), opS("0.75;0.25"),
                    opS("0.5"), opS("abc"), opF64(0.5), opT(ot::WRITE_READ), opT(ot::COPY)});
        shapes.push_back(s);
    }
    {
        shape_t s;
        s.name     = "string";
        s.ref.kind = kind_t::STRING;
        s.ref.s    = "init";
        s.make     = [] { return parameter_t::make_string("p", "init"); };
        s.ops      = {opS("5"), opS("0.5"), opS("1e-1"), opS("5,7"), opS("7;5"), opS(""), opS("abc"), opS("nan"), opS("type2"),
                      opS("typeX"), opS("init"), opS(std::string("a\0b\n\t", 5)), opS(std::string(300, 'x')),
                      opI64(1), opI32(1), opF64(0.5), opF64(NaN), opPI64(1, 2), opPF64(0.25, 0.75)};
        add_common_tail(s.ops);
        core_of(s, {opS("5"), opS(""), opS("abc"), opS("init"), opS(std::string("a\0b\n\t", 5)), opI64(1), opF64(0.5),
                    opPI64(1, 2), opE(1), opT(ot::WRITE_READ), opT(ot::COPY)});
        shapes.push_back(s);
    }
    // an integer parameter whose domain reaches beyond 2^53: int64 values there are not representable as doubles, so any
    // detour of an integer assignment through a floating point type changes what is stored or what is accepted
    for (const bool strict : {false, true})
    {
        constexpr int64_t P53 = int64_t{1} << 53;
        constexpr int64_t P62 = int64_t{1} << 62;
        shape_t           s;
        s.name     = strict ? "int_0_le_v_lt_2p62" : "int_0_le_v_le_2p62";
        s.ref.kind = kind_t::INT;
        s.ref.lo   = 0;
        s.ref.hi   = static_cast<double>(P62); // exact
        s.ref.loLE = true;
        s.ref.hiLE = !strict;
        s.ref.i1   = 5;
        s.make     = [strict]
        { return strict ? parameter_t::make_integer("p", 0, LE, 5, LT, P62) : parameter_t::make_integer("p", 0, LE, 5, LE, P62); };
        s.ops = {opI64(0), opI64(5), opI64(-1), opI64(P53), opI64(P53 + 1), opI64(P53 - 1), opI64(1234567890123456789LL),
                 opI64(P62 - 1), opI64(P62), opI64(P62 + 1), opI64(std::numeric_limits<int64_t>::max()),
                 opI64(std::numeric_limits<int64_t>::min()), opI32(7), opF64(2.0), opF64(NaN), opF64(-1.0),
                 opS("5"), opS("9007199254740993"), opS("4611686018427387903"), opS("4611686018427387905"), opS("abc"), opS("")};
        add_common_tail(s.ops);
        core_of(s, {opI64(0), opI64(P53 + 1), opI64(P62 - 1), opI64(P62), opI64(P62 + 1), opI64(1234567890123456789LL), opF64(2.0),
                    opS("9007199254740993"), opS("abc"), opT(ot::WRITE_READ), opT(ot::COPY)});
        shapes.push_back(s);
    }
    // an integer parameter over the whole int64 range: nothing is out of the declared domain, so only values that have no
    // int64 at all (NaN, infinities, |x| >= 2^63, unsigned values above INT64_MAX) can and must be rejected
    {
        constexpr int64_t IMIN = std::numeric_limits<int64_t>::min(), IMAX = std::numeric_limits<int64_t>::max();
        shape_t           s;
        s.name     = "int_full_int64_range";
        s.ref.kind = kind_t::INT;
        s.ref.lo   = static_cast<double>(IMIN); // exact
        s.ref.hi   = static_cast<double>(IMAX); // rounds to 2^63: every int64 satisfies v <= hi
        s.ref.loLE = true;
        s.ref.hiLE = true;
        s.ref.i1   = 0;
        s.make     = [] { return parameter_t::make_integer("p", IMIN, LE, 0, LE, IMAX); };
        s.ops = {opI64(0), opI64(7), opI64(IMIN), opI64(IMAX), opF64(NaN), opF64(INF), opF64(-INF), opF64(1e300), opF64(-1e300),
                 opF64(9223372036854775808.0), opF64(-9223372036854775808.0), opF64(3.0), opU64(5), opU64(18446744073709551611ULL),
                 opU64(9223372036854775808ULL), opS("12"), opS("12abc"), opS("1e3"), opS("abc")};
        add_common_tail(s.ops);
        core_of(s, {opI64(7), opF64(NaN), opF64(INF), opF64(1e300), opF64(9223372036854775808.0), opU64(18446744073709551611ULL),
                    opS("12abc"), opS("1e3"), opT(ot::COPY)});
        shapes.push_back(s);
    }
    return shapes;
}

// ---------------------------------------------------------------------------------------------
// execution of one operation on the real object (held by pointer so that write+read / copy can replace it)
bool exec(std::unique_ptr<parameter_t>& p, const op_t& op, std::string& what)
{
    try
    {
        switch (op.type)
        {
        case ot::I64: *p = op.i1; break;
        case ot::I32: *p = static_cast<int32_t>(op.i1); break;
        case ot::U64: *p = op.u1; break;
        case ot::F64: *p = op.d1; break;
        case ot::F32: *p = static_cast<float>(op.d1); break;
        case ot::PI64: *p = std::make_tuple(op.i1, op.i2); break;
        case ot::PI32: *p = std::make_tuple(static_cast<int32_t>(op.i1), static_cast<int32_t>(op.i2)); break;
        case ot::PF64: *p = std::make_tuple(op.d1, op.d2); break;
        case ot::STR: *p = op.s; break;
        case ot::ENUM: *p = static_cast<c19_enum>(op.e); break;
        case ot::ENUM_OTHER: *p = c19_other::alpha; break;
        case ot::WRITE_READ:
        case ot::WRITE_READ_FREE:
        {
            std::ostringstream os;
            if (op.type == ot::WRITE_READ)
            {
                p->write(os);
            }
            else
            {
                ::nano::write(os, *p);
            }
            const auto         text = os.str();
            std::istringstream is(text);
            auto               q = std::make_unique<parameter_t>();
            if (op.type == ot::WRITE_READ)
            {
                q->read(is);
            }
            else
            {
                ::nano::read(is, *q);
            }
            if (!is || static_cast<size_t>(is.tellg()) != text.size())
            {
                what = "stream not consumed exactly";
                return true;
            }
            if (!(*q == *p) || !(*p == *q) || (*q != *p))
            {
                what = "deserialised parameter is not == the written one";
                return true;
            }
            p = std::move(q);
        }
        break;
        case ot::COPY:
        {
            auto q = std::make_unique<parameter_t>(*p);
            if (!(*q == *p))
            {
                what = "copy is not == the original";
                return true;
            }
            p = std::move(q);
        }
        break;
        }
    }
    catch (const std::exception& e)
    {
        what = e.what();
        return true;
    }
    return false;
}

template <class F>
bool throws(const F& f)
{
    try
    {
        f();
    }
    catch (const std::exception&)
    {
        return true;
    }
    return false;
}

// (iii) through the public readers + (iv) type-mismatched reads throw; "" or the clause
std::string reads_clause(const parameter_t& p, const snap_t& z)
{
    const bool num  = z.kind == kind_t::INT || z.kind == kind_t::SCALAR;
    const bool pair = z.kind == kind_t::IPAIR || z.kind == kind_t::SPAIR;
    try
    {
        switch (z.kind)
        {
        case kind_t::INT:
            if (p.value<int64_t>() != z.i1 || p.value<scalar_t>() != static_cast<double>(z.i1) ||
                p.value<int32_t>() != static_cast<int32_t>(z.i1))
            {
                return "iii:value()-differs-from-stored";
            }
            break;
        case kind_t::SCALAR:
            if (bits(p.value<scalar_t>()) != bits(z.d1))
            {
                return "iii:value()-differs-from-stored";
            }
            break;
        case kind_t::IPAIR:
            if (p.value_pair<int64_t>() != std::make_tuple(z.i1, z.i2) ||
                p.value_pair<scalar_t>() != std::make_tuple(static_cast<double>(z.i1), static_cast<double>(z.i2)))
            {
                return "iii:value_pair()-differs-from-stored";
            }
            break;
        case kind_t::SPAIR:
        {
            const auto [a, b] = p.value_pair<scalar_t>();
            if (bits(a) != bits(z.d1) || bits(b) != bits(z.d2))
            {
                return "iii:value_pair()-differs-from-stored";
            }
        }
        break;
        case kind_t::STRING:
            if (p.value<string_t>() != z.s)
            {
                return "iii:value()-differs-from-stored";
            }
            break;
        case kind_t::ENUM:
        {
            static const char* const n[] = {"type1", "type2", "type3"};
            if (n[static_cast<int>(p.value<c19_enum>())] != z.s)
            {
                return "iii:value()-differs-from-stored";
            }
        }
        break;
        default: break;
        }
    }
    catch (const std::exception&)
    {
        return "iii:matching-read-threw";
    }
    if (!num && (!throws([&] { (void)p.value<int64_t>(); }) || !throws([&] { (void)p.value<scalar_t>(); })))
    {
        return "iv:numeric-read-of-non-numeric-did-not-throw";
    }
    if (!pair && (!throws([&] { (void)p.value_pair<int64_t>(); }) || !throws([&] { (void)p.value_pair<scalar_t>(); })))
    {
        return "iv:pair-read-of-non-pair-did-not-throw";
    }
    if (z.kind != kind_t::STRING && !throws([&] { (void)p.value<string_t>(); }))
    {
        return "iv:string-read-of-non-string-did-not-throw";
    }
    if (z.kind != kind_t::ENUM && !throws([&] { (void)p.value<c19_enum>(); }))
    {
        return "iv:enum-read-of-non-enum-did-not-throw";
    }
    if (z.kind == kind_t::ENUM && !throws([&] { (void)p.value<c19_other>(); }))
    {
        return "iv:read-as-unrelated-enum-did-not-throw";
    }
    return "";
}

// (v) non-mutating: the serialised form deserialises to an == parameter with the same canonical state
std::string roundtrip_clause(const parameter_t& p, const snap_t& z)
{
    try
    {
        std::ostringstream os;
        p.write(os);
        std::istringstream is(os.str());
        parameter_t        q;
        q.read(is);
        if (!(q == p) || q != p)
        {
            return "v:write-read-not-equal";
        }
        if (snapshot(q).canon != z.canon)
        {
            return "v:write-read-state-differs";
        }
    }
    catch (const std::exception&)
    {
        return "v:write-read-threw";
    }
    return "";
}

std::string hist_str(const std::vector<int>& h)
{
    std::string o;
    for (size_t i = 0; i < h.size(); ++i)
    {
        o += (i ? "," : "") + std::to_string(h[i]);
    }
    return o;
}

struct run_stats_t
{
    uint64_t judged = 0;
};

// replay a history on a fresh real parameter next to the reference; judge the LAST transition.
// returns the canonical state ("" when a prefix already deviates: that prefix is a history of its own)
std::string run_history(const shape_t& sh, const std::vector<int>& hist, report_t& r, const bool full_checks)
{
    auto  p   = std::make_unique<parameter_t>(sh.make());
    auto  ref = sh.ref;
    auto  cur = snapshot(*p);
    bool  had_accept = false, had_reject = false;
    const auto one = sh.name + ":" + hist_str(hist);

    if (hist.empty())
    {
        expect_t e0;
        e0.v  = verdict::ACCEPT;
        e0.i1 = ref.i1;
        e0.i2 = ref.i2;
        e0.d1 = ref.d1;
        e0.d2 = ref.d2;
        e0.s  = ref.s;
        auto c = judge_step(ref, e0, cur, cur, false);
        if (c.empty())
        {
            c = reads_clause(*p, cur);
        }
        if (c.empty())
        {
            c = roundtrip_clause(*p, cur);
        }
        if (!c.empty())
        {
            r.violation("bfs:" + sh.name + ":initial:" + c, one, jobj({{"state", jstr(cur.canon)}}));
        }
        return cur.canon;
    }

    for (size_t k = 0; k < hist.size(); ++k)
    {
        const auto& op   = sh.ops[static_cast<size_t>(hist[k])];
        const bool  last = k + 1 == hist.size();
        const auto  e    = ref.judge(op);
        std::string what;
        const bool  threw = exec(p, op, what);
        const auto  after = snapshot(*p);
        auto        c     = judge_step(ref, e, cur, after, threw);
        if (c.empty() && last && full_checks)
        {
            c = reads_clause(*p, after);
            if (c.empty())
            {
                c = roundtrip_clause(*p, after);
            }
        }
        if (!c.empty())
        {
            if (!last)
            {
                r.outcome("prefix-deviates(reported-at-the-prefix)");
                return "";
            }
            r.violation("bfs:" + sh.name + ":" + c + ":" + name_of(op.type), one,
                        jobj({{"shape", jstr(sh.name)},
                              {"history", jarr(hist.begin(), hist.end(),
                                               [&](const int i) { return jstr(sh.ops[static_cast<size_t>(i)].label()); })},
                              {"last_operation", jstr(op.label())},
                              {"reference_verdict", jstr(e.why)},
                              {"threw", threw ? "true" : "false"},
                              {"exception", jstr(what)},
                              {"state_before", jstr(cur.canon)},
                              {"state_after", jstr(after.canon)}}));
            return "";
        }
        // the reference follows
        if (!threw)
        {
            if (e.v == verdict::ACCEPT)
            {
                ref.commit(e);
                had_accept = had_accept || after.canon != cur.canon;
            }
            else if (e.v == verdict::UNDEFINED)
            {
                // conversion not defined by the statement: adopt what the implementation stored (it is inside the domain)
                ref.i1 = after.i1;
                ref.i2 = after.i2;
                ref.d1 = after.d1;
                ref.d2 = after.d2;
                ref.s  = after.s;
            }
        }
        else
        {
            had_reject = had_reject || e.v == verdict::REJECT;
        }
        if (last)
        {
            r.outcome(e.why + (e.v == verdict::UNDEFINED ? (threw ? "->threw" : "->stored-in-domain") : ""));
            if (had_accept && had_reject)
            {
                ++r.nontrivial;
            }
            static uint64_t nsample = 0;
            if (++nsample % 40009U == 1U)
            {
                r.sample(jobj({{"shape", jstr(sh.name)},
                               {"history", jarr(hist.begin(), hist.end(),
                                                [&](const int i) { return jstr(sh.ops[static_cast<size_t>(i)].label()); })},
                               {"reference_verdict_of_last", jstr(e.why)},
                               {"threw", threw ? "true" : "false"},
                               {"state_after", jstr(after.canon)}}));
            }
        }
        cur = after;
    }
    return cur.canon;
}

bool parse_case(const std::string& one, const std::vector<shape_t>& shapes, size_t& ishape, std::vector<int>& hist)
{
    const auto p = one.find(':');
    if (p == std::string::npos)
    {
        return false;
    }
    const auto name = one.substr(0, p);
    for (ishape = 0; ishape < shapes.size() && shapes[ishape].name != name; ++ishape) {}
    if (ishape == shapes.size())
    {
        return false;
    }
    hist.clear();
    std::stringstream ss(one.substr(p + 1));
    std::string       tok;
    while (std::getline(ss, tok, ','))
    {
        const int op = std::atoi(tok.c_str());
        if (op < 0 || op >= static_cast<int>(shapes[ishape].ops.size()))
        {
            return false;
        }
        hist.push_back(op);
    }
    return true;
}

int oracle_selftest(const std::vector<shape_t>& shapes)
{
    const auto& I = shapes[1].ref; // 1 <= v <= 10
    const auto& J = shapes[2].ref; // 1 < v < 10
    const auto& F = shapes[3].ref; // 0 < v <= 1
    const auto& P = shapes[5].ref; // 0 <= a < b <= 10
    const auto& Q = shapes[7].ref; // 0 < a < b < 1
    bool        ok = true;
    ok = ok && I.judge(opI64(11)).v == verdict::REJECT && I.judge(opI64(10)).v == verdict::ACCEPT;
    ok = ok && J.judge(opI64(10)).v == verdict::REJECT && J.judge(opI64(1)).v == verdict::REJECT && J.judge(opI64(2)).v == verdict::ACCEPT;
    ok = ok && I.judge(opF64(2.5)).v == verdict::UNDEFINED && I.judge(opF64(NaN)).v == verdict::REJECT;
    ok = ok && F.judge(opF64(NaN)).v == verdict::REJECT && F.judge(opF64(0.0)).v == verdict::REJECT && F.judge(opF64(1.0)).v == verdict::ACCEPT;
    ok = ok && F.judge(opF64(DMIN)).v == verdict::ACCEPT && F.judge(opF64(std::nextafter(1.0, 2.0))).v == verdict::REJECT;
    ok = ok && I.judge(opS("5")).v == verdict::ACCEPT && I.judge(opS("5")).i1 == 5 && I.judge(opS("3abc")).v == verdict::REJECT;
    ok = ok && I.judge(opS("abc")).v == verdict::REJECT && I.judge(opS("")).v == verdict::REJECT && I.judge(opS("0.5")).v == verdict::REJECT;
    ok = ok && F.judge(opS("1e-1")).v == verdict::ACCEPT && F.judge(opS("1e-1")).d1 == 0.1 && F.judge(opS("nan")).v == verdict::REJECT;
    ok = ok && P.judge(opPI64(3, 3)).v == verdict::REJECT && P.judge(opPI64(0, 10)).v == verdict::ACCEPT && P.judge(opPI64(7, 3)).v == verdict::REJECT;
    ok = ok && P.judge(opS("5,7")).v == verdict::ACCEPT && P.judge(opS("7;5")).v == verdict::REJECT && P.judge(opS("5")).v == verdict::REJECT;
    ok = ok && P.judge(opS("1,2,3")).v == verdict::REJECT && P.judge(opS("abc,7")).v == verdict::REJECT;
    ok = ok && Q.judge(opPF64(0.25, 0.25)).v == verdict::REJECT && Q.judge(opPF64(0.25, NaN)).v == verdict::REJECT;
    ok = ok && Q.judge(opPF64(DMIN, std::nextafter(1.0, 0.0))).v == verdict::ACCEPT && Q.judge(opPF64(0.0, 0.5)).v == verdict::REJECT;
    // hand-made wrong answers must be flagged
    const auto before = snapshot(shapes[1].make());
    auto       wrong  = before;
    wrong.i1          = 11;
    wrong.canon += "x";
    ok = ok && judge_step(I, I.judge(opI64(11)), before, wrong, false).rfind("i:", 0) == 0;
    wrong.i1 = 7;
    ok = ok && judge_step(I, I.judge(opI64(11)), before, wrong, true) == "ii:threw-but-state-changed";
    ok = ok && judge_step(I, I.judge(opI64(11)), before, before, false) == "iii:out-of-domain-value-accepted";
    ok = ok && judge_step(I, I.judge(opI64(7)), before, before, false) == "iii:accepted-value-not-read-back";
    ok = ok && judge_step(I, I.judge(opI64(7)), before, before, true) == "iii:in-domain-value-rejected";
    ok = ok && judge_step(I, I.judge(opI64(7)), before, wrong, false).empty();
    if (!ok)
    {
        std::fprintf(stderr, "oracle self-test failed\n");
        return 2;
    }
    return 0;
}

uint64_t ipow(const uint64_t b, const int e)
{
    uint64_t p = 1;
    for (int i = 0; i < e; ++i)
    {
        p *= b;
    }
    return p;
}

int stage_bfs(const args_t& args, report_t& r)
{
    const auto shapes = make_shapes();
    if (const auto rc = oracle_selftest(shapes); rc != 0)
    {
        return rc;
    }
    const int D  = static_cast<int>(args.geti("depth", args.thorough() ? 5 : 3));   // bound of the deduplicating BFS
    const int L  = static_cast<int>(args.geti("full", args.thorough() ? 4 : 3));    // full alphabet, no deduplication
    const int Lc = static_cast<int>(args.geti("core", args.thorough() ? 5 : 4));    // core alphabet, no deduplication
    const int Ls = static_cast<int>(args.geti("core_scalar", args.thorough() ? 6 : 4)); // the same for the scalar shapes
    // full-alphabet histories longer than this are judged on the transition clauses (i)-(iii) (and (v) when the last
    // operation is a write+read) but without the extra reader sweep (iv)/(v) on the final state: that state's kind
    // cannot differ (clause (i)) and the sweep is run on every shorter history, every core history and every BFS state
    const int Lr = static_cast<int>(args.geti("reads_upto", 3));

    for (const auto& sh : shapes)
    {
        r.axis("ops." + sh.name, jobj({{"size", jint(sh.ops.size())},
                                       {"alphabet", jarr(sh.ops.begin(), sh.ops.end(), [](const op_t& o) { return jstr(o.label()); })},
                                       {"core", jarr_num(sh.core)}}));
    }
    r.axis("bounds", jobj({{"dedup_bfs_depth", jint(D)}, {"full_alphabet_history_length", jint(L)},
                           {"core_alphabet_history_length", jint(Lc)},
                           {"core_alphabet_history_length_scalar_shapes", jint(Ls)},
                           {"reader_sweep_on_full_alphabet_histories_up_to_length", jint(Lr)}}));
    r.assume("string/number inputs whose conversion the statement does not define are judged only on (i) stored value "
             "inside the domain and (ii) throw => state bit-identical, not on accept/reject or read-back: numeric text "
             "followed by other text ('3abc', '0.5' or '1e-1' or '5,7' given to an integer, '5,7' given to a scalar), "
             "pair text not of the form a<sep>b ('1,2,3', '5,,7'), literals that underflow ('1e-999'), non-integral "
             "doubles given to an integer parameter (the library truncates), doubles outside the int64 range incl. "
             "NaN/inf given to an integer parameter (the cast is undefined behaviour in C++)");
    r.assume("assignments of a value of another kind (number to pair/enum/string, pair to non-pair, enumeration to "
             "non-enumeration) are judged on (i) and (ii) only; the statement does not say whether they are rejected");
    r.assume("text with no numeric prefix, with fewer than two values for a pair, or overflowing the kind is expected "
             "to be rejected (it has no conversion to the kind)");

    if (!args.one.empty())
    {
        size_t           ishape = 0;
        std::vector<int> hist;
        if (!parse_case(args.one, shapes, ishape, hist))
        {
            std::fprintf(stderr, "cannot parse --case %s\n", args.one.c_str());
            return 2;
        }
        run_history(shapes[ishape], hist, r, true);
        r.evaluations = r.transitions = r.traces = 1;
        return r.finish();
    }

    // (a) deduplicating BFS, one shape per shard
    std::string closed = "{";
    for (size_t is = 0; is < shapes.size(); ++is)
    {
        if (static_cast<int>(is % static_cast<size_t>(args.shards)) != args.shard)
        {
            continue;
        }
        const auto& sh = shapes[is];
        const auto  st = mc::bfs(
            static_cast<int>(sh.ops.size()), D, [&](const std::vector<int>& h) { return run_history(sh, h, r, true); },
            [&] { return r.out_of_time(); });
        r.states += st.states;
        r.transitions += st.transitions;
        if (!st.replay_ok)
        {
            r.violation("bfs:" + sh.name + ":canon-on-replay-differs", sh.name + ":", "{}");
        }
        if (!st.complete)
        {
            r.cap("deadline hit in the deduplicating BFS of shape " + sh.name);
        }
        const bool is_closed = st.complete && static_cast<int>(st.max_depth) < D;
        if (!is_closed)
        {
            r.cap("state graph of shape " + sh.name + " not closed within depth " + std::to_string(D));
        }
        r.note("bfs." + sh.name, jobj({{"states", jint(st.states)}, {"transitions", jint(st.transitions)},
                                       {"max_depth", jint(st.max_depth)}, {"closed", is_closed ? "true" : "false"},
                                       {"canon_on_replay_checked", jint(st.replays_checked)}}));
        closed += (closed.size() > 1 ? "," : "") + jstr(sh.name) + ":" + (is_closed ? "true" : "false");
    }

    // (b) + (c) histories without deduplication; ordered so that a deadline costs the longest histories only:
    //   full alphabet up to length 3 for every shape, then the core alphabet beyond L, then the full alphabet 4..L
    struct task_t
    {
        size_t shape;
        int    len;
        bool   full;
    };
    std::vector<task_t> tasks;
    for (int len = 1; len <= std::min(L, 3); ++len)
    {
        for (size_t is = 0; is < shapes.size(); ++is)
        {
            tasks.push_back({is, len, true});
        }
    }
    for (size_t is = 0; is < shapes.size(); ++is)
    {
        const int maxlen = shapes[is].ref.kind == kind_t::SCALAR ? std::max(Lc, Ls) : Lc;
        for (int len = L + 1; len <= maxlen; ++len)
        {
            tasks.push_back({is, len, false});
        }
    }
    for (int len = 4; len <= L; ++len)
    {
        for (size_t is = 0; is < shapes.size(); ++is)
        {
            tasks.push_back({is, len, true});
        }
    }
    uint64_t histories = 0, done = 0;
    bool     stop = r.out_of_time();
    for (size_t it = 0; it < tasks.size() && !stop; ++it)
    {
        const auto&      sh    = shapes[tasks[it].shape];
        const int        len   = tasks[it].len;
        const bool       full  = tasks[it].full;
        const uint64_t   A     = full ? sh.ops.size() : sh.core.size();
        const uint64_t   total = ipow(A, len);
        std::vector<int> hist(static_cast<size_t>(len));
        for (uint64_t idx = static_cast<uint64_t>(args.shard); idx < total; idx += static_cast<uint64_t>(args.shards))
        {
            uint64_t x = idx;
            for (int k = len; k-- > 0;)
            {
                const auto d                 = static_cast<size_t>(x % A);
                hist[static_cast<size_t>(k)] = full ? static_cast<int>(d) : sh.core[d];
                x /= A;
            }
            run_history(sh, hist, r, !full || len <= Lr);
            ++histories;
            if ((++done & 4095U) == 0U && r.out_of_time())
            {
                r.cap("deadline hit in the history enumeration: " + std::string(full ? "full" : "core") + " alphabet, length " +
                      std::to_string(len) + ", shape " + sh.name + " (task " + std::to_string(it) + " of " +
                      std::to_string(tasks.size()) + "; all earlier tasks are complete)");
                stop = true;
                break;
            }
        }
    }
    r.note("histories_without_dedup", jint(histories));
    r.transitions += histories;
    r.traces      = r.transitions; // every transition is one replay of its history on the implementation
    r.evaluations = r.transitions;
    return r.finish();
}
} // namespace

int main(int argc, char** argv)
{
    const auto args  = parse_args(argc, argv);
    const auto stage = args.stage.empty() ? std::string("bfs") : args.stage;
    report_t   r("c19/" + stage, args);
    if (stage == "bfs")
    {
        return stage_bfs(args, r);
    }
    if (stage == "factory")
    {
        return c19::stage_factory(args, r);
    }
    std::fprintf(stderr, "unknown stage %s\n", stage.c_str());
    return 2;
}
