// C11 (statistics and model algebra) — model-configuration lattice on tiny datasets: after fit(), every stored
// per-(trial, fold) statistic and the final statistics are recomputed from scratch by predicting with the
// corresponding *stored* model on the corresponding samples; boosting prediction = bias + sum of weak learners;
// final boosting model = average of the optimum trial's fold models; the kept round is an accepted improvement.
#include "models.h"
#include "verif.h"
#include <nano/dataset/iterator.h>
#include <nano/gboost/enums.h>
#include <nano/machine/stats.h>

using namespace nano;
using namespace verif;

namespace
{
/// predictions of a stored linear fold model: W * (flatten with missing -> 0) + b
tensor4d_t predict_linear(const dataset_t& dataset, const indices_t& samples, const tensor2d_t& W, const tensor1d_t& b)
{
    tensor2d_t buffer;
    tensor2d_t X = dataset.flatten(samples, buffer);
    tensor4d_t out(cat_dims(samples.size(), dataset.target_dims()));
    for (tensor_size_t i = 0; i < samples.size(); ++i)
    {
        for (tensor_size_t c = 0; c < X.size<1>(); ++c)
        {
            if (!std::isfinite(X(i, c)))
            {
                X(i, c) = 0.0;
            }
        }
        out.vector(i) = W.matrix() * X.vector(i) + b.vector();
    }
    return out;
}

/// predictions of a stored boosting fold model: bias + sum of the weak learners' predictions
tensor4d_t predict_gboost(const dataset_t& dataset, const indices_t& samples, const tensor1d_t& bias, const rwlearners_t& wlearners)
{
    tensor4d_t out(cat_dims(samples.size(), dataset.target_dims()));
    out.reshape(samples.size(), -1).matrix().rowwise() = bias.vector().transpose();
    for (const auto& w : wlearners)
    {
        w->predict(dataset, samples, out.tensor());
    }
    return out;
}

/// errors and losses of predictions, one sample at a time
tensor2d_t evaluate(const dataset_t& dataset, const indices_t& samples, const loss_t& loss, const tensor4d_t& outputs)
{
    tensor4d_t buffer;
    tensor4d_t targets = dataset.targets(samples, buffer);
    tensor2d_t values(2, samples.size());
    for (tensor_size_t i = 0; i < samples.size(); ++i)
    {
        tensor1d_t e(1), v(1);
        loss.error(targets.slice(i, i + 1), outputs.slice(i, i + 1), e.tensor());
        loss.value(targets.slice(i, i + 1), outputs.slice(i, i + 1), v.tensor());
        values(0, i) = e(0);
        values(1, i) = v(0);
    }
    return values;
}

std::string compare_stats(const ml::stats_t& got, const tensor2d_t& values, const int row, const double tol)
{
    tensor1d_t vals = values.tensor(row);
    tensor1d_t e(12);
    ml::store_stats(vals.tensor(), e.tensor());
    const double g[12] = {got.m_mean,  got.m_stdev, got.m_count, got.m_per01, got.m_per05, got.m_per10,
                          got.m_per20, got.m_per50, got.m_per80, got.m_per90, got.m_per95, got.m_per99};
    // the standard deviation is sqrt(E[x^2] - mean^2) in the library (tensor_t::variance): for a (nearly) constant list the
    // difference is rounding noise of size eps * mean^2, possibly negative, so the stored and the recomputed value are only
    // defined up to sqrt(eps) * |mean| there (and either may be NaN). Reference: two-pass deviation in long double.
    long double mean = 0, ss = 0;
    for (tensor_size_t k = 0; k < vals.size(); ++k)
    {
        mean += vals(k);
    }
    mean /= std::max<tensor_size_t>(vals.size(), 1);
    for (tensor_size_t k = 0; k < vals.size(); ++k)
    {
        ss += (vals(k) - mean) * (vals(k) - mean);
    }
    const double ref_stdev  = vals.size() > 1 ? static_cast<double>(std::sqrt(ss / static_cast<long double>(vals.size() - 1))) : 0.0;
    const double stdev_slop = 1e-7 * (1.0 + std::fabs(static_cast<double>(mean)));
    for (int i = 0; i < 12; ++i)
    {
        if (i == 1 && ref_stdev <= stdev_slop)
        {
            if (std::isnan(g[i]) || std::fabs(g[i]) <= 2 * stdev_slop)
            {
                continue;
            }
        }
        const bool same = (std::isnan(g[i]) && std::isnan(e(i))) || std::fabs(g[i] - e(i)) <= tol * (1.0 + std::fabs(e(i)));
        if (!same)
        {
            return "statistic " + std::to_string(i) + ": stored " + std::to_string(g[i]) + " recomputed " + std::to_string(e(i));
        }
    }
    return "";
}

struct config_t
{
    int  model = 0;   ///< 0..3 linear (ordinary, lasso, ridge, elastic_net), 4..6 gboost pools
    int  target = 0;  ///< 0 regression, 1 two classes
    int  loss = 0;
    int  folds = 2;
    int  tuner = 0;
    int  samples = 20;
    int  shrinkage = 0, subsample = 0, wscale = 0;
};
} // namespace

int main(int argc, char** argv)
{
    const auto args = parse_args(argc, argv);
    report_t   r("c11/stats", args);
    const bool T = args.thorough();

    const std::vector<std::string> lin      = {"ordinary", "lasso", "ridge", "elastic_net"};
    const std::vector<std::string> reg_loss = {"mse", "mae"};
    const std::vector<std::string> cls_loss = {"s-logistic", "s-classnll", "s-hinge"};
    const std::vector<int>         Ns       = T ? std::vector<int>{12, 20, 30} : std::vector<int>{20};
    const std::vector<int>         folds    = T ? std::vector<int>{2, 3, 5} : std::vector<int>{2, 3};

    lattice_t lat;
    lat.axis("model", 7, jstr("ordinary, lasso, ridge, elastic_net, gboost{stump}, gboost{stump,dense-table}, gboost{affine,dtree}"));
    lat.axis("target", 2, jstr("regression | 2 classes"));
    lat.axis("loss", 3, jstr("mse, mae (regression; index mod 2) | s-logistic, s-classnll, s-hinge"));
    lat.axis("folds", folds.size(), jarr_num(folds));
    lat.axis("tuner", 2, jstr("local-search, surrogate"));
    lat.axis("samples", Ns.size(), jarr_num(Ns));
    lat.axis("gboost_variant", T ? 12 : 6, jstr("shrinkage {off,global,local} x subsample {off,subsample} (x wscale {gboost,tboost} in thorough); linear: only variant 0"));
    lat.axis("sample_list", 3, jstr("all samples | a strict non-contiguous subset (every index with i % 4 != 1) | as many draws as the dataset has "
                                    "samples, with repetitions (sorted bootstrap list: i -> (i * 7) % N over i % 3 != 0, duplicated to length N)"));
    lat.axis("object_history", 2, jstr("fresh model object | the same object was fitted before (default parameters, another dataset of the same schema with 16 samples, 2 folds)"));
    lat.describe(r);

    for_each_case(lat, r, "stats", [&](const uint64_t index, const std::vector<uint64_t>& d) {
        config_t k;
        k.model   = static_cast<int>(d[0]);
        k.target  = static_cast<int>(d[1]);
        k.loss    = static_cast<int>(d[2]);
        k.folds   = folds[d[3]];
        k.tuner   = static_cast<int>(d[4]);
        k.samples = Ns[d[5]];
        const bool is_lin = k.model < 4;
        if (is_lin && d[6] != 0)
        {
            return;
        }
        if (k.target == 0 && k.loss == 2)
        {
            return; // only two regression losses
        }
        k.shrinkage = static_cast<int>(d[6] % 3);
        k.subsample = static_cast<int>((d[6] / 3) % 2);
        k.wscale    = static_cast<int>(d[6] / 6);
        const auto lid     = k.target == 0 ? reg_loss[static_cast<size_t>(k.loss)] : cls_loss[static_cast<size_t>(k.loss)];
        const auto loss    = loss_t::all().get(lid);
        const auto source  = vt::make_model_source(k.samples, k.target == 0 ? 0 : 2, true);
        const auto dataset = vt::make_model_dataset(*source, 1);
        const auto samples = [&]()
        {
            const auto N = static_cast<tensor_size_t>(k.samples);
            if (d[7] == 0)
            {
                return indices_t{arange(0, N)};
            }
            std::vector<tensor_size_t> list;
            if (d[7] == 1)
            {
                for (tensor_size_t i = 0; i < N; ++i)
                {
                    if (i % 4 != 1)
                    {
                        list.push_back(i);
                    }
                }
            }
            else
            {
                // N draws with repetitions: the members are the indices i with i % 3 != 0, visited in a scrambled order
                std::vector<tensor_size_t> members;
                for (tensor_size_t i = 0; i < N; ++i)
                {
                    if (i % 3 != 0)
                    {
                        members.push_back(i);
                    }
                }
                for (tensor_size_t j = 0; j < N; ++j)
                {
                    list.push_back(members[static_cast<size_t>((j * 7) % static_cast<tensor_size_t>(members.size()))]);
                }
                std::sort(list.begin(), list.end());
            }
            indices_t out(static_cast<tensor_size_t>(list.size()));
            for (size_t i = 0; i < list.size(); ++i)
            {
                out(static_cast<tensor_size_t>(i)) = list[i];
            }
            return out;
        }();
        const auto params  = vt::make_fit_params(k.folds, k.tuner == 0 ? "local-search" : "surrogate");
        const auto splits  = params.splitter().split(samples);
        const auto one     = "stats:" + std::to_string(index);
        const auto desc    = [&](const std::string& what)
        {
            return jobj({{"model", jint(k.model)}, {"loss", jstr(lid)}, {"folds", jint(k.folds)}, {"tuner", jint(k.tuner)},
                         {"samples", jint(k.samples)}, {"shrinkage", jint(k.shrinkage)}, {"subsample", jint(k.subsample)},
                         {"wscale", jint(k.wscale)}, {"refit_of_used_object", jint(d[8])}, {"sample_list", jint(d[7])}, {"what", jstr(what)}});
        };
        if (index % 41 == 0)
        {
            r.sample(desc("configuration"));
        }
        ml::result_t   result;
        rlinear_t      linear;
        gboost_model_t gboost = vt::make_gboost(is_lin ? 0 : k.model - 4);
        const bool refit = d[8] != 0;
        try
        {
            if (is_lin)
            {
                linear = linear_t::all().get(lin[static_cast<size_t>(k.model)]);
            }
            if (refit)
            {
                // an earlier use of the same model object: nothing of it may survive into the judged fit
                const auto source0  = vt::make_model_source(16, k.target == 0 ? 0 : 2, true);
                const auto dataset0 = vt::make_model_dataset(*source0, 1);
                const auto samples0 = arange(0, 16);
                const auto params0  = vt::make_fit_params(2, "local-search");
                if (is_lin)
                {
                    (void)linear->fit(dataset0, samples0, *loss, params0);
                }
                else
                {
                    (void)gboost.fit(dataset0, samples0, *loss, params0);
                }
                purge_tmpdir();
            }
            if (is_lin)
            {
                linear->parameter("linear::batch") = 10;
                result = linear->fit(dataset, samples, *loss, params);
            }
            else
            {
                const char* shr[] = {"off", "global", "local"};
                gboost.parameter("gboost::shrinkage") = shr[k.shrinkage];
                if (k.subsample != 0)
                {
                    gboost.parameter("gboost::subsample")       = gboost_subsample::subsample;
                    gboost.parameter("gboost::subsample_ratio") = 0.8;
                }
                if (k.wscale != 0)
                {
                    gboost.parameter("gboost::wscale") = gboost_wscale::tboost;
                }
                result = gboost.fit(dataset, samples, *loss, params);
            }
        }
        catch (const std::exception& e)
        {
            r.evaluations += 1;
            r.outcome(std::string("fit threw"));
            return;
        }
        purge_tmpdir();
        r.evaluations += 1;
        ++r.nontrivial;
        r.outcome(is_lin ? "linear fitted, trials=" + std::to_string(result.trials()) : "gboost fitted, trials=" + std::to_string(result.trials()));
        if (result.folds() != static_cast<tensor_size_t>(splits.size()))
        {
            r.violation("stats:folds", one, desc("result.folds() differs from the splitter's number of folds"));
            return;
        }
        const double eps_es = is_lin ? 0.0 : gboost.parameter("gboost::epsilon").value<scalar_t>();
        // per (trial, fold): recompute from the stored model
        for (tensor_size_t t = 0; t < result.trials(); ++t)
        {
            for (tensor_size_t f = 0; f < result.folds(); ++f)
            {
                const auto& [tr, vd] = splits[static_cast<size_t>(f)];
                tensor4d_t  ptr, pvd;
                if (is_lin)
                {
                    const auto* m = std::any_cast<linear::result_t>(&result.extra(t, f));
                    if (m == nullptr)
                    {
                        r.violation("stats:extra-missing", one, desc("no linear::result_t stored for a (trial, fold)"));
                        continue;
                    }
                    ptr = predict_linear(dataset, tr, m->m_weights, m->m_bias);
                    pvd = predict_linear(dataset, vd, m->m_weights, m->m_bias);
                }
                else
                {
                    const auto* m = std::any_cast<gboost::result_t>(&result.extra(t, f));
                    if (m == nullptr)
                    {
                        r.violation("stats:extra-missing", one, desc("no gboost::result_t stored for a (trial, fold)"));
                        continue;
                    }
                    ptr = predict_gboost(dataset, tr, m->m_bias, m->m_wlearners);
                    pvd = predict_gboost(dataset, vd, m->m_bias, m->m_wlearners);
                    // the kept round must be the last accepted improvement of the recorded (train, valid) error history
                    const auto rounds = m->m_statistics.size<0>();
                    if (rounds >= 1)
                    {
                        double best = std::numeric_limits<double>::max();
                        tensor_size_t best_round = 0;
                        bool   stop_by_train = false;
                        for (tensor_size_t q = 0; q < rounds; ++q)
                        {
                            const auto te = m->m_statistics(q, 0), ve = m->m_statistics(q, 2);
                            if (te < eps_es)
                            {
                                stop_by_train = true;
                                best_round    = q;
                                break;
                            }
                            if (ve < best - eps_es)
                            {
                                best       = ve;
                                best_round = q;
                            }
                        }
                        if (!stop_by_train && best_round != rounds - 1)
                        {
                            r.violation("stats:kept-round-not-accepted", one,
                                        desc("fold model keeps " + std::to_string(rounds - 1) + " rounds but the last accepted improvement was round " +
                                             std::to_string(best_round)));
                        }
                    }
                }
                const auto vtr = evaluate(dataset, tr, *loss, ptr);
                const auto vvd = evaluate(dataset, vd, *loss, pvd);
                for (int s = 0; s < 2; ++s)
                {
                    for (int v = 0; v < 2; ++v)
                    {
                        const auto got  = result.stats(t, f, s == 0 ? ml::split_type::train : ml::split_type::valid,
                                                       v == 0 ? ml::value_type::errors : ml::value_type::losses);
                        const auto diff = compare_stats(got, s == 0 ? vtr : vvd, v, 1e-9);
                        if (!diff.empty())
                        {
                            r.violation(std::string("stats:trial-fold:") + (is_lin ? "linear" : "gboost"), one,
                                        desc("trial " + std::to_string(t) + " fold " + std::to_string(f) + " split " + std::to_string(s) +
                                             " value " + std::to_string(v) + ": " + diff));
                        }
                    }
                }
            }
        }
        // final statistics from the fitted model, model algebra
        const tensor4d_t pfinal = is_lin ? linear->predict(dataset, samples) : gboost.predict(dataset, samples);
        const auto       vfinal = evaluate(dataset, samples, *loss, pfinal);
        for (int v = 0; v < 2; ++v)
        {
            const auto diff = compare_stats(result.stats(v == 0 ? ml::value_type::errors : ml::value_type::losses), vfinal, v, 1e-9);
            if (!diff.empty())
            {
                r.violation(std::string("stats:final:") + (is_lin ? "linear" : "gboost"), one, desc("final value " + std::to_string(v) + ": " + diff));
            }
        }
        if (is_lin)
        {
            const auto alt = predict_linear(dataset, samples, linear->weights(), linear->bias());
            if (!((alt.vector() - pfinal.vector()).array().abs().maxCoeff() <= 1e-12 * (1.0 + pfinal.vector().array().abs().maxCoeff())))
            {
                r.violation("algebra:linear-predict", one, desc("predict != W x + b"));
            }
        }
        else
        {
            const auto alt = predict_gboost(dataset, samples, gboost.bias(), gboost.wlearners());
            if (!((alt.vector() - pfinal.vector()).array().abs().maxCoeff() <= 1e-12 * (1.0 + pfinal.vector().array().abs().maxCoeff())))
            {
                r.violation("algebra:gboost-predict", one, desc("predict != bias + sum of weak learners"));
            }
            const auto o = result.optimum_trial();
            tensor4d_t avg(pfinal.dims());
            avg.zero();
            bool have = true;
            for (tensor_size_t f = 0; f < result.folds(); ++f)
            {
                const auto* m = std::any_cast<gboost::result_t>(&result.extra(o, f));
                have          = have && m != nullptr;
                if (m != nullptr)
                {
                    avg.vector() += predict_gboost(dataset, samples, m->m_bias, m->m_wlearners).vector();
                }
            }
            avg.vector() /= static_cast<double>(result.folds());
            if (have && !((avg.vector() - pfinal.vector()).array().abs().maxCoeff() <= 1e-9 * (1.0 + pfinal.vector().array().abs().maxCoeff())))
            {
                r.violation("algebra:gboost-fold-average", one, desc("final model != average of the optimum trial's fold models"));
            }
        }
    });
    r.assume("statistics are recomputed by passing the recomputed per-sample errors/losses through ml::store_stats (the order "
             "statistics themselves are property C20); tolerance 1e-9 relative (boosting predictions are re-associated by merge)");
    return r.finish();
}
