// C16: the checks of c16_impl.cpp instantiated for one scalar type
#define C16_TYPE double
#define C16_NAME double
#define C16_ASAN 1
#include "c16_impl.cpp"
