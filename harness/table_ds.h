// A data source filled from a plain reference table (the table is the reference model of what is stored).
// Shared by the dataset / ML-objective / weak-learner / model harnesses.
#pragma once

#include <nano/dataset.h>
#include <nano/datasource.h>
#include <nano/generator/elemwise_identity.h>
#include <optional>

namespace vt
{
using namespace nano;

/// one feature (column of the table): descriptor + one optional value per sample.
/// a value is the flattened list of numbers: sclass -> {label}, mclass -> {0/1 per label}, scalar -> {v},
/// structured -> row-major elements.
struct column_t
{
    feature_t                                       feature;
    std::vector<std::optional<std::vector<double>>> values;

    tensor_size_t width() const
    {
        if (feature.is_sclass())
        {
            return 1;
        }
        if (feature.is_mclass())
        {
            return feature.classes();
        }
        return ::nano::size(feature.dims());
    }
};

inline column_t make_sclass(const std::string& name, const size_t classes)
{
    return {feature_t{name}.sclass(classes), {}};
}
inline column_t make_mclass(const std::string& name, const size_t classes)
{
    return {feature_t{name}.mclass(classes), {}};
}
inline column_t make_scalar(const std::string& name, const feature_type type = feature_type::float64)
{
    return {feature_t{name}.scalar(type), {}};
}
inline column_t make_struct(const std::string& name, const feature_type type, const tensor3d_dims_t dims)
{
    return {feature_t{name}.scalar(type, dims), {}};
}

class table_datasource_t final : public datasource_t
{
public:
    static constexpr size_t no_target = static_cast<size_t>(-1);

    table_datasource_t(const tensor_size_t samples, std::vector<column_t> columns, const size_t target = no_target)
        : datasource_t("verif-table")
        , m_samples(samples)
        , m_columns(std::move(columns))
        , m_target(target)
    {
        for ([[maybe_unused]] const auto& column : m_columns)
        {
            assert(static_cast<tensor_size_t>(column.values.size()) == samples);
        }
    }

    rdatasource_t clone() const override { return std::make_unique<table_datasource_t>(*this); }

    const std::vector<column_t>& columns() const { return m_columns; }
    size_t                       target_column() const { return m_target; }

    /// the table column behind input feature `ifeature` of the data source (the target is skipped)
    const column_t& input(const tensor_size_t ifeature) const
    {
        const auto i = static_cast<size_t>(ifeature);
        return m_columns[(m_target != no_target && i >= m_target) ? i + 1 : i];
    }

private:
    void do_load() override
    {
        features_t features;
        for (const auto& column : m_columns)
        {
            features.push_back(column.feature);
        }
        if (m_target == no_target)
        {
            datasource_t::resize(m_samples, features);
        }
        else
        {
            datasource_t::resize(m_samples, features, m_target);
        }
        for (size_t c = 0; c < m_columns.size(); ++c)
        {
            const auto& column = m_columns[c];
            const auto  ifeat  = static_cast<tensor_size_t>(c);
            for (tensor_size_t sample = 0; sample < m_samples; ++sample)
            {
                const auto& value = column.values[static_cast<size_t>(sample)];
                if (!value)
                {
                    continue;
                }
                if (column.feature.is_sclass())
                {
                    set(sample, ifeat, static_cast<tensor_size_t>((*value)[0]));
                }
                else if (column.feature.is_mclass())
                {
                    tensor_mem_t<tensor_size_t, 1> hits(static_cast<tensor_size_t>(value->size()));
                    for (size_t i = 0; i < value->size(); ++i)
                    {
                        hits(static_cast<tensor_size_t>(i)) = static_cast<tensor_size_t>((*value)[i]);
                    }
                    set(sample, ifeat, hits);
                }
                else if (column.width() == 1)
                {
                    set(sample, ifeat, (*value)[0]);
                }
                else
                {
                    tensor_mem_t<scalar_t, 1> vals(static_cast<tensor_size_t>(value->size()));
                    for (size_t i = 0; i < value->size(); ++i)
                    {
                        vals(static_cast<tensor_size_t>(i)) = (*value)[i];
                    }
                    set(sample, ifeat, vals);
                }
            }
        }
    }

    tensor_size_t         m_samples{0};
    std::vector<column_t> m_columns;
    size_t                m_target{no_target};
};

/// the four identity generators (what the models are used with in the repository's tests)
inline void add_identity_generators(dataset_t& dataset)
{
    dataset.add<sclass_identity_generator_t>();
    dataset.add<mclass_identity_generator_t>();
    dataset.add<scalar_identity_generator_t>();
    dataset.add<struct_identity_generator_t>();
}

/// a deterministic "generic" number in (-1, 1) without exact ties: fractional part of a golden-ratio walk
inline double generic(const uint64_t i, const uint64_t salt = 0)
{
    const double x = static_cast<double>((i + 1) * 2654435761ULL % 1000003ULL) / 1000003.0 + 0.6180339887 * static_cast<double>(salt + 1);
    return 2.0 * (x - std::floor(x)) - 1.0;
}
} // namespace vt
