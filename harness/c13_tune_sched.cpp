// C13 (model-tuning driver) — ml::tune under the controlled scheduler (E1): hardware_concurrency is interposed to
// W so that the pool ml::tune creates for itself has W workers; every interleaving of the (trial, fold) tasks within
// the preemption budget is executed and the bookkeeping clauses of the statement are evaluated on every schedule.
//
// case encoding: "T:<W>:<folds>:<grid>:<tuner 0|1>:<budget>|c0,c1,..."
#include "verif.h"
#include "vsched.h"
#include <atomic>
#include <csignal>
#include <nano/loss.h>
#include <nano/machine/tune.h>
#include <sched.h>
#include <unistd.h>

using namespace nano;
using namespace verif;

namespace
{
constexpr auto RLX = std::memory_order_relaxed;
constexpr int  MAXP = 8, MAXF = 4;

struct config_t
{
    int W = 2, folds = 2, grid = 3, tuner = 0, budget = 1;
    std::string str() const
    {
        char buf[64];
        std::snprintf(buf, sizeof(buf), "T:%d:%d:%d:%d:%d", W, folds, grid, tuner, budget);
        return buf;
    }
};

struct context_t
{
    config_t          cfg;
    report_t*         r = nullptr;
    indices_t         samples;
    ml::params_t      params;
    splitter_t::splits_t splits;
    std::atomic<int>  calls[MAXP][MAXF];
    std::atomic<int>  warm[MAXP][MAXF]; ///< what the callback was handed as the closest previous model (-1: nothing)
    std::atomic<int>  unknown_fold{0}, unknown_param{0}, bad_train{0};
    ml::result_t      result;
    bool              have_first = false;
    std::string       first_digest;
    int               violations_here = 0;
    uint64_t          preempted = 0;
};
context_t* G = nullptr;

double grid_value(const int i)
{
    return 0.5 + 0.25 * static_cast<double>(i);
}

// the per-sample values the callback returns for (param index, fold): deterministic, all different, and such that the
// optimum trial is not the first one evaluated
tensor2d_t make_values(const int p, const int f, const tensor_size_t n, const int split)
{
    // the training errors order the trials the opposite way to the validation errors, so that an optimum chosen by
    // the wrong split (or a slot mix-up) is visible
    tensor2d_t v(2, n);
    for (tensor_size_t i = 0; i < n; ++i)
    {
        const auto base = split == 0 ? 0.9 - 0.125 * static_cast<double>(p) : 0.125 * static_cast<double>(p);
        v(0, i)         = base + 0.01 * static_cast<double>(f) + 0.001 * static_cast<double>(i);
        v(1, i)         = 10.0 + (split == 0 ? 1.0 : -1.0) * static_cast<double>(p) + 0.1 * static_cast<double>(f) + 0.01 * static_cast<double>(i);
    }
    return v;
}

int fold_of(const context_t& c, const indices_t& valid)
{
    for (size_t f = 0; f < c.splits.size(); ++f)
    {
        if (c.splits[f].second.size() == valid.size() && c.splits[f].second.vector() == valid.vector())
        {
            return static_cast<int>(f);
        }
    }
    return -1;
}

void body(void* p)
{
    auto& c = *static_cast<context_t*>(p);
    for (auto& row : c.calls)
    {
        for (auto& x : row)
        {
            x = 0;
        }
    }
    for (auto& row : c.warm)
    {
        for (auto& x : row)
        {
            x = -2;
        }
    }
    c.unknown_fold = c.unknown_param = c.bad_train = 0;
    tensor1d_t values(c.cfg.grid);
    for (tensor_size_t i = 0; i < values.size(); ++i)
    {
        values(i) = grid_value(static_cast<int>(i));
    }
    param_spaces_t spaces;
    spaces.emplace_back("p", param_space_t::type::linear, values);
    const auto callback = [&c](const indices_t& tr, const indices_t& vd, const tensor1d_cmap_t params, const std::any& closest,
                               const logger_t&)
    {
        int pi = -1;
        for (int i = 0; i < c.cfg.grid; ++i)
        {
            if (params.size() == 1 && params(0) == grid_value(i))
            {
                pi = i;
            }
        }
        const int f = fold_of(c, vd);
        if (pi < 0)
        {
            c.unknown_param.fetch_add(1, RLX);
            pi = 0;
        }
        if (f < 0)
        {
            c.unknown_fold.fetch_add(1, RLX);
        }
        else
        {
            if (c.splits[static_cast<size_t>(f)].first.size() != tr.size() ||
                c.splits[static_cast<size_t>(f)].first.vector() != tr.vector())
            {
                c.bad_train.fetch_add(1, RLX);
            }
            c.calls[pi][f].fetch_add(1, RLX);
            const auto* prev = std::any_cast<int>(&closest);
            c.warm[pi][f].store(prev != nullptr ? *prev : -1, RLX);
        }
        sched::point(pi * 8 + std::max(f, 0));
        return std::make_tuple(make_values(pi, std::max(f, 0), tr.size(), 0), make_values(pi, std::max(f, 0), vd.size(), 1),
                               std::any(pi * 10 + std::max(f, 0)));
    };
    c.result = ml::tune("verif", c.samples, c.params, std::move(spaces), callback);
}

std::string choices_str(const int* ch, const int n)
{
    std::string s;
    for (int i = 0; i < n; ++i)
    {
        s += (i ? "," : "") + std::to_string(ch[i]);
    }
    return s;
}

void violation(context_t& c, const std::string& what, const int* ch, const int n, const std::string& detail)
{
    ++c.violations_here;
    c.r->violation("tune:" + what, c.cfg.str() + "|" + choices_str(ch, n),
                   jobj({{"config", jstr(c.cfg.str())}, {"what", jstr(what)}, {"detail", jstr(detail)}}));
}

bool same_stats(const ml::stats_t& a, const tensor1d_t& e)
{
    const double got[12] = {a.m_mean,  a.m_stdev, a.m_count, a.m_per01, a.m_per05, a.m_per10,
                            a.m_per20, a.m_per50, a.m_per80, a.m_per90, a.m_per95, a.m_per99};
    for (int i = 0; i < 12; ++i)
    {
        if (!(got[i] == e(i)) && !(std::isnan(got[i]) && std::isnan(e(i))))
        {
            return false;
        }
    }
    return true;
}

bool after(void* p, const int* ch, const int n)
{
    static uint64_t runs = 0;
    if ((++runs & 63U) == 0U)
    {
        purge_tmpdir(); // one log file per (trial, fold) and execution
    }
    auto&       c   = *static_cast<context_t*>(p);
    const auto& res = c.result;
    const auto  F   = static_cast<tensor_size_t>(c.cfg.folds);
    if (c.unknown_param.load(RLX) || c.unknown_fold.load(RLX))
    {
        violation(c, "callback-arguments", ch, n, "callback got parameters off the grid or a validation set that is no fold");
    }
    if (c.bad_train.load(RLX))
    {
        violation(c, "callback-arguments", ch, n, "training indices are not those of the fold");
    }
    if (res.folds() != F)
    {
        violation(c, "folds", ch, n, "result.folds() differs from the splitter's");
        return false;
    }
    std::string digest;
    double      best_value = 1e300;
    std::vector<double> trial_values;
    for (tensor_size_t t = 0; t < res.trials(); ++t)
    {
        int pi = -1;
        for (int i = 0; i < c.cfg.grid; ++i)
        {
            if (res.params(t).size() == 1 && res.params(t)(0) == grid_value(i))
            {
                pi = i;
            }
        }
        if (pi < 0)
        {
            violation(c, "trial-params", ch, n, "trial " + std::to_string(t) + " has parameters off the grid");
            continue;
        }
        double mean_valid = 0;
        for (tensor_size_t f = 0; f < F; ++f)
        {
            if (c.calls[pi][f].load(RLX) != 1)
            {
                violation(c, "exactly-once", ch, n,
                          "callback ran " + std::to_string(c.calls[pi][f].load(RLX)) + " times for (param " + std::to_string(pi) +
                              ", fold " + std::to_string(f) + ")");
            }
            const auto& split = c.splits[static_cast<size_t>(f)];
            for (int s = 0; s < 2; ++s)
            {
                const auto exp = make_values(pi, static_cast<int>(f), s == 0 ? split.first.size() : split.second.size(), s);
                for (int v = 0; v < 2; ++v)
                {
                    tensor1d_t e(12);
                    tensor1d_t row = exp.tensor(v);
                    ml::store_stats(row.tensor(), e.tensor());
                    const auto got = res.stats(t, f, s == 0 ? ml::split_type::train : ml::split_type::valid,
                                               v == 0 ? ml::value_type::errors : ml::value_type::losses);
                    if (!same_stats(got, e))
                    {
                        violation(c, "stats-slot", ch, n,
                                  "stats(trial " + std::to_string(t) + ", fold " + std::to_string(f) + ", split " + std::to_string(s) +
                                      ", value " + std::to_string(v) + ") are not those of the tensors returned for it");
                    }
                    if (s == 1 && v == 0)
                    {
                        mean_valid += e(0);
                    }
                    digest += std::to_string(got.m_mean) + ";";
                }
            }
            const auto* extra = std::any_cast<int>(&res.extra(t, f));
            if (extra == nullptr || *extra != pi * 10 + static_cast<int>(f))
            {
                violation(c, "extra-slot", ch, n, "extra(trial, fold) is not the object returned for that (trial, fold)");
            }
        }
        mean_valid /= static_cast<double>(F);
        trial_values.push_back(mean_valid);
        best_value = std::min(best_value, mean_valid);
        digest += "|" + std::to_string(pi);
        // the inputs of the callback must not depend on the schedule either: the warm-start model it is handed
        for (tensor_size_t f = 0; f < F; ++f)
        {
            digest += "w" + std::to_string(c.warm[pi][f].load(RLX));
        }
    }
    for (int pi = 0; pi < c.cfg.grid; ++pi)
    {
        for (int f = 0; f < MAXF; ++f)
        {
            if (c.calls[pi][f].load(RLX) > 1)
            {
                violation(c, "exactly-once", ch, n, "callback ran more than once for a (param, fold)");
            }
        }
    }
    if (res.trials() > 0 && !trial_values.empty())
    {
        const auto o = res.optimum_trial();
        if (o < 0 || o >= res.trials() || std::fabs(trial_values[static_cast<size_t>(o)] - best_value) > 1e-15)
        {
            violation(c, "optimum-trial", ch, n, "optimum_trial() is not a trial with the smallest mean validation error");
        }
        digest += "#" + std::to_string(o);
    }
    if (!c.have_first)
    {
        c.have_first   = true;
        c.first_digest = digest;
    }
    else if (digest != c.first_digest)
    {
        violation(c, "schedule-dependent-result", ch, n, "result_t contents differ from the default schedule's");
    }
    if (sched::last_preemptions() > 0)
    {
        ++c.preempted;
    }
    return c.violations_here < 3;
}

[[noreturn]] void fatal(void* p, const sched::status_t why, const int* ch, const int n)
{
    auto& c = *static_cast<context_t*>(p);
    if (why == sched::ST_DIVERGED)
    {
        std::fprintf(stderr, "replay diverged for %s|%s\n", c.cfg.str().c_str(), choices_str(ch, n).c_str());
        _exit(2);
    }
    violation(c, why == sched::ST_DEADLOCK ? "deadlock" : why == sched::ST_HANG ? "hang" : "thread-leak", ch, n,
              "no execution of this schedule can complete");
    c.r->cap("exploration stopped at the first fatal schedule");
    c.r->finish();
    _exit(1);
}

void setup(context_t& c)
{
    sched::set_hw_threads(c.cfg.W);
    c.samples = arange(0, 6);
    c.params  = ml::params_t{};
    c.params.tuner(c.cfg.tuner == 0 ? "local-search" : "surrogate");
    {
        auto splitter                           = splitter_t::all().get("k-fold");
        splitter->parameter("splitter::folds") = c.cfg.folds;
        c.params.splitter(*splitter);
    }
    c.params.logger(make_null_logger());
    c.splits = c.params.splitter().split(c.samples);
    c.have_first = false;
    c.violations_here = 0;
}

bool parse_case(const std::string& s, config_t& k, std::vector<int>& choices)
{
    const auto bar = s.find('|');
    if (std::sscanf(s.c_str(), "T:%d:%d:%d:%d:%d", &k.W, &k.folds, &k.grid, &k.tuner, &k.budget) != 5)
    {
        return false;
    }
    choices.clear();
    if (bar != std::string::npos)
    {
        const char* q = s.c_str() + bar + 1;
        while (*q)
        {
            choices.push_back(static_cast<int>(std::strtol(q, const_cast<char**>(&q), 10)));
            if (*q == ',')
            {
                ++q;
            }
        }
    }
    return true;
}
} // namespace

int main(int argc, char** argv)
{
    const auto args = parse_args(argc, argv);
    report_t   r("c13/tune-sched", args);
    context_t  c;
    c.r = &r;
    G   = &c;
    {
        cpu_set_t set;
        CPU_ZERO(&set);
        const long ncpu = sysconf(_SC_NPROCESSORS_ONLN);
        CPU_SET(static_cast<int>(args.shard % (ncpu > 0 ? ncpu : 1)), &set);
        sched_setaffinity(0, sizeof(set), &set);
    }
    // the lazily built factories must exist before controlled threads do (their guards block outside the scheduler)
    (void)tuner_t::all().ids();
    (void)splitter_t::all().ids();
    (void)solver_t::all().ids();
    (void)loss_t::all().ids();
    (void)lsearch0_t::all().ids();
    (void)lsearchk_t::all().ids();

    if (!args.one.empty())
    {
        std::vector<int> choices;
        if (!parse_case(args.one, c.cfg, choices))
        {
            return 2;
        }
        setup(c);
        sched::config_t sc;
        sc.budget = c.cfg.budget;
        // the reference digest comes from the default schedule
        sched::replay(sc, body, after, fatal, &c, nullptr, 0);
        sched::replay(sc, body, after, fatal, &c, choices.data(), static_cast<int>(choices.size()));
        r.evaluations = 1;
        r.traces      = 1;
        return r.finish();
    }

    const int budget = static_cast<int>(args.geti("budget", 1));
    std::vector<config_t> configs;
    for (int W = 2; W <= static_cast<int>(args.geti("maxW", 2)); ++W)
    {
        for (int folds = 2; folds <= static_cast<int>(args.geti("maxfolds", 2)); ++folds)
        {
            for (int tuner = 0; tuner < 2; ++tuner)
            {
                config_t k;
                k.W = W, k.folds = folds, k.grid = 3, k.tuner = tuner, k.budget = budget;
                configs.push_back(k);
            }
        }
    }
    r.axis("workers", jstr("2.." + std::to_string(args.geti("maxW", 2))));
    r.axis("folds", jstr("2.." + std::to_string(args.geti("maxfolds", 2))));
    r.axis("grid", jstr("1 space x 3 values"));
    r.axis("tuners", jstr("local-search, surrogate"));
    r.axis("preemption_budget", jint(budget));
    for (size_t i = 0; i < configs.size(); ++i)
    {
        c.cfg = configs[i];
        setup(c);
        sched::config_t sc;
        sc.budget = budget;
        sc.prune  = 1;
        sched::stats_t st;
        const double   left = args.deadline - r.elapsed();
        if (left <= 0)
        {
            r.cap("deadline: " + c.cfg.str() + " not explored");
            break;
        }
        sched::explore(sc, body, after, fatal, &c, args.shard, args.shards, left, &st);
        r.traces += st.executions;
        r.evaluations += st.executions;
        r.transitions += st.transitions;
        r.states += st.states;
        r.nontrivial += c.preempted;
        c.preempted = 0;
        r.outcome("config " + c.cfg.str() + " executions", st.executions);
        if (st.capped)
        {
            r.cap("deadline hit inside " + c.cfg.str());
        }
        if (args.shard == 0)
        {
            r.sample(jobj({{"config", jstr(c.cfg.str())}, {"executions_shard0", jint(st.executions)}, {"max_decisions", jint(st.max_depth)},
                           {"trials", jint(c.result.trials())}}));
        }
        if (c.violations_here > 0)
        {
            break;
        }
    }
    r.assume("happens-before fingerprint pruning; one explicit scheduling point inside every callback invocation");
    return r.finish();
}
