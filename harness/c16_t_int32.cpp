// C16: the checks of c16_impl.cpp instantiated for one scalar type
#define C16_TYPE int32_t
#define C16_NAME int32
#define C16_ASAN 1
#include "c16_impl.cpp"
