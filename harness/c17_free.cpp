// C17 — configuration lattice on the free-running pool (real OS threads, no scheduler): pool size x elements x
// chunk size x concurrent submitters x throwing tasks x shutdown with queued work. Built twice: 'rel' (oracle =
// the monitors) and 'tsan' (oracle = monitors + no ThreadSanitizer report; the race detector is the auxiliary the
// schedule exploration needs, not an enumerator).
#include "verif.h"
#include <atomic>
#include <nano/core/parallel.h>
#include <stdexcept>
#include <thread>
#include <unistd.h>

using namespace verif;
using nano::parallel::future_t;
using nano::parallel::pool_t;

namespace
{
constexpr auto RLX = std::memory_order_relaxed;

struct monitors_t
{
    explicit monitors_t(const int elements, const size_t workers)
        : count(static_cast<size_t>(elements))
        , running(workers)
    {
        for (auto& c : count)
        {
            c = 0;
        }
        for (auto& c : running)
        {
            c = 0;
        }
    }
    std::vector<std::atomic<int>> count;
    std::vector<std::atomic<int>> running;
    std::atomic<int>              bad_tnum{0}, shared{0}, bad_range{0}, finished{0};

    void begin(const size_t tnum)
    {
        if (tnum >= running.size())
        {
            bad_tnum.fetch_add(1, RLX);
        }
        else if (running[tnum].fetch_add(1, RLX) != 0)
        {
            shared.fetch_add(1, RLX);
        }
    }
    void end(const size_t tnum)
    {
        if (tnum < running.size())
        {
            running[tnum].fetch_sub(1, RLX);
        }
        finished.fetch_add(1, RLX);
    }
    std::string verdict(const int expected_tasks) const
    {
        for (size_t i = 0; i < count.size(); ++i)
        {
            if (count[i].load(RLX) != 1)
            {
                return "exactly-once";
            }
        }
        if (bad_tnum.load(RLX) != 0)
        {
            return "tnum-range";
        }
        if (shared.load(RLX) != 0)
        {
            return "tnum-exclusive";
        }
        if (bad_range.load(RLX) != 0)
        {
            return "tiling";
        }
        if (finished.load(RLX) != expected_tasks)
        {
            return "completion";
        }
        return "";
    }
};

std::string run_case(const size_t size, const int elements, const int chunk, const int submitters, const int thrower,
                     const bool raise)
{
    pool_t     pool(size);
    const auto workers = pool.size();
    std::vector<std::string> verdicts(static_cast<size_t>(submitters));
    const auto submit = [&](const int who)
    {
        monitors_t m(elements, workers);
        bool       thrown = false;
        int        tasks  = 0;
        try
        {
            if (chunk <= 0)
            {
                tasks = elements;
                pool.map(elements,
                         [&](const int index, const size_t tnum)
                         {
                             m.begin(tnum);
                             if (index < 0 || index >= elements)
                             {
                                 m.bad_range.fetch_add(1, RLX);
                             }
                             else
                             {
                                 m.count[static_cast<size_t>(index)].fetch_add(1, RLX);
                             }
                             m.end(tnum);
                             if (index == thrower)
                             {
                                 throw std::runtime_error("boom");
                             }
                         },
                         raise);
            }
            else
            {
                tasks = (elements + chunk - 1) / chunk;
                pool.map(elements, chunk,
                         [&](const int begin, const int end, const size_t tnum)
                         {
                             m.begin(tnum);
                             if (begin < 0 || end > elements || begin >= end || end - begin > chunk || begin % chunk != 0)
                             {
                                 m.bad_range.fetch_add(1, RLX);
                             }
                             else
                             {
                                 for (int i = begin; i < end; ++i)
                                 {
                                     m.count[static_cast<size_t>(i)].fetch_add(1, RLX);
                                 }
                             }
                             m.end(tnum);
                             if (begin <= thrower && thrower < end)
                             {
                                 throw std::runtime_error("boom");
                             }
                         },
                         raise);
            }
        }
        catch (const std::runtime_error&)
        {
            thrown = true;
        }
        auto v = m.verdict(tasks);
        if (v.empty() && thrown != (raise && thrower >= 0 && thrower < elements))
        {
            v = "exception";
        }
        verdicts[static_cast<size_t>(who)] = v;
    };
    std::vector<std::thread> others;
    for (int s = 1; s < submitters; ++s)
    {
        others.emplace_back(submit, s);
    }
    submit(0);
    for (auto& t : others)
    {
        t.join();
    }
    for (const auto& v : verdicts)
    {
        if (!v.empty())
        {
            return v;
        }
    }
    return "";
}

std::string run_shutdown(const size_t size, const int tasks)
{
    std::vector<future_t>         futures;
    std::vector<std::atomic<int>> count(static_cast<size_t>(tasks));
    for (auto& c : count)
    {
        c = 0;
    }
    {
        pool_t pool(size);
        for (int i = 0; i < tasks; ++i)
        {
            futures.push_back(pool.enqueue([&count, i](size_t) { count[static_cast<size_t>(i)].fetch_add(1, RLX); }));
        }
    }
    for (int i = 0; i < tasks; ++i)
    {
        auto& f = futures[static_cast<size_t>(i)];
        if (f.wait_for(std::chrono::seconds(0)) != std::future_status::ready)
        {
            return "shutdown-future";
        }
        bool value = false;
        try
        {
            f.get();
            value = true;
        }
        catch (const std::future_error&)
        {
        }
        const int c = count[static_cast<size_t>(i)].load(RLX);
        if (c > 1 || (c == 1) != value)
        {
            return "shutdown-future";
        }
    }
    return "";
}

std::atomic<uint64_t> g_progress{0};
std::atomic<int64_t>  g_current{-1};
std::atomic<int>      g_current_kind{0};

/// a free-running case that makes no progress for 30 s is a hang (deadlock at shutdown, lost wake-up)
void watchdog()
{
    uint64_t last  = g_progress.load();
    int      stuck = 0;
    for (;;)
    {
        std::this_thread::sleep_for(std::chrono::seconds(1));
        const auto now = g_progress.load();
        stuck          = (now == last) ? stuck + 1 : 0;
        last           = now;
        if (stuck >= 30)
        {
            std::fprintf(stderr, "HANG: no progress for 30 s\nCASE %s:%lld\n", g_current_kind.load() == 0 ? "free" : "shutdown",
                         static_cast<long long>(g_current.load()));
            std::fflush(stderr);
            _exit(3);
        }
    }
}
} // namespace

int main(int argc, char** argv)
{
    const auto args = parse_args(argc, argv);
    report_t   r("c17/free", args);
    std::thread(watchdog).detach();
    const bool tsan = args.get("small", "0") == "1";

    const std::vector<int> sizes    = tsan ? std::vector<int>{1, 2, 3, 16} : std::vector<int>{1, 2, 3, 4, 16};
    const int              maxelem  = tsan ? 12 : (args.thorough() ? 64 : 33);
    std::vector<std::array<int, 2>> elem_chunk; // chunk 0 = index map
    for (int e = 0; e <= maxelem; ++e)
    {
        elem_chunk.push_back({e, 0});
        for (int c = 1; c <= e + 1; ++c)
        {
            elem_chunk.push_back({e, c});
        }
    }
    for (const int e : {100, 129, 257, 1000, 1025, 5000})
    {
        if (!tsan)
        {
            for (const int c : {0, 1, 7, 64, 999, e, e + 1})
            {
                elem_chunk.push_back({e, c});
            }
        }
    }
    lattice_t lat;
    lat.axis("pool_size", sizes.size(), jarr_num(sizes));
    lat.axis("elements_x_chunk", elem_chunk.size(),
             jstr("elements 0.." + std::to_string(maxelem) + " x {index map, chunk 1..elements+1}" +
                  (tsan ? "" : " + {100,129,257,1000,1025,5000} x {index,1,7,64,999,E,E+1}")));
    lat.axis("submitters", tsan ? 2 : 3, jstr(tsan ? "1,3" : "1,2,4"));
    lat.axis("thrower", 7,
             jstr("none, element 0 (raise), last element (raise), element 0 (raise=false), last (raise=false), middle element "
                  "(raise), middle (raise=false)"));
    lat.describe(r);
    for_each_case(lat, r, "free",
                  [&](const uint64_t index, const std::vector<uint64_t>& d)
                  {
                      const auto size     = static_cast<size_t>(sizes[d[0]]);
                      const auto elements = elem_chunk[d[1]][0];
                      const auto chunk    = elem_chunk[d[1]][1];
                      const int  subs     = tsan ? (d[2] == 0 ? 1 : 3) : (d[2] == 0 ? 1 : d[2] == 1 ? 2 : 4);
                      const int  thrower  = d[3] == 0 ? -1 : (d[3] == 1 || d[3] == 3) ? 0 : d[3] >= 5 ? elements / 2 : elements - 1;
                      const bool raise    = d[3] < 3 || d[3] == 5;
                      if (elements >= 100 && subs > 2)
                      {
                          return;
                      }
                      if (d[3] >= 5 && elements < 3)
                      {
                          return; // the middle element coincides with the first or the last one
                      }
                      g_current      = static_cast<int64_t>(index);
                      g_current_kind = 0;
                      const auto v   = run_case(size, elements, chunk, subs, thrower, raise);
                      g_progress.fetch_add(1);
                      r.evaluations += 1;
                      const bool parallel = size > 1 && ((chunk == 0 && elements > 1) || (chunk > 0 && chunk < elements));
                      if (parallel)
                      {
                          ++r.nontrivial;
                      }
                      r.outcome(parallel ? "dispatched-to-workers" : "ran-inline");
                      if (!v.empty())
                      {
                          r.violation("free:" + v, "free:" + std::to_string(index),
                                      jobj({{"pool_size", jint(size)}, {"elements", jint(elements)}, {"chunk", jint(chunk)},
                                            {"submitters", jint(subs)}, {"thrower", jint(thrower)}, {"raise", jint(raise)}, {"what", jstr(v)}}));
                      }
                      if (index % 1777 == 0)
                      {
                          r.sample(jobj({{"pool_size", jint(size)}, {"elements", jint(elements)}, {"chunk", jint(chunk)},
                                         {"submitters", jint(subs)}, {"thrower", jint(thrower)}}));
                      }
                  });
    lattice_t lats;
    lats.axis("pool_size", sizes.size(), jarr_num(sizes));
    lats.axis("queued_tasks", 9, jstr("0..8"));
    lats.axis("repeat", tsan ? 3 : 20, "");
    lats.describe(r, "shutdown.");
    for_each_case(lats, r, "shutdown",
                  [&](const uint64_t index, const std::vector<uint64_t>& d)
                  {
                      g_current      = static_cast<int64_t>(index);
                      g_current_kind = 1;
                      const auto v   = run_shutdown(static_cast<size_t>(sizes[d[0]]), static_cast<int>(d[1]));
                      g_progress.fetch_add(1);
                      r.evaluations += 1;
                      if (d[1] > 0)
                      {
                          ++r.nontrivial;
                      }
                      r.outcome("shutdown");
                      if (!v.empty())
                      {
                          r.violation("free:" + v, "shutdown:" + std::to_string(index),
                                      jobj({{"pool_size", jint(sizes[d[0]])}, {"tasks", jint(d[1])}}));
                      }
                  });
    r.assume("free-running stages observe whatever schedules the OS produces: they add the configuration axis (pool sizes "
             "up to 16, up to 5000 elements) and, in the tsan variant, the data-race oracle; they are not schedule-exhaustive");
    return r.finish();
}
