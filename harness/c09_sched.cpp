// C09 (schedules) — one objective evaluation (linear / gboost bias / gboost scale) on a dataset_t with W workers
// under the controlled scheduler (E1). The loss is wrapped so that every loss call is a scheduling point: a worker
// can then be preempted between filling and consuming its per-thread buffers, which is what exposes an accumulator
// or buffer that is shared between two chunks. Oracle: the value and gradient of EVERY schedule equal those of the
// one-thread evaluation (1e-9 relative), plus nothing hangs.
//
// case encoding: "S:<kind>:<W>:<N>:<batch>:<budget>|c0,c1,..."
#include "table_ds.h"
#include "verif.h"
#include "vsched.h"
#include <nano/dataset/iterator.h>
#include <nano/gboost/function.h>
#include <nano/linear/function.h>
#include <nano/loss.h>
#include <sched.h>
#include <set>
#include <unistd.h>

using namespace nano;
using namespace verif;

namespace
{
class point_loss_t final : public loss_t
{
public:
    explicit point_loss_t(const loss_t& inner)
        : loss_t("verif-point-loss")
        , m_inner(inner.clone())
    {
        convex(m_inner->convex());
        smooth(m_inner->smooth());
    }
    point_loss_t(const point_loss_t& other)
        : loss_t(other)
        , m_inner(other.m_inner->clone())
    {
    }
    rloss_t clone() const override { return std::make_unique<point_loss_t>(*this); }
    void    error(tensor4d_cmap_t t, tensor4d_cmap_t o, tensor1d_map_t e) const override
    {
        sched::point(1);
        m_inner->error(t, o, e);
    }
    void value(tensor4d_cmap_t t, tensor4d_cmap_t o, tensor1d_map_t v) const override
    {
        sched::point(2);
        m_inner->value(t, o, v);
        sched::point(3);
    }
    void vgrad(tensor4d_cmap_t t, tensor4d_cmap_t o, tensor4d_map_t g) const override
    {
        sched::point(4);
        m_inner->vgrad(t, o, g);
        sched::point(5);
    }

private:
    rloss_t m_inner;
};

struct config_t
{
    int kind = 0; ///< 0 linear, 1 gboost bias, 2 gboost scale
    int W = 2, N = 6, batch = 2, budget = 1;
    std::string str() const
    {
        char buf[64];
        std::snprintf(buf, sizeof(buf), "S:%d:%d:%d:%d:%d", kind, W, N, batch, budget);
        return buf;
    }
};

struct context_t
{
    config_t                                cfg;
    report_t*                               r = nullptr;
    std::unique_ptr<vt::table_datasource_t> source;
    std::unique_ptr<point_loss_t>           loss;
    vector_t                                x;
    double                                  fx = 0;
    vector_t                                gx;
    double                                  ref_fx = 0;
    vector_t                                ref_gx;
    tensor4d_t                              soutputs, woutputs;
    int                                     violations_here = 0;
    uint64_t                                preempted = 0;
    std::set<std::string>*                  dummy = nullptr;
};

std::unique_ptr<vt::table_datasource_t> make_source(const int N)
{
    std::vector<vt::column_t> cols = {vt::make_scalar("x0"), vt::make_scalar("x1"), vt::make_scalar("y")};
    for (size_t c = 0; c < cols.size(); ++c)
    {
        cols[c].values.resize(static_cast<size_t>(N));
        for (int s = 0; s < N; ++s)
        {
            if (c == 0 && s == 1)
            {
                continue; // one missing value
            }
            cols[c].values[static_cast<size_t>(s)] = std::vector<double>{vt::generic(static_cast<uint64_t>(s), c)};
        }
    }
    auto src = std::make_unique<vt::table_datasource_t>(N, std::move(cols), 2);
    src->load();
    return src;
}

void evaluate(context_t& c, const size_t threads)
{
    auto dataset = dataset_t{*c.source, threads};
    vt::add_identity_generators(dataset);
    const auto samples = arange(0, c.cfg.N);
    if (c.cfg.kind == 0)
    {
        auto iterator = flatten_iterator_t{dataset, samples};
        iterator.batch(c.cfg.batch);
        iterator.scaling(scaling_type::standard);
        const auto function = linear::function_t{iterator, *c.loss, 0.5, 2.0};
        c.gx.resize(function.size());
        c.fx = function.vgrad(c.x.slice(0, function.size()), c.gx);
    }
    else
    {
        auto iterator = targets_iterator_t{dataset, samples};
        iterator.batch(c.cfg.batch);
        iterator.scaling(scaling_type::none);
        if (c.cfg.kind == 1)
        {
            const auto function = gboost::bias_function_t{iterator, *c.loss};
            c.gx.resize(function.size());
            c.fx = function.vgrad(c.x.slice(0, function.size()), c.gx);
        }
        else
        {
            cluster_t cluster(c.cfg.N, 2);
            for (tensor_size_t i = 0; i < c.cfg.N; ++i)
            {
                if (i % 3 != 1)
                {
                    cluster.assign(i, i % 2);
                }
            }
            const auto function = gboost::scale_function_t{iterator, *c.loss, cluster, c.soutputs, c.woutputs};
            c.gx.resize(function.size());
            c.fx = function.vgrad(c.x.slice(0, function.size()), c.gx);
        }
    }
}

void body(void* p)
{
    auto& c = *static_cast<context_t*>(p);
    evaluate(c, static_cast<size_t>(c.cfg.W));
}

std::string choices_str(const int* ch, const int n)
{
    std::string s;
    for (int i = 0; i < n; ++i)
    {
        s += (i ? "," : "") + std::to_string(ch[i]);
    }
    return s;
}

void violation(context_t& c, const std::string& what, const int* ch, const int n, const std::string& detail)
{
    ++c.violations_here;
    c.r->violation("sched:" + what, c.cfg.str() + "|" + choices_str(ch, n),
                   jobj({{"config", jstr(c.cfg.str())}, {"what", jstr(what)}, {"detail", jstr(detail)}}));
}

bool after(void* p, const int* ch, const int n)
{
    auto& c = *static_cast<context_t*>(p);
    if (!(std::fabs(c.fx - c.ref_fx) <= 1e-9 * (1.0 + std::fabs(c.ref_fx))))
    {
        violation(c, "value-depends-on-schedule", ch, n, "got " + std::to_string(c.fx) + " expected " + std::to_string(c.ref_fx));
    }
    else if (c.gx.size() != c.ref_gx.size() ||
             !((c.gx.vector() - c.ref_gx.vector()).array().abs().maxCoeff() <= 1e-9 * (1.0 + c.ref_gx.vector().array().abs().maxCoeff())))
    {
        violation(c, "gradient-depends-on-schedule", ch, n, "gradient differs from the one-thread evaluation");
    }
    if (sched::last_preemptions() > 0)
    {
        ++c.preempted;
    }
    return c.violations_here < 3;
}

[[noreturn]] void fatal(void* p, const sched::status_t why, const int* ch, const int n)
{
    auto& c = *static_cast<context_t*>(p);
    if (why == sched::ST_DIVERGED)
    {
        std::fprintf(stderr, "replay diverged for %s|%s\n", c.cfg.str().c_str(), choices_str(ch, n).c_str());
        _exit(2);
    }
    violation(c, why == sched::ST_DEADLOCK ? "deadlock" : why == sched::ST_HANG ? "hang" : "thread-leak", ch, n,
              "no execution of this schedule can complete");
    c.r->cap("exploration stopped at the first fatal schedule");
    c.r->finish();
    _exit(1);
}

void setup(context_t& c)
{
    sched::set_hw_threads(std::max(c.cfg.W, 1));
    c.source = make_source(c.cfg.N);
    c.loss   = std::make_unique<point_loss_t>(*loss_t::all().get(c.cfg.kind == 0 ? "mse" : "mae"));
    c.x      = vector_t(8);
    for (tensor_size_t i = 0; i < c.x.size(); ++i)
    {
        c.x(i) = 0.3 * static_cast<double>(i) - 0.7;
    }
    c.soutputs = tensor4d_t(make_dims(c.cfg.N, 1, 1, 1));
    c.woutputs = tensor4d_t(make_dims(c.cfg.N, 1, 1, 1));
    for (tensor_size_t i = 0; i < c.cfg.N; ++i)
    {
        c.soutputs(i) = vt::generic(static_cast<uint64_t>(i), 11);
        c.woutputs(i) = 0.5 * static_cast<double>(i % 5) - 1.0;
    }
    // reference: the same evaluation on one thread (inline, no scheduling involved)
    evaluate(c, 1);
    c.ref_fx = c.fx;
    c.ref_gx = c.gx;
    c.violations_here = 0;
}

bool parse_case(const std::string& s, config_t& k, std::vector<int>& choices)
{
    const auto bar = s.find('|');
    if (std::sscanf(s.c_str(), "S:%d:%d:%d:%d:%d", &k.kind, &k.W, &k.N, &k.batch, &k.budget) != 5)
    {
        return false;
    }
    choices.clear();
    if (bar != std::string::npos)
    {
        const char* q = s.c_str() + bar + 1;
        while (*q)
        {
            choices.push_back(static_cast<int>(std::strtol(q, const_cast<char**>(&q), 10)));
            if (*q == ',')
            {
                ++q;
            }
        }
    }
    return true;
}
} // namespace

int main(int argc, char** argv)
{
    const auto args = parse_args(argc, argv);
    report_t   r("c09/sched", args);
    context_t  c;
    c.r = &r;
    {
        cpu_set_t set;
        CPU_ZERO(&set);
        const long ncpu = sysconf(_SC_NPROCESSORS_ONLN);
        CPU_SET(static_cast<int>(args.shard % (ncpu > 0 ? ncpu : 1)), &set);
        sched_setaffinity(0, sizeof(set), &set);
    }
    (void)loss_t::all().ids();
    (void)generator_t::all().ids();
    (void)datasource_t::all().ids();

    if (!args.one.empty())
    {
        std::vector<int> choices;
        if (!parse_case(args.one, c.cfg, choices))
        {
            return 2;
        }
        setup(c);
        sched::config_t sc;
        sc.budget = c.cfg.budget;
        sched::replay(sc, body, after, fatal, &c, choices.data(), static_cast<int>(choices.size()));
        r.evaluations = 1;
        r.traces      = 1;
        return r.finish();
    }

    const int budget = static_cast<int>(args.geti("budget", 1));
    std::vector<config_t> configs;
    for (int kind = 0; kind < 3; ++kind)
    {
        for (int W = 2; W <= static_cast<int>(args.geti("maxW", 2)); ++W)
        {
            for (const auto& nb : std::vector<std::pair<int, int>>{{6, 2}, {4, 1}})
            {
                config_t k;
                k.kind = kind, k.W = W, k.N = nb.first, k.batch = nb.second, k.budget = budget;
                configs.push_back(k);
            }
        }
    }
    r.axis("objectives", jstr("linear (standard scaling, l1=0.5, l2=2), gboost bias, gboost scale (2 groups + unassigned)"));
    r.axis("workers", jstr("2.." + std::to_string(args.geti("maxW", 2))));
    r.axis("samples_x_batch", jstr("(6,2) = 3 chunks, (4,1) = 4 chunks"));
    r.axis("preemption_budget", jint(budget));
    // --split config (default): whole configurations are dealt out to the shards; --split frontier: every shard explores its
    // part of the schedule tree of every configuration (for the deep thorough bounds)
    const bool by_config = args.get("split", "config") == "config";
    for (size_t i = 0; i < configs.size(); ++i)
    {
        if (by_config && !args.mine(i))
        {
            continue;
        }
        c.cfg = configs[i];
        setup(c);
        sched::config_t sc;
        sc.budget = budget;
        sc.prune  = 1;
        sched::stats_t st;
        const double   left = args.deadline - r.elapsed();
        if (left <= 0)
        {
            r.cap("deadline: " + c.cfg.str() + " not explored");
            break;
        }
        sched::explore(sc, body, after, fatal, &c, by_config ? 0 : args.shard, by_config ? 1 : args.shards, left, &st);
        r.traces += st.executions;
        r.evaluations += st.executions;
        r.transitions += st.transitions;
        r.states += st.states;
        r.nontrivial += c.preempted;
        c.preempted = 0;
        r.outcome("config " + c.cfg.str() + " executions", st.executions);
        if (st.capped)
        {
            r.cap("deadline hit inside " + c.cfg.str());
        }
        r.sample(jobj({{"config", jstr(c.cfg.str())}, {"executions", jint(st.executions)}, {"max_decisions", jint(st.max_depth)}}));
        if (c.violations_here > 0)
        {
            break;
        }
    }
    r.assume("scheduling points: the pool's synchronisation operations and every loss call (the loss is wrapped); accesses "
             "between two such points are atomic under the scheduler, races at a finer grain are left to ThreadSanitizer (C18)");
    return r.finish();
}
