// C01 — L-BFGS/BFGS solve well-conditioned smooth convex problems, truthfully (E3, bounded exhaustive).
//
// Two lattices, selected with --stage:
//
//  quadratic : harness quadratics f(x) = 1/2 x'Ax + a'x, A = s Q diag(sigma) Q', a = -A x*, minimised by the real
//              lbfgs (history 1, 5, 20) and bfgs solvers at epsilon = 1e-8 (otherwise default configuration,
//              max_evals = 5000 so that the budget of the solver does not bind). Oracle = the statement:
//              status converged, counted evaluations (value calls + gradient calls, counted by a wrapper of the
//              harness, not by the library) <= 1500 and ||x - x*||_2 <= sqrt(n) eps max(1, |f(x)|) / lambda_min with
//              x*, lambda_min known by construction (the spectrum of every A is also verified numerically).
//
//  truthful  : 17 line-search solvers x 4 lsearch0 x 5 lsearchk x (c1, c2) x epsilon x max_evals x every registered
//              smooth benchmark function (plus harness quadratics) x 3 starts. Oracle: status converged implies
//              max|grad f(x)| / max(1, |f(x)|) < epsilon recomputed through a fresh clone of the user function at
//              the returned point (solver_state_t::gradient_test() is NOT used).
#include "verif.h"
#include <Eigen/Eigenvalues>
#include <cfloat>
#include <memory>
#include <nano/function.h>
#include <nano/solver.h>

using namespace nano;
using namespace verif;

namespace
{
using ld = long double;

// ---------------------------------------------------------------------------------------------
// harness quadratics
enum class shape
{
    equal,
    linear,
    logspaced,
    one_small,
    one_large
};

struct spectrum_t
{
    shape       kind;
    double      kappa;
    std::string name;
};

std::vector<spectrum_t> make_spectra()
{
    // the distinct members of {5 shapes} x {kappa}: "all equal" is the only shape with kappa = 1 and has no other kappa
    std::vector<spectrum_t> s;
    s.push_back({shape::equal, 1.0, "equal/kappa=1"});
    for (const auto k : {10.0, 1e2, 1e3})
    {
        char buf[32];
        std::snprintf(buf, sizeof(buf), "%g", k);
        s.push_back({shape::linear, k, std::string("linear/kappa=") + buf});
        s.push_back({shape::logspaced, k, std::string("log-spaced/kappa=") + buf});
        s.push_back({shape::one_small, k, std::string("one-small/kappa=") + buf});
        s.push_back({shape::one_large, k, std::string("one-large/kappa=") + buf});
    }
    return s;
}

/// eigenvalues in [1, kappa] (before the curvature scale s); n = 1 has the single eigenvalue 1
std::vector<double> make_sigma(const int n, const spectrum_t& sp)
{
    std::vector<double> sigma(static_cast<size_t>(n), 1.0);
    if (n == 1)
    {
        return sigma;
    }
    for (int i = 0; i < n; ++i)
    {
        const auto t = static_cast<double>(i) / static_cast<double>(n - 1);
        auto&      v = sigma[static_cast<size_t>(i)];
        switch (sp.kind)
        {
        case shape::equal: v = 1.0; break;
        case shape::linear: v = 1.0 + (sp.kappa - 1.0) * t; break;
        case shape::logspaced: v = (i == n - 1) ? sp.kappa : std::pow(sp.kappa, t); break;
        case shape::one_small: v = (i == 0) ? 1.0 : sp.kappa; break;
        case shape::one_large: v = (i == n - 1) ? sp.kappa : 1.0; break;
        }
    }
    return sigma;
}

const std::vector<std::string> QNAMES = {"identity", "householder(ones)", "givens(pi/5) on neighbouring pairs"};

/// orthogonal matrix (row-major, long double)
std::vector<ld> make_Q(const int n, const int kind)
{
    const auto      N = static_cast<size_t>(n);
    std::vector<ld> Q(N * N, 0.0L);
    for (size_t i = 0; i < N; ++i)
    {
        Q[i * N + i] = 1.0L;
    }
    if (n == 1 || kind == 0)
    {
        return Q;
    }
    if (kind == 1)
    {
        // I - 2 vv'/v'v with v = ones
        for (size_t i = 0; i < N; ++i)
        {
            for (size_t j = 0; j < N; ++j)
            {
                Q[i * N + j] -= 2.0L / static_cast<ld>(n);
            }
        }
        return Q;
    }
    // product of Givens rotations by pi/5 in the planes (0,1), (1,2), ..., (n-2,n-1): Q <- Q * G(k,k+1)
    const ld c = std::cos(std::acos(-1.0L) / 5.0L), s = std::sin(std::acos(-1.0L) / 5.0L);
    for (size_t k = 0; k + 1 < N; ++k)
    {
        for (size_t i = 0; i < N; ++i)
        {
            const ld u       = Q[i * N + k];
            const ld v       = Q[i * N + k + 1];
            Q[i * N + k]     = c * u + s * v;
            Q[i * N + k + 1] = -s * u + c * v;
        }
    }
    return Q;
}

const std::vector<std::string> XSTARS = {"0", "5 e_1", "(-5,5,-5,...)", "(1,2,...,n) 5/n"};
std::vector<double>            make_xstar(const int n, const int kind)
{
    std::vector<double> x(static_cast<size_t>(n), 0.0);
    for (int i = 0; i < n; ++i)
    {
        auto& v = x[static_cast<size_t>(i)];
        switch (kind)
        {
        case 1: v = (i == 0) ? 5.0 : 0.0; break;
        case 2: v = (i % 2 == 0) ? -5.0 : 5.0; break;
        case 3: v = static_cast<double>(i + 1) * 5.0 / static_cast<double>(n); break;
        default: break;
        }
    }
    return x;
}

const std::vector<std::string> X0S = {"10 ones", "-10 ones", "10 (1,-1,1,...)", "10 e_n", "x* + 1e-3 ones"};
std::vector<double>            make_x0(const int n, const int kind, const std::vector<double>& xstar)
{
    std::vector<double> x(static_cast<size_t>(n), 0.0);
    for (int i = 0; i < n; ++i)
    {
        auto& v = x[static_cast<size_t>(i)];
        switch (kind)
        {
        case 0: v = 10.0; break;
        case 1: v = -10.0; break;
        case 2: v = (i % 2 == 0) ? 10.0 : -10.0; break;
        case 3: v = (i == n - 1) ? 10.0 : 0.0; break;
        default: v = xstar[static_cast<size_t>(i)] + 1e-3; break;
        }
    }
    return x;
}

struct quad_t
{
    int                 n{0};
    std::vector<double> A, a, xstar; ///< A row-major and exactly symmetric
    double              lambda_min{0}, lambda_max{0}; ///< s * min(sigma), s * max(sigma): by construction
    double              shift{0}; ///< ||A x* + a||_2 / lambda_min: distance of the minimiser of the rounded coefficients to x*
};

quad_t make_quad(const int n, const std::vector<double>& sigma, const double s, const int qkind,
                 const std::vector<double>& xstar)
{
    const auto N = static_cast<size_t>(n);
    const auto Q = make_Q(n, qkind);
    quad_t     q;
    q.n     = n;
    q.xstar = xstar;
    q.A.assign(N * N, 0.0);
    q.a.assign(N, 0.0);
    for (size_t i = 0; i < N; ++i)
    {
        for (size_t j = i; j < N; ++j)
        {
            ld v = 0;
            for (size_t k = 0; k < N; ++k)
            {
                v += Q[i * N + k] * static_cast<ld>(sigma[k]) * Q[j * N + k];
            }
            q.A[i * N + j] = q.A[j * N + i] = static_cast<double>(static_cast<ld>(s) * v);
        }
    }
    for (size_t i = 0; i < N; ++i)
    {
        ld v = 0;
        for (size_t j = 0; j < N; ++j)
        {
            v += static_cast<ld>(q.A[i * N + j]) * static_cast<ld>(xstar[j]);
        }
        q.a[i] = static_cast<double>(-v);
    }
    double lo = sigma[0], hi = sigma[0];
    for (const auto v : sigma)
    {
        lo = std::min(lo, v);
        hi = std::max(hi, v);
    }
    q.lambda_min = s * lo;
    q.lambda_max = s * hi;
    ld r2        = 0;
    for (size_t i = 0; i < N; ++i)
    {
        ld v = static_cast<ld>(q.a[i]);
        for (size_t j = 0; j < N; ++j)
        {
            v += static_cast<ld>(q.A[i * N + j]) * static_cast<ld>(xstar[j]);
        }
        r2 += v * v;
    }
    q.shift = static_cast<double>(std::sqrt(r2) / static_cast<ld>(q.lambda_min));
    return q;
}

/// f(x) = 1/2 x'Ax + a'x exactly as a user would write it (dense A, plain double arithmetic)
class hquad_t final : public function_t
{
public:
    explicit hquad_t(std::shared_ptr<const quad_t> q, const std::string& id = "hquad")
        : function_t(id, q->n)
        , m_q(std::move(q))
    {
        convex(convexity::yes);
        smooth(smoothness::yes);
        strong_convexity(m_q->lambda_min);
    }

    rfunction_t clone() const override { return std::make_unique<hquad_t>(*this); }

    scalar_t do_vgrad(vector_cmap_t x, vector_map_t gx) const override
    {
        const auto   N  = static_cast<size_t>(m_q->n);
        const auto&  A  = m_q->A;
        const auto&  a  = m_q->a;
        const double* px = x.data();
        double       fx = 0;
        const bool   wg = gx.size() == x.size();
        for (size_t i = 0; i < N; ++i)
        {
            double Ax = 0;
            for (size_t j = 0; j < N; ++j)
            {
                Ax += A[i * N + j] * px[j];
            }
            fx += 0.5 * px[i] * Ax + a[i] * px[i];
            if (wg)
            {
                gx(static_cast<tensor_size_t>(i)) = Ax + a[i];
            }
        }
        return fx;
    }

private:
    std::shared_ptr<const quad_t> m_q;
};

// ---------------------------------------------------------------------------------------------
// counts value and gradient evaluations independently of the library (the solver sees only this object)
struct counter_t
{
    long values{0};    ///< calls that computed the function value (every call does)
    long gradients{0}; ///< calls that also computed the gradient
    long total() const { return values + gradients; }
};

class counting_function_t final : public function_t
{
public:
    counting_function_t(const function_t& f, counter_t& counter)
        : function_t(f.type_id(), f.size())
        , m_inner(f.clone())
        , m_counter(&counter)
    {
        convex(f.convex() ? convexity::yes : convexity::no);
        smooth(f.smooth() ? smoothness::yes : smoothness::no);
        strong_convexity(f.strong_convexity());
    }
    counting_function_t(const counting_function_t& o)
        : function_t(o)
        , m_inner(o.m_inner->clone())
        , m_counter(o.m_counter)
    {
    }
    rfunction_t clone() const override { return std::make_unique<counting_function_t>(*this); }
    scalar_t    do_vgrad(vector_cmap_t x, vector_map_t gx) const override
    {
        m_counter->values += 1;
        m_counter->gradients += (gx.size() == size()) ? 1 : 0;
        return m_inner->vgrad(x, gx);
    }

private:
    rfunction_t m_inner;
    counter_t*  m_counter;
};

// ---------------------------------------------------------------------------------------------
// oracles on plain numbers (so that they can be fed wrong answers)
constexpr long   MAX_EVALUATIONS = 1500;
constexpr double EPSILON_QUAD    = 1e-8;

struct quad_answer_t
{
    bool   converged{false};
    long   evaluations{0};
    double distance{0}; ///< ||x - x*||_2
    double fx{0};       ///< f at the returned point (recomputed)
};

double distance_bound(const int n, const double epsilon, const double fx, const double lambda_min, const double shift)
{
    return std::sqrt(static_cast<double>(n)) * epsilon * std::max(1.0, std::fabs(fx)) / lambda_min + shift;
}

std::vector<std::string> judge_quadratic(const quad_answer_t& r, const int n, const double lambda_min, const double shift)
{
    std::vector<std::string> bad;
    if (!r.converged)
    {
        bad.emplace_back("not-converged");
    }
    if (!(r.evaluations <= MAX_EVALUATIONS))
    {
        bad.emplace_back("more-than-1500-evaluations");
    }
    // the bound is stated for the point returned with status converged (a run that is not converged is already reported)
    if (r.converged && !(r.distance <= distance_bound(n, EPSILON_QUAD, r.fx, lambda_min, shift)))
    {
        bad.emplace_back("distance-to-minimiser-above-bound");
    }
    return bad;
}

/// max|g_i| / max(1, |f|): NaN anywhere gives NaN (so that "< epsilon" is false)
double gradient_criterion(const std::vector<double>& g, const double f)
{
    double m = 0;
    for (const auto v : g)
    {
        if (std::isnan(v))
        {
            return std::numeric_limits<double>::quiet_NaN();
        }
        m = std::max(m, std::fabs(v));
    }
    if (std::isnan(f))
    {
        return std::numeric_limits<double>::quiet_NaN();
    }
    return m / std::max(1.0, std::fabs(f));
}

/// the implication of the statement: true when it holds
bool judge_truthful(const bool converged, const double criterion, const double epsilon)
{
    return !converged || criterion < epsilon;
}

/// a run that reported `converged`, judged on the returned (fx, gx) and on (f2, g2) recomputed at the returned x
enum class truth
{
    met,              ///< recomputed criterion < epsilon
    within_rounding,  ///< missed by rounding only: returned values agree to 1e-13 and their own criterion is < epsilon
    criterion_not_met, ///< the returned state is the function at the returned point and does not meet the criterion
    other_point       ///< the returned (fx, gx) are not those of the returned x: the criterion was met somewhere else
};

struct truth_t
{
    truth  verdict{truth::met};
    bool   bitwise{false}, close{false};
    double criterion{0}, criterion_state{0};
};

truth_t judge_converged(const double sfx, const std::vector<double>& sgx, const double f2, const std::vector<double>& g2,
                        const double epsilon)
{
    truth_t t;
    t.criterion       = gradient_criterion(g2, f2);
    t.criterion_state = gradient_criterion(sgx, sfx);
    t.bitwise         = sgx.size() == g2.size() &&
                (g2.empty() || std::memcmp(sgx.data(), g2.data(), g2.size() * sizeof(double)) == 0) &&
                std::memcmp(&sfx, &f2, sizeof(double)) == 0;
    t.close = sgx.size() == g2.size() && std::fabs(sfx - f2) <= 1e-13 * std::max(std::fabs(sfx), std::fabs(f2));
    double scale = 0;
    for (const auto v : g2)
    {
        scale = std::max(scale, std::fabs(v));
    }
    for (size_t i = 0; t.close && i < g2.size(); ++i)
    {
        t.close = std::fabs(sgx[i] - g2[i]) <= 1e-13 * scale;
    }
    if (judge_truthful(true, t.criterion, epsilon))
    {
        t.verdict = truth::met;
    }
    else if (t.bitwise || (t.close && !(t.criterion_state < epsilon)))
    {
        t.verdict = truth::criterion_not_met;
    }
    else if (t.close)
    {
        t.verdict = truth::within_rounding;
    }
    else
    {
        t.verdict = truth::other_point;
    }
    return t;
}

bool self_test()
{
    bool ok = true;
    // quadratic clause
    quad_answer_t good{true, 1500, 1e-9, 0.5};
    ok = ok && judge_quadratic(good, 4, 1.0, 0.0).empty(); // bound = 2e-8
    auto r = good;
    r.converged = false;
    ok          = ok && judge_quadratic(r, 4, 1.0, 0.0) == std::vector<std::string>{"not-converged"};
    r.distance  = 1.0; // not converged: reported once, as not converged
    ok          = ok && judge_quadratic(r, 4, 1.0, 0.0) == std::vector<std::string>{"not-converged"};
    r           = good;
    r.evaluations = 1501;
    ok            = ok && judge_quadratic(r, 4, 1.0, 0.0) == std::vector<std::string>{"more-than-1500-evaluations"};
    r          = good;
    r.distance = 2.1e-8;
    ok         = ok && judge_quadratic(r, 4, 1.0, 0.0) == std::vector<std::string>{"distance-to-minimiser-above-bound"};
    r.distance = 1.9e-8;
    ok         = ok && judge_quadratic(r, 4, 1.0, 0.0).empty();
    r.distance = 1.9e-8; // smaller lambda_min loosens, larger tightens; |f| > 1 loosens
    ok         = ok && !judge_quadratic(r, 4, 2.0, 0.0).empty();
    r.fx       = -3.0;
    ok         = ok && judge_quadratic(r, 4, 2.0, 0.0).empty();
    r.distance = std::numeric_limits<double>::quiet_NaN();
    ok         = ok && !judge_quadratic(r, 4, 1.0, 0.0).empty();
    // truthfulness clause
    ok = ok && judge_truthful(true, 0.9e-6, 1e-6) && !judge_truthful(true, 1e-6, 1e-6);
    ok = ok && !judge_truthful(true, std::numeric_limits<double>::quiet_NaN(), 1e-6);
    ok = ok && judge_truthful(false, 1.0, 1e-6);
    ok = ok && gradient_criterion({3.0, -4.0}, 0.5) == 4.0 && gradient_criterion({3.0, -4.0}, -8.0) == 0.5;
    ok = ok && std::isnan(gradient_criterion({std::numeric_limits<double>::quiet_NaN()}, 1.0));
    ok = ok && judge_converged(0.5, {1e-7, -2e-7}, 0.5, {1e-7, -2e-7}, 1e-6).verdict == truth::met;
    ok = ok && judge_converged(0.5, {1e-7, -2e-6}, 0.5, {1e-7, -2e-6}, 1e-6).verdict == truth::criterion_not_met;
    ok = ok && judge_converged(0.5, {1e-7, -2e-7}, 0.5, {1e-7, -2e-6}, 1e-6).verdict == truth::other_point;
    ok = ok && judge_converged(0.7, {1e-7, -2e-7}, 0.5, {1e-7, -2e-6}, 1e-6).verdict == truth::other_point;
    ok = ok && judge_converged(0.5, {0.0, std::nextafter(1e-6, 0.0)}, 0.5, {0.0, 1e-6}, 1e-6).verdict == truth::within_rounding;
    // the harness quadratic and the counting wrapper: n = 2, A = diag(2, 4), x* = (1, -1): f = x0^2 + 2 x1^2 - 2 x0 + 4 x1
    {
        auto q        = std::make_shared<quad_t>(make_quad(2, {1.0, 2.0}, 2.0, 0, {1.0, -1.0}));
        ok            = ok && q->lambda_min == 2.0 && q->lambda_max == 4.0 && q->shift == 0.0;
        const auto f  = hquad_t{q};
        counter_t  c;
        const auto w = counting_function_t{f, c};
        vector_t   x(2), g(2);
        x(0) = 3.0;
        x(1) = 2.0;
        ok   = ok && w.vgrad(x, g) == 9.0 + 8.0 - 6.0 + 8.0 && g(0) == 4.0 && g(1) == 12.0;
        ok   = ok && w.vgrad(x) == 19.0 && c.values == 2 && c.gradients == 1 && c.total() == 3;
    }
    return ok;
}

// ---------------------------------------------------------------------------------------------
std::vector<double> to_std(const vector_t& v)
{
    return {v.data(), v.data() + v.size()};
}

vector_t to_vector(const std::vector<double>& v)
{
    vector_t x(static_cast<tensor_size_t>(v.size()));
    for (size_t i = 0; i < v.size(); ++i)
    {
        x(static_cast<tensor_size_t>(i)) = v[i];
    }
    return x;
}

bool same_bits(const std::vector<double>& a, const std::vector<double>& b)
{
    return a.size() == b.size() && (a.empty() || std::memcmp(a.data(), b.data(), a.size() * sizeof(double)) == 0);
}

std::string status_name(const solver_status s)
{
    switch (s)
    {
    case solver_status::converged: return "converged";
    case solver_status::max_iters: return "max_iters";
    case solver_status::failed: return "failed";
    case solver_status::unfeasible: return "unfeasible";
    default: return "unbounded";
    }
}

template <class T>
std::string bucket(const T v, const std::vector<T>& edges, const char* fmt)
{
    for (const auto e : edges)
    {
        if (v <= e)
        {
            char buf[48];
            std::snprintf(buf, sizeof(buf), fmt, e);
            return std::string("<=") + buf;
        }
    }
    char buf[48];
    std::snprintf(buf, sizeof(buf), fmt, edges.back());
    return std::string(">") + buf;
}

// ---------------------------------------------------------------------------------------------
struct solver_config_t
{
    std::string id;
    int         history; ///< lbfgs only (0: not set)
    std::string name;
    bool        full;    ///< default configuration: all three clauses; otherwise the truthfulness clause only
};

int stage_quadratic(const args_t& args)
{
    report_t r("c01/quadratic", args);

    // the whole lattice of the design costs about a second, so both tiers enumerate all of it
    const std::vector<int>    dims    = {1, 2, 3, 4, 5, 8, 11, 13, 16};
    const auto                spectra = make_spectra();
    // the three corners of the stated range first, then a geometric ladder through it (weakly curved problems are where a
    // quasi-Newton update with a wrong scale needs the most line-search work: seed C01-c)
    const std::vector<double> scales  = {1.0, 1e-3, 1e3, 2.4e-3, 5e-3, 1e-2, 3e-2, 0.1, 10.0, 100.0};
    const std::vector<solver_config_t> solvers = {{"lbfgs", 20, "lbfgs (history 20 = default)", true},
                                                  {"bfgs", 0, "bfgs", true},
                                                  {"lbfgs", 5, "lbfgs history 5 (truthfulness only)", false},
                                                  {"lbfgs", 1, "lbfgs history 1 (truthfulness only)", false}};
    const std::vector<std::string>     solver_keys = {"lbfgs-h20", "bfgs", "lbfgs-h5", "lbfgs-h1"};

    // verify numerically that every A has the spectrum it is meant to have (and Q is orthogonal through that)
    double worst_spectrum_error = 0;
    for (const auto n : dims)
    {
        for (const auto& sp : spectra)
        {
            for (const auto s : scales)
            {
                for (int qk = 0; qk < 3; ++qk)
                {
                    const auto sigma = make_sigma(n, sp);
                    const auto q     = make_quad(n, sigma, s, qk, make_xstar(n, 3));
                    Eigen::Matrix<double, Eigen::Dynamic, Eigen::Dynamic> A(n, n);
                    for (int i = 0; i < n; ++i)
                    {
                        for (int j = 0; j < n; ++j)
                        {
                            A(i, j) = q.A[static_cast<size_t>(i * n + j)];
                        }
                    }
                    const Eigen::SelfAdjointEigenSolver<Eigen::MatrixXd> es(A, Eigen::EigenvaluesOnly);
                    auto expected = sigma;
                    std::sort(expected.begin(), expected.end());
                    for (int i = 0; i < n; ++i)
                    {
                        const auto e = std::fabs(es.eigenvalues()(i) - s * expected[static_cast<size_t>(i)]) / q.lambda_max;
                        worst_spectrum_error = std::max(worst_spectrum_error, e);
                    }
                    const auto kappa = (n == 1) ? 1.0 : sp.kappa;
                    if (!(std::fabs(q.lambda_max / q.lambda_min - kappa) <= 1e-12 * kappa) || !(kappa <= 1e3) ||
                        !(q.lambda_min >= 1e-3 * (1 - 1e-12)) || !(q.shift <= 1e-9))
                    {
                        std::fprintf(stderr, "harness quadratic outside the stated class\n");
                        return 2;
                    }
                }
            }
        }
    }
    if (!(worst_spectrum_error <= 1e-12))
    {
        std::fprintf(stderr, "harness quadratic: spectrum of A is not the constructed one (%g)\n", worst_spectrum_error);
        return 2;
    }

    std::vector<std::string> spectrum_names;
    for (const auto& sp : spectra)
    {
        spectrum_names.push_back(sp.name);
    }
    std::vector<std::string> solver_names;
    for (const auto& s : solvers)
    {
        solver_names.push_back(s.name);
    }

    lattice_t lat;
    lat.axis("n", dims.size(), jarr_num(dims));
    lat.axis("spectrum", spectra.size(), jarr_str(spectrum_names));
    lat.axis("s", scales.size(), jarr_num(scales));
    lat.axis("Q", QNAMES.size(), jarr_str(QNAMES));
    lat.axis("x*", XSTARS.size(), jarr_str(XSTARS));
    lat.axis("x0", X0S.size(), jarr_str(X0S));
    lat.axis("solver", solvers.size(), jarr_str(solver_names));
    lat.describe(r);
    r.assume("A = s Q diag(sigma) Q' is formed in long double, rounded to double and stored exactly symmetric; a = -A x* "
             "rounded to double; the function is evaluated as 1/2 x'Ax + a'x in plain double arithmetic");
    r.assume("the spectrum of every A was verified with a symmetric eigen-solver: worst |lambda_i - s sigma_i| / "
             "lambda_max <= 1e-12");
    r.assume("the distance bound is enlarged by ||A x* + a||_2 / lambda_min (<= 1e-9, zero for x* = 0): the distance "
             "between x* and the exact minimiser of the quadratic with the rounded coefficients");
    r.assume("members of the product that coincide with a simpler member (n = 1: one spectrum, one Q; n = 2: the four "
             "shapes coincide; coinciding x*, x0) are skipped, not counted");
    r.assume("the convergence clause (status converged, <= 1500 counted evaluations, distance bound) is judged for the "
             "default configurations only (lbfgs with its default history 20, bfgs), as the statement words it; lbfgs "
             "with history 1 and 5 is held to the truthfulness clause (converged => recomputed criterion < epsilon, "
             "returned fx/gx are those of the returned x) and its evaluation counts / non-convergences are recorded as "
             "outcomes '...(not judged)'");
    r.assume("solver::epsilon = 1e-8, solver::max_evals = 5000 (so that the budget of the solver does not bind before "
             "the 1500 of the statement), everything else as constructed by solver_t::all().get(id)");
    r.note("worst_relative_spectrum_error", jstr(jnum(worst_spectrum_error)));

    // C01_TRACE=1 with --case q:<index> prints the solver's own log of that run (triage aid, no effect on the verdict)
    const auto logger = std::getenv("C01_TRACE") != nullptr ? make_stderr_logger() : make_null_logger();

    std::vector<long>     max_evaluations(solvers.size(), 0);
    std::vector<uint64_t> max_evaluations_case(solvers.size(), 0);
    std::vector<double>   max_ratio(solvers.size(), 0.0);

    for_each_case(lat, r, "q", [&](const uint64_t index, const std::vector<uint64_t>& d) {
        const auto  n  = dims[d[0]];
        const auto& sp = spectra[d[1]];
        const auto  s  = scales[d[2]];
        const auto  qk = static_cast<int>(d[3]);
        const auto  xk = static_cast<int>(d[4]);
        const auto  sk = static_cast<int>(d[5]);
        const auto& sc = solvers[d[6]];

        // skip members that coincide with a simpler one (same digits elsewhere)
        const auto sigma = make_sigma(n, sp);
        const auto xstar = make_xstar(n, xk);
        const auto x0    = make_x0(n, sk, xstar);
        bool       dup   = false;
        for (uint64_t j = 0; j < d[1] && !dup; ++j)
        {
            dup = make_sigma(n, spectra[j]) == sigma;
        }
        for (int j = 0; j < qk && !dup; ++j)
        {
            dup = make_Q(n, j) == make_Q(n, qk);
        }
        for (int j = 0; j < xk && !dup; ++j)
        {
            dup = make_xstar(n, j) == xstar;
        }
        for (int j = 0; j < sk && !dup; ++j)
        {
            dup = make_x0(n, j, xstar) == x0;
        }
        if (dup)
        {
            r.outcome("skipped:coincides-with-a-simpler-member");
            return;
        }

        r.evaluations += 1;
        const auto q = std::make_shared<quad_t>(make_quad(n, sigma, s, qk, xstar));
        const auto f = hquad_t{q};

        counter_t  counter;
        const auto wrapped = counting_function_t{f, counter};

        auto solver = solver_t::all().get(sc.id);
        if (!solver)
        {
            std::fprintf(stderr, "unknown solver %s\n", sc.id.c_str());
            std::exit(2);
        }
        solver->parameter("solver::epsilon")   = EPSILON_QUAD;
        solver->parameter("solver::max_evals") = 5000;
        if (sc.id == "lbfgs")
        {
            solver->parameter("solver::lbfgs::history") = sc.history;
        }

        std::string    thrown;
        solver_state_t state;
        try
        {
            state = solver->minimize(wrapped, to_vector(x0), logger);
        }
        catch (const std::exception& e)
        {
            thrown = e.what();
        }

        const auto one = "q:" + std::to_string(index);
        // the minimum value is 0 for x* = 0 (the criterion is then absolute: max|g| < epsilon) and negative otherwise
        const auto key = "quadratic:" + solver_keys[d[6]] + (xk == 0 ? ":fmin=0:" : ":fmin<0:");
        const auto describe = [&](const std::vector<std::pair<std::string, std::string>>& more) {
            std::string o = "{";
            o += jstr("n") + ":" + jint(n) + "," + jstr("spectrum") + ":" + jstr(sp.name) + "," + jstr("sigma") + ":" +
                 jarr_num(sigma) + "," + jstr("s") + ":" + jnum(s) + "," + jstr("Q") + ":" + jstr(QNAMES[d[3]]) + "," +
                 jstr("x*") + ":" + jarr_num(xstar) + "," + jstr("x0") + ":" + jarr_num(x0) + "," + jstr("solver") +
                 ":" + jstr(sc.name) + "," + jstr("lambda_min") + ":" + jnum(q->lambda_min) + "," +
                 jstr("lambda_max") + ":" + jnum(q->lambda_max);
            for (const auto& [k, v] : more)
            {
                o += "," + jstr(k) + ":" + v;
            }
            return o + "}";
        };

        if (!thrown.empty())
        {
            r.outcome("exception");
            if (sc.full)
            {
                r.violation(key + "exception", one, describe({{"exception", jstr(thrown)}}));
            }
            return;
        }

        // the oracle: everything recomputed from a fresh clone of the user function at the returned point
        const auto sx = to_std(state.x());
        quad_answer_t ans;
        ans.converged   = state.status() == solver_status::converged;
        ans.evaluations = counter.total();
        std::vector<double> g2(sx.size(), 0.0);
        if (static_cast<int>(sx.size()) == n)
        {
            const auto fresh = f.clone();
            vector_t   g(n);
            ans.fx = fresh->vgrad(state.x(), g);
            g2     = to_std(g);
            ld d2  = 0;
            for (size_t i = 0; i < sx.size(); ++i)
            {
                const ld e = static_cast<ld>(sx[i]) - static_cast<ld>(xstar[i]);
                d2 += e * e;
            }
            ans.distance = static_cast<double>(std::sqrt(d2));
        }
        else
        {
            ans.distance = std::numeric_limits<double>::quiet_NaN();
            ans.fx       = std::numeric_limits<double>::quiet_NaN();
        }
        const auto bound = distance_bound(n, EPSILON_QUAD, ans.fx, q->lambda_min, q->shift);
        const auto ratio = ans.distance / bound;
        const auto crit  = gradient_criterion(g2, ans.fx);
        const auto sgx   = to_std(state.gx());
        const auto truth = judge_converged(state.fx(), sgx, ans.fx, g2, EPSILON_QUAD);

        const auto detail = [&]() {
            return describe({{"status", jstr(status_name(state.status()))},
                             {"counted_value_calls", jint(counter.values)},
                             {"counted_gradient_calls", jint(counter.gradients)},
                             {"counted_evaluations", jint(ans.evaluations)},
                             {"allowed_evaluations", jint(MAX_EVALUATIONS)},
                             {"reported_fcalls", jint(state.fcalls())},
                             {"reported_gcalls", jint(state.gcalls())},
                             {"x", jarr_num(sx)},
                             {"f(x)", jnum(ans.fx)},
                             {"state.fx", jnum(state.fx())},
                             {"state.gx", jarr_num(sgx)},
                             {"grad f(x)", jarr_num(g2)},
                             {"criterion_from_returned_state", jnum(truth.criterion_state)},
                             {"recomputed_gradient_criterion", jnum(crit)},
                             {"epsilon", jnum(EPSILON_QUAD)},
                             {"distance", jnum(ans.distance)},
                             {"distance_bound", jnum(bound)},
                             {"rounding_shift_in_bound", jnum(q->shift)}});
        };

        // convergence clause (converged, <= 1500 evaluations, distance bound): the statement words it for "the L-BFGS or
        // BFGS solver at epsilon = 1e-8", i.e. the default configurations; for lbfgs history 1 and 5 the same facts are
        // recorded as outcomes and not judged
        for (const auto& b : judge_quadratic(ans, n, q->lambda_min, q->shift))
        {
            if (sc.full)
            {
                r.violation(key + b + (b == "not-converged" ? ":" + status_name(state.status()) : ""), one, detail());
            }
            else
            {
                r.outcome(solver_keys[d[6]] + ":" + b + "(not judged)");
            }
        }
        // truthfulness clause and honesty of the returned (fx, gx): every configuration
        if (ans.converged)
        {
            switch (truth.verdict)
            {
            case truth::criterion_not_met:
                r.violation(key + "converged-but-recomputed-criterion>=epsilon", one, detail());
                break;
            case truth::other_point:
                r.violation(key + "converged-at-a-point-that-is-not-the-returned-one", one, detail());
                break;
            case truth::within_rounding: r.outcome("converged:criterion-within-rounding-of-epsilon"); break;
            default:
                if (!truth.bitwise)
                {
                    r.outcome(truth.close ? "converged:returned-gx-equal-to-recomputed-up-to-rounding"
                                          : "converged:returned-gx-differs-from-recomputed(criterion-still-met)");
                }
                break;
            }
        }

        // non-trivial: the solver had to iterate (more than the evaluation at x0) and reported convergence
        if (ans.converged && counter.values > 1)
        {
            ++r.nontrivial;
        }
        r.outcome(status_name(state.status()) + (counter.values > 1 ? "" : ":at-x0"));
        const std::string judged = sc.full ? "judged:" : "not-judged:";
        r.outcome(judged + "evaluations" + bucket<long>(ans.evaluations, {2, 25, 50, 100, 200, 400, 800, 1500}, "%ld"));
        r.outcome(judged + "distance/bound" + bucket<double>(ratio, {1e-6, 1e-4, 1e-2, 0.1, 0.5, 1.0}, "%g"));
        if (ans.evaluations > max_evaluations[d[6]])
        {
            max_evaluations[d[6]]      = ans.evaluations;
            max_evaluations_case[d[6]] = index;
        }
        if (std::isfinite(ratio))
        {
            max_ratio[d[6]] = std::max(max_ratio[d[6]], ratio);
        }
        if (index % 4999 == 0)
        {
            r.sample(detail());
        }
    });

    char key[64];
    std::snprintf(key, sizeof(key), "maxima/shard%02d", args.shard);
    std::string maxima = "{";
    for (size_t i = 0; i < solvers.size(); ++i)
    {
        maxima += (i ? "," : "") + jstr(solver_keys[i]) + ":" +
                  jobj({{"max_counted_evaluations", jint(max_evaluations[i])},
                        {"at_case", jstr("q:" + std::to_string(max_evaluations_case[i]))},
                        {"max_distance/bound", jnum(max_ratio[i])}});
    }
    r.note(key, maxima + "}");
    return r.finish();
}

// ---------------------------------------------------------------------------------------------
struct tfn_t
{
    rfunction_t f;
    std::string name;
};

int stage_truthful(const args_t& args)
{
    report_t r("c01/truthful", args);

    // the 17 line-search solvers, as the factory classifies them
    std::vector<std::string> solver_ids;
    for (const auto& id : solver_t::all().ids())
    {
        const auto s = solver_t::all().get(id);
        if (s && s->type() == solver_type::line_search)
        {
            solver_ids.push_back(id);
        }
    }
    const std::vector<std::string> expected_solvers = {"gd",      "cgd-n",    "cgd-hs",   "cgd-fr",   "cgd-pr", "cgd-cd",
                                                       "cgd-ls",  "cgd-dy",   "cgd-dycd", "cgd-dyhs", "cgd-frpr", "lbfgs",
                                                       "dfp",     "sr1",      "bfgs",     "hoshino",  "fletcher"};
    {
        auto a = solver_ids, b = expected_solvers;
        std::sort(a.begin(), a.end());
        std::sort(b.begin(), b.end());
        if (a != b)
        {
            std::fprintf(stderr, "the line-search solvers are not the 17 of the statement\n");
            return 2;
        }
        solver_ids = expected_solvers; // simplest first
    }
    const std::vector<std::string> lsearch0_ids = {"quadratic", "constant", "linear", "cgdescent"};
    const std::vector<std::string> lsearchk_ids = {"cgdescent", "morethuente", "backtrack", "fletcher", "lemarechal"};
    {
        auto a = lsearch0_t::all().ids(), b = lsearch0_ids;
        std::sort(a.begin(), a.end());
        std::sort(b.begin(), b.end());
        auto c = lsearchk_t::all().ids(), e = lsearchk_ids;
        std::sort(c.begin(), c.end());
        std::sort(e.begin(), e.end());
        if (a != b || c != e)
        {
            std::fprintf(stderr, "the registered lsearch0/lsearchk ids are not the 4 x 5 of the statement\n");
            return 2;
        }
    }

    // thinning rule (stated, not sampled): the tiers differ in the dimensions of the registered functions only
    const bool                                   T       = args.thorough();
    const std::vector<std::pair<double, double>> all_c12 = {{1e-4, 0.9}, {1e-4, 0.1}, {0.1, 0.9}, {1e-6, 1.0 - 1e-6}};
    const auto c12s = all_c12;
    const auto epss = std::vector<double>{1e-2, 1e-6, 1e-12};
    const auto maxs = std::vector<int>{50, 1000};
    const auto dims = T ? std::vector<tensor_size_t>{1, 2, 3, 4, 8, 16, 32} : std::vector<tensor_size_t>{1, 2, 4, 8};
    const std::vector<std::string> starts = {"ones", "10 (1,-1,1,...)", "-10 ones"};

    // functions: harness quadratics first, then every registered smooth function by increasing dimension
    std::vector<tfn_t>       fns;
    std::vector<std::string> names;
    {
        const spectrum_t logk{shape::logspaced, 1e3, "log-spaced/kappa=1e3"};
        for (const double s : {1e-3, 1e3})
        {
            const auto q = std::make_shared<quad_t>(make_quad(4, make_sigma(4, logk), s, 2, make_xstar(4, 3)));
            fns.push_back({std::make_unique<hquad_t>(q, s < 1 ? "hquad-log-k1e3-s1e-3" : "hquad-log-k1e3-s1e3"), ""});
        }
    }
    const long summands = args.geti("summands", 10);
    for (const auto n : dims)
    {
        for (const auto& id : function_t::all().ids())
        {
            const auto proto = function_t::all().get(id);
            if (!proto || !proto->smooth())
            {
                continue;
            }
            auto f = proto->make(n, summands);
            if (!f || !f->smooth() || !f->constraints().empty())
            {
                continue;
            }
            fns.push_back({std::move(f), ""});
        }
    }
    {
        // some functions clamp the number of dimensions: keep one of each name
        std::vector<tfn_t> uniq;
        for (auto& fn : fns)
        {
            fn.name = fn.f->name();
            if (std::find(names.begin(), names.end(), fn.name) == names.end())
            {
                names.push_back(fn.name);
                uniq.push_back(std::move(fn));
            }
        }
        fns = std::move(uniq);
    }

    std::vector<std::string> c12_names;
    for (const auto& [c1, c2] : c12s)
    {
        c12_names.push_back("(" + jnum(c1) + "," + jnum(c2) + ")");
    }

    lattice_t lat;
    lat.axis("function", fns.size(), jarr_str(names));
    lat.axis("x0", starts.size(), jarr_str(starts));
    lat.axis("solver", solver_ids.size(), jarr_str(solver_ids));
    lat.axis("lsearch0", lsearch0_ids.size(), jarr_str(lsearch0_ids));
    lat.axis("lsearchk", lsearchk_ids.size(), jarr_str(lsearchk_ids));
    lat.axis("(c1,c2)", c12s.size(), jarr_str(c12_names));
    lat.axis("epsilon", epss.size(), jarr_num(epss));
    lat.axis("max_evals", maxs.size(), jarr_num(maxs));
    lat.describe(r);
    r.assume("the criterion is recomputed as max_i |g_i| / max(1, |f|) from (f, g) returned by a fresh clone of the "
             "registered function at state.x(); solver_state_t::gradient_test() is not consulted");
    r.assume("a converged run whose recomputed criterion is >= epsilon although the same formula on the returned "
             "(state.fx, state.gx) is < epsilon and the returned values agree with the recomputed ones to 1e-13 "
             "relative is counted as outcome 'converged:criterion-within-rounding-of-epsilon', not as a violation");
    r.assume("benchmark functions with random coefficients are made with the library's fixed seeds (summands = 10)");

    const auto logger = make_null_logger();

    for_each_case(lat, r, "t", [&](const uint64_t index, const std::vector<uint64_t>& d) {
        const auto& fn      = fns[d[0]];
        const auto& f       = *fn.f;
        const auto  n       = f.size();
        const auto  start   = d[1];
        const auto& sid     = solver_ids[d[2]];
        const auto& l0      = lsearch0_ids[d[3]];
        const auto& lk      = lsearchk_ids[d[4]];
        const auto [c1, c2] = c12s[d[5]];
        const auto eps      = epss[d[6]];
        const auto max_evals = maxs[d[7]];
        const auto one       = "t:" + std::to_string(index);

        r.evaluations += 1;

        vector_t x0(n);
        for (tensor_size_t i = 0; i < n; ++i)
        {
            x0(i) = start == 0 ? 1.0 : start == 1 ? ((i % 2 == 0) ? 10.0 : -10.0) : -10.0;
        }

        counter_t  counter;
        const auto wrapped = counting_function_t{f, counter};

        auto solver = solver_t::all().get(sid);
        std::string    thrown;
        solver_state_t state;
        try
        {
            solver->lsearch0(l0);
            solver->lsearchk(lk);
            solver->parameter("solver::tolerance") = std::make_tuple(c1, c2);
            solver->parameter("solver::epsilon")   = eps;
            solver->parameter("solver::max_evals") = max_evals;
            state = solver->minimize(wrapped, x0, logger);
        }
        catch (const std::exception& e)
        {
            thrown = e.what();
        }
        if (!thrown.empty())
        {
            // nothing was reported, so nothing was claimed
            r.outcome("exception");
            return;
        }

        const auto converged = state.status() == solver_status::converged;
        const auto status    = status_name(state.status());
        if (!converged)
        {
            r.outcome(status);
            r.outcome(status + "/lsearchk=" + lk);
            return;
        }

        // converged: recompute the criterion at the returned point through a fresh clone of the user function
        ++r.nontrivial;
        const auto sx  = to_std(state.x());
        const auto sgx = to_std(state.gx());
        const auto sfx = state.fx();
        double              f2 = std::numeric_limits<double>::quiet_NaN();
        std::vector<double> g2(static_cast<size_t>(n), std::numeric_limits<double>::quiet_NaN());
        if (state.x().size() == n)
        {
            const auto fresh = f.clone();
            vector_t   g(n);
            f2 = fresh->vgrad(state.x(), g);
            g2 = to_std(g);
        }
        const auto truth      = judge_converged(sfx, sgx, f2, g2, eps);
        const auto crit       = truth.criterion;
        const auto crit_state = truth.criterion_state;
        const bool bitwise    = truth.bitwise;
        const bool close      = truth.close;

        const auto detail = [&]() {
            return jobj({{"function", jstr(fn.name)},
                         {"x0", jstr(starts[start])},
                         {"solver", jstr(sid)},
                         {"lsearch0", jstr(l0)},
                         {"lsearchk", jstr(lk)},
                         {"c1", jnum(c1)},
                         {"c2", jnum(c2)},
                         {"epsilon", jnum(eps)},
                         {"max_evals", jint(max_evals)},
                         {"status", jstr(status)},
                         {"counted_evaluations", jint(counter.total())},
                         {"x", jarr_num(sx)},
                         {"state.fx", jnum(sfx)},
                         {"f(x)", jnum(f2)},
                         {"state.gx", jarr_num(sgx)},
                         {"grad f(x)", jarr_num(g2)},
                         {"criterion_from_returned_state", jnum(crit_state)},
                         {"recomputed_criterion", jnum(crit)},
                         {"required", jstr("recomputed_criterion < epsilon")}});
        };

        std::string what = "converged";
        if (truth.verdict != truth::met)
        {
            if (truth.verdict == truth::criterion_not_met)
            {
                // the returned state is the function at the returned point, and it does not meet the criterion
                r.violation("truthful:" + sid + ":converged-but-recomputed-criterion>=epsilon", one, detail());
                what = "converged:VIOLATION";
            }
            else if (truth.verdict == truth::within_rounding)
            {
                what = "converged:criterion-within-rounding-of-epsilon";
            }
            else
            {
                // the returned (fx, gx) are not those of the returned x: the criterion was met somewhere else
                r.violation("truthful:" + sid + ":converged-at-a-point-that-is-not-the-returned-one", one, detail());
                what = "converged:VIOLATION";
            }
        }
        else if (!bitwise)
        {
            what = close ? "converged:returned-gx-equal-to-recomputed-up-to-rounding"
                         : "converged:returned-gx-differs-from-recomputed(criterion-still-met)";
        }
        r.outcome(what);
        r.outcome("converged/lsearchk=" + lk);
        r.outcome(counter.values > 1 ? "converged:after-iterating" : "converged:at-x0");
        if (index % 99991 == 0)
        {
            r.sample(detail());
        }
    });

    return r.finish();
}
} // namespace

int main(int argc, char** argv)
{
    const auto args = parse_args(argc, argv);

    // oracle self-test: hand-made right answers must pass, hand-made wrong answers must be rejected
    if (!self_test())
    {
        std::fprintf(stderr, "oracle self-test failed\n");
        return 2;
    }
    if (args.stage == "quadratic")
    {
        return stage_quadratic(args);
    }
    if (args.stage == "truthful")
    {
        return stage_truthful(args);
    }
    std::fprintf(stderr, "--stage quadratic|truthful\n");
    return 2;
}
