// C16 — tensor indexing, slicing, reshaping address exactly the right elements (E3, bounded exhaustive).
// Driver: lattices, sharding, reporting. The oracle and the checks are in c16_impl.cpp (included like a header; it is
// instantiated once per scalar type by the translation units c16_t_<type>.cpp to keep the compile time bounded).
#include "c16_impl.cpp"

#if defined(__SANITIZE_ADDRESS__)
#include <sanitizer/common_interface_defs.h>
#endif

using namespace c16;

namespace
{
char g_case[96] = "CASE ?\n"; ///< the case that is running (repeated after a sanitizer report, whose length would
                              ///< otherwise push the announcement out of the log tail that the driver looks at)
void repeat_case_at_death()
{
    const auto n = ::write(2, g_case, std::strlen(g_case));
    (void)n;
}
} // namespace

int main(int argc, char** argv)
{
    const auto args  = parse_args(argc, argv);
    const auto stage = args.stage.empty() ? std::string("rel") : args.stage;
    if (stage != "rel" && stage != "asan")
    {
        std::fprintf(stderr, "unknown stage %s\n", stage.c_str());
        return 2;
    }
    g_exact = stage == "asan";
#if defined(__SANITIZE_ADDRESS__)
    __sanitizer_set_death_callback(repeat_case_at_death);
#endif
    report_t r("c16/" + stage, args);

    // scalar types of this run: --types a,b,c | all
    std::vector<std::string> types;
    {
        const auto spec = args.get("types", "all");
        if (spec == "all")
        {
            types = ALL_TYPES;
        }
        else
        {
            std::stringstream ss(spec);
            std::string       tok;
            while (std::getline(ss, tok, ','))
            {
                if (std::find(ALL_TYPES.begin(), ALL_TYPES.end(), tok) == ALL_TYPES.end())
                {
                    std::fprintf(stderr, "unknown scalar type %s\n", tok.c_str());
                    return 2;
                }
                types.push_back(tok);
            }
        }
    }
    std::vector<std::string> large_types;
    {
        std::stringstream ss(args.get("large_types", "int32,double"));
        std::string       tok;
        while (std::getline(ss, tok, ','))
        {
            large_types.push_back(tok);
        }
    }
    const std::map<std::string, const api_t*> api = {
        {"int8", api_int8()},     {"int16", api_int16()},   {"int32", api_int32()},   {"int64", api_int64()},
        {"uint8", api_uint8()},   {"uint16", api_uint16()}, {"uint32", api_uint32()}, {"uint64", api_uint64()},
        {"float", api_float()},   {"double", api_double()}};
    for (const auto* list : {&types, &large_types})
    {
        for (const auto& t : *list)
        {
            if (api.find(t) == api.end() || api.at(t) == nullptr)
            {
                std::fprintf(stderr, "scalar type %s is not compiled into this build\n", t.c_str());
                return 2;
            }
        }
    }

    // ---- oracle self-test: the odometer oracle must reject hand-made wrong answers --------------------------
    {
        const auto o = make_oracle({2, 3, 4}, 3);
        // (1, 2, 3) is the last of 24 tuples; prefix (1) starts after 12 tuples and has 12 members; prefix (1,2)
        // starts after 20 tuples
        const bool sane = o.N == 24 && o.tuple(23)[0] == 1 && o.tuple(23)[1] == 2 && o.tuple(23)[2] == 3 &&
                          o.tuple(5)[0] == 0 && o.tuple(5)[1] == 1 && o.tuple(5)[2] == 1 && o.levels[1].size() == 2 &&
                          o.levels[1][1].before == 12 && o.levels[1][1].members.size() == 12 &&
                          o.levels[2][5].before == 20 && o.levels[2][5].members == ivec({20, 21, 22, 23}) &&
                          make_oracle({2, 0, 3}, 3).N == 0 && make_oracle({2, 0, 3}, 3).levels[1].size() == 2 &&
                          make_oracle({2, 0, 3}, 3).levels[2].empty();
        // a wrong view (column-major reading of a 2x3 matrix) must be flagged by judge_view
        report_t   scratch("selftest", args);
        ctx_t      cx{scratch, "selftest:0", "int32", "[2,3]", "selftest", {}, 0, 0};
        block_t<int32_t> b(6);
        b.fill_linear();
        const ivec rowmajor = {0, 1, 2, 3, 4, 5};
        const int  colmajor[6] = {0, 3, 1, 4, 2, 5};
        judge_view<int32_t>(cx, "selftest", rowmajor, b.cp(), nullptr, 6,
                            [&](const idx_t j) { return b.cp()[colmajor[j]]; }, none_t{}, none_t{}, {}, true);
        const bool rejects = scratch.violation_count() == 1;
        report_t   scratch2("selftest", args);
        ctx_t      cx2{scratch2, "selftest:0", "int32", "[2,3]", "selftest", {}, 0, 0};
        judge_view<int32_t>(cx2, "selftest", rowmajor, b.cp(), nullptr, 6, [&](const idx_t j) { return b.cp()[j]; },
                            none_t{}, none_t{}, {}, true);
        const bool accepts = scratch2.violation_count() == 0;
        // reshape alphabet: 12 has 6 one/two-factor explicit factorisations + 1 (one factor)...
        size_t explicit12 = 0, inferred0 = 0;
        for (const auto& f : reshape_alphabet(12, 2))
        {
            explicit12 += f.given == f.expected ? 1 : 0;
        }
        for (const auto& f : reshape_alphabet(0, 2))
        {
            inferred0 += f.given != f.expected ? 1 : 0; // (0), (0,f) and (f,0) with f in 1..4: 1 + 8
        }
        if (!sane || !rejects || !accepts || explicit12 != 7 || inferred0 != 9)
        {
            std::fprintf(stderr, "oracle self-test failed: sane=%d rejects=%d accepts=%d explicit12=%zu inferred0=%zu\n",
                         sane, rejects, accepts, explicit12, inferred0);
            return 2;
        }
    }

    const bool trace = true; // every case is announced on stderr so that an abort can be attributed
    const auto announce = [&](const std::string& tag, const uint64_t index)
    {
        if (trace)
        {
            std::snprintf(g_case, sizeof(g_case), "CASE %s:%llu\n", tag.c_str(), static_cast<unsigned long long>(index));
            std::fputs(g_case, stderr);
            std::fflush(stderr);
        }
    };

    r.axis("scalar_types", jarr_str(types));
    r.axis("storages", jstr("owning (tensor_mem_t), const owning, mutable map, constant map over a harness-owned block"));
    r.axis("memory_discipline", jstr(g_exact ? "exactly-sized heap blocks under ASan+UBSan"
                                             : "heap blocks with 32-element canary zones on both sides"));
    r.assume("tensor_mem_t element blocks are allocated by Eigen; only blocks of mapped tensors are exactly sized");

    uint64_t   ev_mark = 0, nt_mark = 0;
    const auto lattice_done = [&](const std::string& name)
    {
        r.note("evaluations." + name, std::to_string(r.evaluations - ev_mark));
        r.note("nontrivial." + name, std::to_string(r.nontrivial - nt_mark));
        ev_mark = r.evaluations;
        nt_mark = r.nontrivial;
    };

    // ---- shape lattice ---------------------------------------------------------------------------------------
    const auto maxdim5 = static_cast<idx_t>(args.geti("maxdim5", 3));
    const auto shapes  = small_shapes(maxdim5);
    {
        lattice_t lat;
        lat.axis("shape", shapes.size(),
                 jstr("rank 1..4 with every dimension in 0..4, rank 5 with every dimension in 0.." + std::to_string(maxdim5) +
                      " (5+25+125+625+" + std::to_string(shapes.size() - 780) + " shapes)"));
        lat.axis("type", types.size(), jarr_str(types));
        lat.describe(r, "shape.");
        r.axis("shape.per_case",
               jstr("every index tuple (offset, offset0, index, operator()); every prefix of length 0..rank-1 "
                    "(offset0, dims0, vector, array, tensor, matrix); every slice 0<=b<=e<=dims[0]; every ordered "
                    "factorisation into 1..4 factors (size 0: every tuple over 0..4 containing a zero) and every "
                    "uniquely determined -1"));
        for_each_case(lat, r, "shape", [&](const uint64_t index, const std::vector<uint64_t>& d) {
            announce("shape", index);
            const auto& dims = shapes[d[0]];
            ctx_t cx{r, "shape:" + std::to_string(index), types[d[1]], show(dims), "", {}, 0, 0};
            api.at(types[d[1]])->shape(cx, dims, false, 0);
            cx.done();
            if (index % 997 == 0)
            {
                r.sample(jobj({{"dims", show(dims)}, {"type", jstr(types[d[1]])}}));
            }
        });
    }

    lattice_done("shape");

    // ---- larger shapes (finite list) ---------------------------------------------------------------------------
    const auto larges = large_shapes();
    {
        lattice_t lat;
        lat.axis("shape", larges.size(), jarr(larges.begin(), larges.end(), [](const ivec& v) { return show(v); }));
        lat.axis("type", large_types.size(), jarr_str(large_types));
        lat.describe(r, "large.");
        r.axis("large.per_case", jstr("every index tuple; first/second/middle/last prefix of every length; slices "
                                      "with cuts {0,1,n/2,n-1,n}; the first four and every 7th reshape into 1..2 factors; views are judged "
                                      "on their first/last 64 elements and every 101st; no write-through scan"));
        for_each_case(lat, r, "large", [&](const uint64_t index, const std::vector<uint64_t>& d) {
            announce("large", index);
            const auto& dims = larges[d[0]];
            ctx_t cx{r, "large:" + std::to_string(index), large_types[d[1]], show(dims), "", {}, 0, 0};
            g_sampled = true;
            api.at(large_types[d[1]])->shape(cx, dims, true, 0);
            g_sampled = false;
            cx.done();
        });
    }

    lattice_done("large");

    // the algorithms are built on the accessors: when those are already found wrong, running the algorithms would
    // only turn diagnosed violations into memory corruption inside blocks that belong to Eigen
    const bool accessors_ok = r.violation_count() == 0;
    if (!accessors_ok && args.one.empty())
    {
        r.cap("lattices algo/removeif/stack not run: the accessor lattices already recorded violations");
    }

    // ---- algorithms on every shape ------------------------------------------------------------------------------
    if (accessors_ok || !args.one.empty())
    {
        lattice_t lat;
        lat.axis("shape", shapes.size(), jstr("as in lattice shape"));
        lat.axis("type", types.size(), jarr_str(types));
        lat.describe(r, "algo.");
        r.axis("algo.per_case", jstr("indexed() with all index lists of length 1..3 over the first axis (owning result, "
                                     "mapped result, converting result); 18 conversions between owning/map/cmap storages; "
                                     "integral into int64/double and into the scalar type itself"));
        for_each_case(lat, r, "algo", [&](const uint64_t index, const std::vector<uint64_t>& d) {
            announce("algo", index);
            const auto& dims = shapes[d[0]];
            ctx_t cx{r, "algo:" + std::to_string(index), types[d[1]], show(dims), "", {}, 0, 0};
            api.at(types[d[1]])->shape(cx, dims, false, 1);
            cx.done();
        });
    }
    lattice_done("algo");

    // ---- remove_if -----------------------------------------------------------------------------------------------
    {
        std::vector<removeif_case_t> rcs;
        for (idx_t n = 0; n <= 4; ++n)
        {
            for (unsigned mask = 0; mask < (1U << n); ++mask)
            {
                rcs.push_back({n, mask});
            }
        }
        lattice_t lat;
        lat.axis("n_and_predicate", rcs.size(), jstr("n in 0..4 x all 2^n removal masks"));
        lat.axis("pack", 4, jstr("(vector) | (vector, matrix n x w) | maps over harness blocks (matrix n x w, tensor n x 2 x w, "
                                 "vector) | (tensor n x w x 2, vector, tensor n x 1 x w x 3)"));
        lat.axis("width", 4, "[0,1,2,3]");
        lat.axis("type", types.size(), jarr_str(types));
        lat.describe(r, "removeif.");
        if (accessors_ok || !args.one.empty())
        for_each_case(lat, r, "removeif", [&](const uint64_t index, const std::vector<uint64_t>& d) {
            announce("removeif", index);
            ctx_t cx{r, "removeif:" + std::to_string(index), types[d[3]], "[]", "", {}, 0, 0};
            api.at(types[d[3]])->removeif(cx, rcs[d[0]], static_cast<int>(d[1]), static_cast<idx_t>(d[2]));
            cx.done();
        });
    }

    lattice_done("removeif");

    // ---- stack ---------------------------------------------------------------------------------------------------
    {
        const auto scs = stack_cases();
        lattice_t  lat;
        lat.axis("split", scs.size(), jstr("matrices 1..4 x 1..4: every split into two non-empty row blocks, two non-empty "
                                           "column blocks, 2x2 blocks; vectors 2..6: every split into two segments"));
        lat.axis("representation", 5, jstr("constant maps | owning tensors | Eigen maps | Eigen matrix + tensor | "
                                           "tensor + Eigen matrix / rank-1 tensor as column / transposed vector as row"));
        lat.axis("type", types.size(), jarr_str(types));
        lat.describe(r, "stack.");
        if (accessors_ok || !args.one.empty())
        for_each_case(lat, r, "stack", [&](const uint64_t index, const std::vector<uint64_t>& d) {
            announce("stack", index);
            ctx_t cx{r, "stack:" + std::to_string(index), types[d[2]], "[]", "", {}, 0, 0};
            api.at(types[d[2]])->stack(cx, scs[d[0]], static_cast<int>(d[1]));
            cx.done();
        });
    }

    lattice_done("stack");

    // ---- the ambiguous -1 (recorded, not judged) -------------------------------------------------------------------
    if (args.one.empty() && args.shard == 0)
    {
        const std::vector<probe_t> probes = {{{0, 3}, {0, -1}}, {{0, 3}, {-1, 0}}, {{2, 0}, {0, -1}}, {{0}, {0, -1}},
                                             {{0, 3}, {3, -1}}, {{0, 3}, {-1, 3}}};
        std::vector<std::string>   results;
        for (const auto& p : probes)
        {
            results.push_back(run_probe(p));
        }
        r.note("reshape_minus_one_next_to_zero_probe",
               jarr(results.begin(), results.end(), [](const std::string& s) { return s; }));
    }
    return r.finish();
}
