// C16 — tensor indexing, slicing, reshaping address exactly the right elements (E3, bounded exhaustive).
//
// Every tensor is filled with value = linear position (written through the raw buffer), so that every accessor of
// the library can be judged by value and by address against an oracle that never multiplies strides: the oracle
// enumerates all index tuples with an odometer (last index fastest), numbers them 0,1,2,... and defines
//   * the offset of a tuple            = its number,
//   * the elements of a prefix view    = the numbers of the tuples starting with that prefix, in order,
//   * the start of a prefix view       = how many tuples come lexicographically before it,
//   * a first-axis slice [b,e)         = the numbers of the tuples with b <= first index < e,
//   * a reshape                        = the same numbers 0..N-1 enumerated by the odometer of the new shape.
//
// lattices (all run in every stage; --stage only selects the scalar types and the memory discipline):
//   shape    : 1804 shapes x scalar type x 4 storages: full indexing, prefix views, slices, reshapes
//   large    : 40 fixed larger shapes (<= 1e5 elements) x scalar type, reduced set of views (finite list, no proof)
//   algo     : 1804 shapes x scalar type: gathers, storage conversions, integral
//              (algo/removeif/stack are not run when shape/large already recorded accessor violations)
//   removeif : (n, predicate mask) x pack kind x inner width x scalar type
//   stack    : matrix / vector 2-block (and 2x2) splits x block representation x scalar type
// stages:
//   rel  : harness-owned buffers have canary zones on both sides (checked after every case)
//   asan : harness-owned buffers are exactly-sized heap blocks (ASan+UBSan build aborts on any out-of-block access)
#pragma once
#include "verif.h"
#include <nano/tensor/algorithm.h>
#include <nano/tensor/integral.h>
#include <nano/tensor/stack.h>
#include <nano/tensor/tensor.h>

#include <limits>
#include <set>
#include <sys/resource.h>
#include <sys/wait.h>
#include <unistd.h>
#include <utility>

namespace c16
{
using namespace nano;
using namespace verif;

using idx_t = tensor_size_t;
using ivec  = std::vector<idx_t>;

inline bool g_exact = false; ///< asan stage: no canary zones, the block is exactly as large as the tensor

// ---------------------------------------------------------------------------------------------
// helpers
template <class T>
const char* tname()
{
    if (std::is_same_v<T, int8_t>) return "int8";
    if (std::is_same_v<T, int16_t>) return "int16";
    if (std::is_same_v<T, int32_t>) return "int32";
    if (std::is_same_v<T, int64_t>) return "int64";
    if (std::is_same_v<T, uint8_t>) return "uint8";
    if (std::is_same_v<T, uint16_t>) return "uint16";
    if (std::is_same_v<T, uint32_t>) return "uint32";
    if (std::is_same_v<T, uint64_t>) return "uint64";
    if (std::is_same_v<T, float>) return "float";
    return "double";
}

inline const std::vector<std::string> ALL_TYPES = {"int32", "double", "int8",   "uint64", "float",
                                            "uint8", "int16",  "uint16", "uint32", "int64"};

template <class T>
T val(const idx_t c)
{
    return static_cast<T>(c);
}
template <class T>
T mark(const idx_t c)
{
    return static_cast<T>(c + 101);
}
template <class T>
double as_num(const T v)
{
    return static_cast<double>(v);
}

inline std::string show(const ivec& v)
{
    return jarr(v.begin(), v.end(), [](const idx_t x) { return jint(x); });
}
template <size_t R>
std::string show(const std::array<idx_t, R>& v)
{
    return jarr(v.begin(), v.end(), [](const idx_t x) { return jint(x); });
}

using kv_t = std::vector<std::pair<std::string, std::string>>;
inline std::string jobjv(const kv_t& kv)
{
    std::string o = "{";
    for (size_t i = 0; i < kv.size(); ++i)
    {
        o += (i ? "," : "") + jstr(kv[i].first) + ":" + kv[i].second;
    }
    return o + "}";
}

// heap block owned by the harness; pad == 0: exactly sized (ASan is the judge), else canary zones on both sides
template <class T>
class block_t
{
public:
    explicit block_t(const idx_t n)
        : m_n(static_cast<size_t>(n))
        , m_pad(g_exact ? 0U : 32U)
    {
        m_raw = static_cast<T*>(std::malloc((m_n + 2 * m_pad) * sizeof(T)));
        if (m_raw == nullptr && (m_n + 2 * m_pad) > 0)
        {
            std::fprintf(stderr, "out of memory\n");
            std::exit(2);
        }
        for (size_t i = 0; i < m_pad; ++i)
        {
            m_raw[i] = m_raw[m_pad + m_n + i] = canary();
        }
    }
    block_t(const block_t&)            = delete;
    block_t& operator=(const block_t&) = delete;
    ~block_t() { std::free(m_raw); }

    T*       p() { return m_raw + m_pad; }
    const T* cp() const { return m_raw + m_pad; }
    bool     intact() const
    {
        for (size_t i = 0; i < m_pad; ++i)
        {
            if (m_raw[i] != canary() || m_raw[m_pad + m_n + i] != canary())
            {
                return false;
            }
        }
        return true;
    }
    void fill_linear()
    {
        for (size_t i = 0; i < m_n; ++i)
        {
            p()[i] = val<T>(static_cast<idx_t>(i));
        }
    }
    void fill(const T v)
    {
        for (size_t i = 0; i < m_n; ++i)
        {
            p()[i] = v;
        }
    }

private:
    static T canary() { return static_cast<T>(93); }
    size_t   m_n, m_pad;
    T*       m_raw{nullptr};
};

// ---------------------------------------------------------------------------------------------
// the oracle: odometer enumeration, nothing else
inline bool next_tuple(ivec& t, const idx_t* dims, const size_t rank)
{
    for (size_t d = rank; d-- > 0;)
    {
        if (++t[d] < dims[d])
        {
            return true;
        }
        t[d] = 0;
    }
    return false;
}

/// all tuples over dims in lexicographic order (flattened, count tuples of length rank)
inline ivec odometer(const idx_t* dims, const size_t rank, idx_t& count)
{
    ivec out;
    count = 0;
    for (size_t d = 0; d < rank; ++d)
    {
        if (dims[d] <= 0)
        {
            return out;
        }
    }
    ivec t(rank, 0);
    do
    {
        out.insert(out.end(), t.begin(), t.end());
        ++count;
    } while (next_tuple(t, dims, rank));
    return out;
}

struct view_t
{
    ivec  prefix;
    ivec  members;   ///< numbers of the tuples that start with the prefix, ascending
    idx_t before{0}; ///< how many tuples come lexicographically before (prefix, 0, ..., 0)
};

struct oracle_t
{
    ivec                             dims;
    size_t                           rank{0};
    idx_t                            N{0};
    ivec                             tuples; ///< N * rank
    std::vector<std::vector<view_t>> levels; ///< levels[k]: one view per valid prefix of length k (lexicographic)
    std::vector<ivec>                subtuples;  ///< subtuples[k]: odometer over dims[k..rank)
    std::vector<idx_t>               subcounts;

    const idx_t* tuple(const idx_t c) const { return tuples.data() + static_cast<size_t>(c) * rank; }
};

inline oracle_t make_oracle(const ivec& dims, const size_t max_level)
{
    oracle_t o;
    o.dims   = dims;
    o.rank   = dims.size();
    o.tuples = odometer(dims.data(), o.rank, o.N);
    o.levels.resize(o.rank + 1);
    o.subtuples.resize(o.rank + 1);
    o.subcounts.resize(o.rank + 1);
    for (size_t k = 0; k <= o.rank && k <= max_level; ++k)
    {
        idx_t      np       = 0;
        const auto prefixes = odometer(dims.data(), k, np);
        auto&      level    = o.levels[k];
        level.resize(static_cast<size_t>(np));
        std::map<ivec, size_t> pos;
        for (size_t p = 0; p < level.size(); ++p)
        {
            level[p].prefix.assign(prefixes.begin() + static_cast<std::ptrdiff_t>(p * k),
                                   prefixes.begin() + static_cast<std::ptrdiff_t>((p + 1) * k));
            pos[level[p].prefix] = p;
        }
        ivec key(k);
        for (idx_t c = 0; c < o.N; ++c)
        {
            key.assign(o.tuple(c), o.tuple(c) + k);
            level[pos.at(key)].members.push_back(c);
        }
        idx_t before = 0;
        for (auto& v : level)
        {
            v.before = before;
            before += static_cast<idx_t>(v.members.size());
        }
        o.subtuples[k] = odometer(dims.data() + k, o.rank - k, o.subcounts[k]);
    }
    return o;
}

// ---------------------------------------------------------------------------------------------
// per-case context
struct ctx_t
{
    report_t&             r;
    std::string           one;
    std::string           type;
    std::string           shape;
    std::string           storage;
    std::set<std::string> seen;
    uint64_t              ev{0}, nt{0};

    void fail(const std::string& key, kv_t kv)
    {
        if (!seen.insert(key + "|" + storage).second)
        {
            return;
        }
        kv.insert(kv.begin(), {{"type", jstr(type)}, {"dims", shape}, {"storage", jstr(storage)}});
        r.violation(key, one, jobjv(kv));
    }
    void done()
    {
        r.evaluations += ev;
        r.nontrivial += nt;
    }
};

template <size_t K, class F, size_t... I>
decltype(auto) call_impl(F&& f, [[maybe_unused]] const idx_t* p, std::index_sequence<I...>)
{
    return f(p[I]...);
}
/// f(p[0], ..., p[K-1])
template <size_t K, class F>
decltype(auto) call(F&& f, const idx_t* p)
{
    return call_impl<K>(std::forward<F>(f), p, std::make_index_sequence<K>{});
}

struct none_t
{
};

/// non-owning reference to a callable (keeps judge_view to one instantiation per scalar type)
template <class Sig>
class fref;
template <class Ret, class... A>
class fref<Ret(A...)>
{
public:
    fref(none_t) {} // NOLINT
    template <class F, std::enable_if_t<!std::is_same_v<std::decay_t<F>, none_t> && !std::is_same_v<std::decay_t<F>, fref>, bool> = true>
    fref(const F& f) // NOLINT
        : m_obj(static_cast<const void*>(&f))
        , m_thunk([](const void* o, A... a) -> Ret { return (*static_cast<const F*>(o))(a...); })
    {
    }
    explicit operator bool() const { return m_thunk != nullptr; }
    Ret      operator()(A... a) const { return m_thunk(m_obj, a...); }

private:
    const void* m_obj{nullptr};
    Ret (*m_thunk)(const void*, A...){nullptr};
};

/// judge one view: E[j] is the number of the element that the j-th element of the view must be
inline bool g_sampled = false; ///< larger shapes: judge the first and last 64 elements of a view and every 101st

template <class T>
void judge_view(ctx_t& cx, const std::string& key, const ivec& E, const T* base, T* wbase, const idx_t N,
                const fref<T(idx_t)> read, const fref<const T*(idx_t)> addr, const fref<void(idx_t, T)> write,
                const kv_t& what, const bool nontrivial)
{
    bool ok = true;
    for (size_t j = 0; j < E.size() && ok; ++j)
    {
        if (g_sampled && !(j < 64 || j + 64 >= E.size() || j % 101 == 0))
        {
            continue;
        }
        ++cx.ev;
        cx.nt += nontrivial ? 1 : 0;
        if (addr)
        {
            const T* a = addr(static_cast<idx_t>(j));
            if (a != base + E[j])
            {
                ok      = false;
                auto kv = what;
                kv.insert(kv.end(), {{"element_of_view", jint(j)},
                                     {"expected_offset", jint(E[j])},
                                     {"observed_offset", jint(a - base)}});
                cx.fail(key + ":address", kv);
                break;
            }
        }
        const T got = read(static_cast<idx_t>(j));
        if (!(got == val<T>(E[j])))
        {
            ok      = false;
            auto kv = what;
            kv.insert(kv.end(), {{"element_of_view", jint(j)},
                                 {"expected_value", jnum(as_num(val<T>(E[j])))},
                                 {"observed_value", jnum(as_num(got))}});
            cx.fail(key + ":value", kv);
        }
    }
    {
        if (write && ok && wbase != nullptr)
        {
            // write through the view, read through the raw buffer: exactly the expected elements change
            std::vector<char> in(static_cast<size_t>(N), 0);
            for (size_t j = 0; j < E.size(); ++j)
            {
                ++cx.ev;
                cx.nt += nontrivial ? 1 : 0;
                write(static_cast<idx_t>(j), mark<T>(E[j]));
                in[static_cast<size_t>(E[j])] = 1;
            }
            for (idx_t c = 0; c < N; ++c)
            {
                const T e = in[static_cast<size_t>(c)] ? mark<T>(c) : val<T>(c);
                if (!(wbase[c] == e))
                {
                    auto kv = what;
                    kv.insert(kv.end(), {{"position", jint(c)},
                                         {"expected_value", jnum(as_num(e))},
                                         {"observed_value", jnum(as_num(wbase[c]))}});
                    cx.fail(key + ":write-through", kv);
                    break;
                }
            }
            for (idx_t c = 0; c < N; ++c)
            {
                wbase[c] = val<T>(c);
            }
        }
    }
}

// ---------------------------------------------------------------------------------------------
// reshape alphabets
struct factors_t
{
    ivec given;    ///< what is handed to reshape (may contain one -1)
    ivec expected; ///< the dimensions the result must have
};

/// every ordered factorisation of N into 1..maxk factors (N == 0: every tuple over 0..4 with a zero), and every
/// variant with one factor replaced by -1 where the product of the other factors is positive (uniquely determined)
inline const std::vector<factors_t>& reshape_alphabet(const idx_t N, const size_t maxk)
{
    static std::map<std::pair<idx_t, size_t>, std::vector<factors_t>> cache;
    const auto                                                          key = std::make_pair(N, maxk);
    const auto                                                          it  = cache.find(key);
    if (it != cache.end())
    {
        return it->second;
    }
    std::vector<factors_t> out;
    for (size_t k = 1; k <= maxk; ++k)
    {
        std::vector<ivec> tuples;
        if (N == 0)
        {
            const ivec  five(k, 5);
            idx_t       count = 0;
            const auto  all   = odometer(five.data(), k, count);
            for (idx_t c = 0; c < count; ++c)
            {
                ivec t(all.begin() + c * static_cast<idx_t>(k), all.begin() + (c + 1) * static_cast<idx_t>(k));
                if (std::find(t.begin(), t.end(), 0) != t.end())
                {
                    tuples.push_back(t);
                }
            }
        }
        else
        {
            // ordered factorisations: depth-first over divisors
            ivec                                    cur;
            std::function<void(idx_t, size_t)> rec = [&](const idx_t rest, const size_t left)
            {
                if (left == 1)
                {
                    cur.push_back(rest);
                    tuples.push_back(cur);
                    cur.pop_back();
                    return;
                }
                for (idx_t f = 1; f <= rest; ++f)
                {
                    if (rest % f == 0)
                    {
                        cur.push_back(f);
                        rec(rest / f, left - 1);
                        cur.pop_back();
                    }
                }
            };
            rec(N, k);
        }
        for (const auto& t : tuples)
        {
            out.push_back({t, t});
            for (size_t p = 0; p < k; ++p)
            {
                idx_t others = 1;
                for (size_t q = 0; q < k; ++q)
                {
                    if (q != p)
                    {
                        others *= t[q];
                    }
                }
                if (others > 0)
                {
                    auto g = t;
                    g[p]   = -1;
                    out.push_back({g, t});
                }
            }
        }
    }
    return cache.emplace(key, std::move(out)).first->second;
}

// ---------------------------------------------------------------------------------------------
// the checks on one tensor object (any storage, const or not)
template <class T, size_t R, bool writable, class X>
struct tensor_check_t
{
    ctx_t&          cx;
    const oracle_t& o;
    X&              x;
    const T*        base;
    T*              wbase;
    bool            light;

    std::string rk() const { return "rank" + std::to_string(R); }

    void shape() const
    {
        std::array<idx_t, R> dd{};
        std::copy(o.dims.begin(), o.dims.end(), dd.begin());
        ++cx.ev;
        if (!(x.dims() == dd) || x.size() != o.N || X::rank() != R || !sizes_ok(dd, std::make_index_sequence<R>{}))
        {
            cx.fail("dims:" + rk(), {{"observed_dims", show(x.dims())}, {"observed_size", jint(x.size())},
                                     {"expected_size", jint(o.N)}});
        }
        if (x.data() != base)
        {
            cx.fail("data:" + rk(), {});
        }
    }
    template <size_t... I>
    bool sizes_ok(const std::array<idx_t, R>& dd, std::index_sequence<I...>) const
    {
        bool ok = ((x.template size<static_cast<int>(I)>() == dd[I]) && ...);
        if constexpr (R >= 2)
        {
            ok = ok && x.rows() == dd[R - 2] && x.cols() == dd[R - 1];
        }
        return ok;
    }

    void full_index() const
    {
        std::vector<char> hit(static_cast<size_t>(o.N), 0);
        bool              in_range = true;
        for (idx_t c = 0; c < o.N; ++c)
        {
            const idx_t* t   = o.tuple(c);
            const idx_t  off = call<R>([&](auto... i) { return x.offset(i...); }, t);
            const idx_t  of0 = call<R>([&](auto... i) { return x.offset0(i...); }, t);
            const idx_t  ofd = call<R>([&](auto... i) { return nano::index(x.dims(), i...); }, t);
            cx.ev += 3;
            cx.nt += c > 0 ? 3 : 0;
            if (off >= 0 && off < o.N)
            {
                hit[static_cast<size_t>(off)] = 1;
            }
            else
            {
                in_range = false;
            }
            if (off != c || of0 != c || ofd != c)
            {
                cx.fail("offset:" + rk(), {{"index", show(ivec(t, t + R))}, {"expected_offset", jint(c)},
                                           {"observed_offset", jint(off)}, {"observed_offset0", jint(of0)}});
                continue; // do not dereference a wrong offset
            }
            auto&& ref = call<R>([&](auto... i) -> decltype(auto) { return x(i...); }, t);
            auto&& lin = x(c);
            cx.ev += 2;
            cx.nt += c > 0 ? 2 : 0;
            if (&ref != base + c || &lin != base + c || !(ref == val<T>(c)))
            {
                cx.fail("element:" + rk(), {{"index", show(ivec(t, t + R))}, {"expected_offset", jint(c)},
                                            {"observed_offset", jint(&ref - base)},
                                            {"observed_value", jnum(as_num(ref))}});
            }
        }
        if (!in_range)
        {
            cx.fail("offset:out-of-range:" + rk(), {});
        }
        else if (std::find(hit.begin(), hit.end(), 0) != hit.end())
        {
            cx.fail("offset:not-bijective:" + rk(), {});
        }
        if constexpr (writable)
        {
            // write through full indexing
            bool ok = wbase != nullptr && !light;
            for (idx_t c = 0; c < o.N && ok; ++c)
            {
                call<R>([&](auto... i) -> decltype(auto) { return x(i...); }, o.tuple(c)) = mark<T>(c);
                ++cx.ev;
                ok = wbase[c] == mark<T>(c) && (c + 1 == o.N || wbase[c + 1] == val<T>(c + 1));
                if (!ok)
                {
                    cx.fail("element:write:" + rk(), {{"index", show(ivec(o.tuple(c), o.tuple(c) + R))}});
                }
            }
            for (idx_t c = 0; c < o.N && wbase != nullptr; ++c)
            {
                wbase[c] = val<T>(c);
            }
        }
    }

    template <size_t K>
    void level() const
    {
        constexpr size_t Q       = R - K; // rank of the views at this level
        const auto       lv      = "prefix" + std::to_string(K) + ":" + rk();
        const auto&      subs    = o.subtuples[K];
        const auto       expdims = ivec(o.dims.begin() + static_cast<std::ptrdiff_t>(K), o.dims.end());
        size_t           nview   = 0;
        for (const auto& v : o.levels[K])
        {
            // light mode: only the first, second, middle and last prefix of a level
            const auto nviews = o.levels[K].size();
            const auto iview  = nview++;
            if (light && !(iview < 2 || iview + 1 == nviews || iview == nviews / 2))
            {
                continue;
            }
            const idx_t* p       = v.prefix.data();
            const auto   len     = static_cast<idx_t>(v.members.size());
            const kv_t   what    = {{"prefix", show(v.prefix)}};
            const bool   offzero = v.before == 0;
            const auto   nt      = [&](const uint64_t n) { cx.nt += offzero ? 0 : n; };

            // offset0, dims0
            const idx_t off0 = call<K>([&](auto... i) { return x.offset0(i...); }, p);
            const auto  d0   = call<K>([&](auto... i) { return x.dims0(i...); }, p);
            cx.ev += 2;
            nt(2);
            if (off0 != v.before)
            {
                cx.fail("offset0:" + lv, {{"prefix", show(v.prefix)}, {"expected_offset", jint(v.before)},
                                          {"observed_offset", jint(off0)}});
                continue;
            }
            if (ivec(d0.begin(), d0.end()) != expdims || d0.size() != Q)
            {
                cx.fail("dims0:" + lv, {{"prefix", show(v.prefix)}, {"expected", show(expdims)},
                                        {"observed", show(ivec(d0.begin(), d0.end()))}});
            }

            // vector(prefix...), array(prefix...)
            {
                auto vec = call<K>([&](auto... i) { return x.vector(i...); }, p);
                ++cx.ev;
                nt(1);
                if (vec.size() != len || vec.data() != base + v.before || vec.innerStride() != 1)
                {
                    cx.fail("vector:" + lv, {{"prefix", show(v.prefix)}, {"expected_size", jint(len)},
                                             {"observed_size", jint(vec.size())}, {"expected_offset", jint(v.before)},
                                             {"observed_offset", jint(vec.data() - base)}});
                }
                else
                {
                    const auto read = [&](const idx_t j) { return static_cast<T>(vec(j)); };
                    if constexpr (writable)
                    {
                        const auto write = [&](const idx_t j, const T m) { vec(j) = m; };
                        judge_view<T>(cx, "vector:" + lv, v.members, base, light ? nullptr : wbase, o.N, read,
                                      none_t{}, write, what, !offzero);
                    }
                    else
                    {
                        judge_view<T>(cx, "vector:" + lv, v.members, base, nullptr, o.N, read, none_t{}, none_t{},
                                      what, !offzero);
                    }
                    if (len > 0)
                    {
                        auto arr = call<K>([&](auto... i) { return x.array(i...); }, p);
                        ++cx.ev;
                        if (arr.size() != len || !(static_cast<T>(arr(0)) == val<T>(v.members.front())) ||
                            !(static_cast<T>(arr(len - 1)) == val<T>(v.members.back())))
                        {
                            cx.fail("array:" + lv, what);
                        }
                    }
                }
            }

            // tensor(prefix...)
            {
                auto sub = call<K>([&](auto... i) { return x.tensor(i...); }, p);
                static_assert(std::remove_reference_t<decltype(sub)>::rank() == Q);
                ++cx.ev;
                nt(1);
                if (ivec(sub.dims().begin(), sub.dims().end()) != expdims || sub.size() != len ||
                    sub.data() != base + v.before || o.subcounts[K] != len)
                {
                    cx.fail("tensor:" + lv, {{"prefix", show(v.prefix)}, {"expected_dims", show(expdims)},
                                             {"observed_dims", show(sub.dims())}, {"expected_offset", jint(v.before)},
                                             {"observed_offset", jint(sub.data() - base)}});
                }
                else
                {
                    const auto at = [&](const idx_t j) -> decltype(auto)
                    { return call<Q>([&](auto... i) -> decltype(auto) { return sub(i...); }, subs.data() + j * Q); };
                    const auto read = [&](const idx_t j) { return static_cast<T>(at(j)); };
                    const auto addr = [&](const idx_t j) -> const T* { return &at(j); };
                    if constexpr (writable)
                    {
                        const auto write = [&](const idx_t j, const T m) { at(j) = m; };
                        judge_view<T>(cx, "tensor:" + lv, v.members, base, light ? nullptr : wbase, o.N, read, addr,
                                      write, what, !offzero);
                    }
                    else
                    {
                        judge_view<T>(cx, "tensor:" + lv, v.members, base, nullptr, o.N, read, addr, none_t{}, what,
                                      !offzero);
                    }
                }
            }

            // matrix(prefix...) interprets the last two dimensions as rows x columns
            if constexpr (Q == 2)
            {
                auto mat = call<K>([&](auto... i) { return x.matrix(i...); }, p);
                ++cx.ev;
                nt(1);
                if (mat.rows() != expdims[0] || mat.cols() != expdims[1] || mat.data() != base + v.before ||
                    !decltype(mat)::IsRowMajor || mat.innerStride() != 1 || mat.outerStride() != expdims[1])
                {
                    cx.fail("matrix:" + lv, {{"prefix", show(v.prefix)}, {"observed_rows", jint(mat.rows())},
                                             {"observed_cols", jint(mat.cols())},
                                             {"observed_offset", jint(mat.data() - base)}});
                }
                else
                {
                    const auto read = [&](const idx_t j)
                    { return static_cast<T>(mat(subs[static_cast<size_t>(j * 2)], subs[static_cast<size_t>(j * 2 + 1)])); };
                    if constexpr (writable)
                    {
                        const auto write = [&](const idx_t j, const T m)
                        { mat(subs[static_cast<size_t>(j * 2)], subs[static_cast<size_t>(j * 2 + 1)]) = m; };
                        judge_view<T>(cx, "matrix:" + lv, v.members, base, light ? nullptr : wbase, o.N, read,
                                      none_t{}, write, what, !offzero);
                    }
                    else
                    {
                        judge_view<T>(cx, "matrix:" + lv, v.members, base, nullptr, o.N, read, none_t{}, none_t{},
                                      what, !offzero);
                    }
                }
            }
        }
        if constexpr (K + 1 < R)
        {
            level<K + 1>();
        }
    }

    void slices() const
    {
        const idx_t n = o.dims[0];
        ivec        cuts;
        for (idx_t b = 0; b <= n; ++b)
        {
            if (!light || b < 2 || b == n / 2 || b + 1 >= n)
            {
                cuts.push_back(b);
            }
        }
        for (const auto b : cuts)
        {
            for (const auto e : cuts)
            {
                if (e < b)
                {
                    continue;
                }
                ivec  E;
                idx_t before = 0;
                for (idx_t c = 0; c < o.N; ++c)
                {
                    const auto i0 = o.tuple(c)[0];
                    before += i0 < b ? 1 : 0;
                    if (b <= i0 && i0 < e)
                    {
                        E.push_back(c);
                    }
                }
                auto expdims = o.dims;
                expdims[0]   = e - b;
                const kv_t what = {{"begin", jint(b)}, {"end", jint(e)}};
                const bool proper = !E.empty() && (b > 0 || e < n);
                cx.r.outcome(e == b ? "slice:empty" : (proper ? "slice:proper" : (E.empty() ? "slice:zero-extent" : "slice:full")));

                auto s  = x.slice(b, e);
                auto s2 = x.slice(make_range(b, e));
                static_assert(std::remove_reference_t<decltype(s)>::rank() == R);
                cx.ev += 2;
                cx.nt += proper ? 2 : 0;
                if (ivec(s.dims().begin(), s.dims().end()) != expdims || s.data() != base + before ||
                    s.size() != static_cast<idx_t>(E.size()) || !(s2.dims() == s.dims()) || s2.data() != s.data())
                {
                    cx.fail("slice:" + rk(), {{"begin", jint(b)}, {"end", jint(e)}, {"expected_dims", show(expdims)},
                                              {"observed_dims", show(s.dims())}, {"expected_offset", jint(before)},
                                              {"observed_offset", jint(s.data() - base)}});
                    continue;
                }
                idx_t      count = 0;
                const auto subs  = odometer(expdims.data(), R, count);
                if (count != static_cast<idx_t>(E.size()))
                {
                    std::fprintf(stderr, "oracle inconsistency in slices\n");
                    std::exit(2);
                }
                const auto at = [&](const idx_t j) -> decltype(auto)
                { return call<R>([&](auto... i) -> decltype(auto) { return s(i...); }, subs.data() + j * R); };
                const auto read = [&](const idx_t j) { return static_cast<T>(at(j)); };
                const auto addr = [&](const idx_t j) -> const T* { return &at(j); };
                if constexpr (writable)
                {
                    const auto write = [&](const idx_t j, const T m) { at(j) = m; };
                    judge_view<T>(cx, "slice:" + rk(), E, base, light ? nullptr : wbase, o.N, read, addr, write, what,
                                  proper);
                }
                else
                {
                    judge_view<T>(cx, "slice:" + rk(), E, base, nullptr, o.N, read, addr, none_t{}, what, proper);
                }
            }
        }
    }

    template <size_t K>
    void reshape_one(const factors_t& f, const ivec& identity) const
    {
        const bool inferred = f.given != f.expected;
        auto       rs       = call<K>([&](auto... s) { return x.reshape(s...); }, f.given.data());
        static_assert(std::remove_reference_t<decltype(rs)>::rank() == K);
        ++cx.ev;
        const bool nontrivial = o.N > 1 && (K > 1 || inferred);
        cx.nt += nontrivial ? 1 : 0;
        cx.r.outcome(inferred ? (o.N == 0 ? "reshape:inferred-zero" : "reshape:inferred") : "reshape:explicit");
        const auto key = std::string(inferred ? "reshape-infer:" : "reshape:") + rk() + ":to" + std::to_string(K);
        if (ivec(rs.dims().begin(), rs.dims().end()) != f.expected || rs.data() != base || rs.size() != o.N)
        {
            cx.fail(key, {{"given", show(f.given)}, {"expected_dims", show(f.expected)},
                          {"observed_dims", show(rs.dims())}, {"observed_offset", jint(rs.data() - base)}});
            return;
        }
        idx_t      count = 0;
        const auto subs  = odometer(f.expected.data(), K, count);
        if (count != o.N)
        {
            std::fprintf(stderr, "oracle inconsistency in reshape\n");
            std::exit(2);
        }
        const auto at = [&](const idx_t j) -> decltype(auto)
        { return call<K>([&](auto... i) -> decltype(auto) { return rs(i...); }, subs.data() + j * K); };
        const auto read = [&](const idx_t j) { return static_cast<T>(at(j)); };
        const auto addr = [&](const idx_t j) -> const T* { return &at(j); };
        const kv_t what = {{"given", show(f.given)}};
        if constexpr (writable)
        {
            const auto write = [&](const idx_t j, const T m) { at(j) = m; };
            judge_view<T>(cx, key, identity, base, (light || inferred) ? nullptr : wbase, o.N, read, addr, write, what,
                          nontrivial);
        }
        else
        {
            judge_view<T>(cx, key, identity, base, nullptr, o.N, read, addr, none_t{}, what, nontrivial);
        }
    }

    void reshapes() const
    {
        ivec identity(static_cast<size_t>(o.N));
        for (idx_t c = 0; c < o.N; ++c)
        {
            identity[static_cast<size_t>(c)] = c;
        }
        size_t nf = 0;
        for (const auto& f : reshape_alphabet(o.N, light ? 2 : 4))
        {
            // larger shapes: the first four and every 7th entry of the alphabet
            if (light && !(nf < 4 || nf % 7 == 0))
            {
                ++nf;
                continue;
            }
            ++nf;
            switch (f.given.size())
            {
            case 1: reshape_one<1>(f, identity); break;
            case 2: reshape_one<2>(f, identity); break;
            case 3: reshape_one<3>(f, identity); break;
            default: reshape_one<4>(f, identity); break;
            }
        }
    }

    void all() const
    {
        shape();
        full_index();
        level<0>();
        slices();
        reshapes();
    }
};

template <class T, size_t R, bool writable, class X>
void check_tensor(ctx_t& cx, const std::string& storage, const oracle_t& o, X& x, const T* base, T* wbase,
                  const bool light)
{
    cx.storage = storage;
    tensor_check_t<T, R, writable, X>{cx, o, x, base, wbase, light}.all();
    cx.storage.clear();
}

// ---------------------------------------------------------------------------------------------
// gathers over the first axis
template <class T, size_t R>
void check_indexed(ctx_t& cx, const oracle_t& o, const tensor_mem_t<T, R>& mem, const tensor_cmap_t<T, R>& cmap,
                   const tensor_map_t<T, R>& map)
{
    const idx_t n = o.dims[0];
    if (n <= 0)
    {
        cx.r.outcome("indexed:no-valid-index");
        return;
    }
    const auto& rows = o.levels[1]; // rows[i].members: the elements of sub-tensor i of the first axis
    for (size_t len = 1; len <= 3; ++len)
    {
        const ivec nn(len, n);
        idx_t      count = 0;
        const auto lists = odometer(nn.data(), len, count);
        for (idx_t l = 0; l < count; ++l)
        {
            const idx_t* list = lists.data() + l * static_cast<idx_t>(len);
            block_t<idx_t> ib(static_cast<idx_t>(len));
            std::copy(list, list + len, ib.p());
            const auto ind = map_tensor(ib.cp(), make_dims(static_cast<idx_t>(len)));

            ivec E;
            for (size_t j = 0; j < len; ++j)
            {
                const auto& m = rows[static_cast<size_t>(list[j])].members;
                E.insert(E.end(), m.begin(), m.end());
            }
            auto expdims = o.dims;
            expdims[0]   = static_cast<idx_t>(len);
            const bool nontrivial = !E.empty() && std::any_of(list, list + len, [](const idx_t i) { return i > 0; });
            const kv_t what       = {{"indices", show(ivec(list, list + len))}};
            const auto judge      = [&](const std::string& key, const auto& out, const auto conv)
            {
                ++cx.ev;
                cx.nt += nontrivial ? 1 : 0;
                bool ok = ivec(out.dims().begin(), out.dims().end()) == expdims &&
                          out.size() == static_cast<idx_t>(E.size());
                for (size_t q = 0; ok && q < E.size(); ++q)
                {
                    ok = out.data()[q] == conv(E[q]);
                }
                if (!ok)
                {
                    cx.fail(key + ":rank" + std::to_string(R), what);
                }
            };
            // (1) owning source, returns an owning tensor
            {
                const auto out = mem.indexed(ind);
                judge("indexed:mem", out, [](const idx_t c) { return val<T>(c); });
                if (out.size() > 0 && out.data() == mem.data())
                {
                    cx.fail("indexed:aliases-source", what);
                }
            }
            // (2) constant map as source, writes into an exactly sized mapped block
            {
                block_t<T> ob(static_cast<idx_t>(E.size()));
                ob.fill(mark<T>(0));
                std::array<idx_t, R> od{};
                std::copy(expdims.begin(), expdims.end(), od.begin());
                auto out = map_tensor(ob.p(), od);
                cmap.indexed(ind, out);
                judge("indexed:cmap-into-map", out, [](const idx_t c) { return val<T>(c); });
                if (!ob.intact() || !ib.intact())
                {
                    cx.fail("memory:indexed", what);
                }
            }
            // (3) mutable map as source, converting the scalar type
            {
                const auto out = map.template indexed<double>(ind);
                judge("indexed:map-cast", out, [](const idx_t c) { return static_cast<double>(val<T>(c)); });
            }
        }
    }
    cx.r.outcome("indexed:lists<=3");
}

// ---------------------------------------------------------------------------------------------
// conversions between the three storages
template <class T, size_t R>
void check_conversions(ctx_t& cx, const oracle_t& o, tensor_mem_t<T, R>& mem)
{
    using M = tensor_mem_t<T, R>;
    using P = tensor_map_t<T, R>;
    using C = tensor_cmap_t<T, R>;
    std::array<idx_t, R> dd{};
    std::copy(o.dims.begin(), o.dims.end(), dd.begin());
    const auto N = o.N;

    block_t<T> buf(N);
    buf.fill_linear();
    const auto same = [&](const auto& t, const T* data, const bool aliased, const T add)
    {
        bool ok = t.dims() == dd && t.size() == N && (aliased ? t.data() == data : (N == 0 || t.data() != data));
        for (idx_t c = 0; ok && c < N; ++c)
        {
            ok = t.data()[c] == static_cast<T>(val<T>(c) + add);
        }
        return ok;
    };
    const auto judge = [&](const std::string& key, const bool ok)
    {
        ++cx.ev;
        cx.nt += N > 0 ? 1 : 0;
        if (!ok)
        {
            cx.fail("convert:" + key + ":rank" + std::to_string(R), {});
        }
    };

    P p = map_tensor(buf.p(), dd);
    C c = map_tensor(buf.cp(), dd);
    judge("map(ptr)", same(p, buf.cp(), true, 0));
    judge("cmap(ptr)", same(c, buf.cp(), true, 0));
    {
        P       p1 = mem;
        C       c1 = mem;
        C       c2 = p;
        const C c3 = std::as_const(mem);
        judge("map(mem)", same(p1, mem.data(), true, 0));
        judge("cmap(mem)", same(c1, mem.data(), true, 0) && same(c3, mem.data(), true, 0));
        judge("cmap(map)", same(c2, buf.cp(), true, 0));
        P p2(p);
        C c4(c);
        judge("map(map)", same(p2, buf.cp(), true, 0));
        judge("cmap(cmap)", same(c4, buf.cp(), true, 0));
    }
    {
        M m1 = c;
        M m2 = p;
        M m3 = mem;
        judge("mem(cmap)", same(m1, buf.cp(), false, 0));
        judge("mem(map)", same(m2, buf.cp(), false, 0));
        judge("mem(mem)", same(m3, mem.data(), false, 0));
        // the copies are independent of their sources
        for (idx_t i = 0; i < N; ++i)
        {
            m1.data()[i] = mark<T>(i);
            m3.data()[i] = mark<T>(i);
        }
        judge("mem(cmap):independent", same(c, buf.cp(), true, 0) && same(mem, mem.data(), true, 0));
    }
    {
        // assignment to an owning tensor resizes and copies
        M m4;
        m4 = c;
        judge("mem=cmap", same(m4, buf.cp(), false, 0));
        std::array<idx_t, R> other{};
        other.fill(1);
        M m5(other);
        m5.full(mark<T>(7));
        m5 = p;
        judge("mem=map", same(m5, buf.cp(), false, 0));
        M m6(other);
        m6 = mem;
        judge("mem=mem", same(m6, mem.data(), false, 0));
    }
    {
        // assignment to a mutable map copies the elements into the mapped block (same dimensions)
        block_t<T> dst(N);
        dst.fill(mark<T>(3));
        P pd = map_tensor(dst.p(), dd);
        pd = mem;
        judge("map=mem", same(pd, dst.cp(), true, 0) && same(mem, mem.data(), true, 0));
        dst.fill(mark<T>(3));
        pd = c;
        judge("map=cmap", same(pd, dst.cp(), true, 0) && same(c, buf.cp(), true, 0));
        dst.fill(mark<T>(3));
        pd = p;
        judge("map=map", same(pd, dst.cp(), true, 0) && same(p, buf.cp(), true, 0));
        dst.fill(mark<T>(3));
        pd.tensor() = std::as_const(mem).tensor();
        judge("map-view=cmap-view", same(pd, dst.cp(), true, 0));
        if (!dst.intact())
        {
            cx.fail("memory:convert", {});
        }
    }
    if constexpr (R >= 1)
    {
        // an owning tensor assigned from a view of its own buffer (the idiom `t = t.slice(0, k)` of src/gboost/result.cpp):
        // afterwards it holds exactly the elements the view addressed, through the mutable and the constant mapping alike
        const idx_t n0     = dd[0];
        const idx_t stride = n0 > 0 ? N / n0 : 0;
        const auto  holds  = [&](const M& t, const idx_t b, const idx_t e)
        {
            auto expdims = dd;
            expdims[0]   = e - b;
            bool ok      = t.dims() == expdims && t.size() == (e - b) * stride;
            for (idx_t j = 0; ok && j < t.size(); ++j)
            {
                ok = t.data()[j] == val<T>(b * stride + j);
            }
            return ok;
        };
        for (idx_t b = 0; b <= n0; ++b)
        {
            for (idx_t e = b; e <= n0; ++e)
            {
                M a = mem;
                a   = a.slice(b, e);
                M k = mem;
                k   = std::as_const(k).slice(b, e);
                ++cx.ev;
                cx.nt += (e - b) * stride > 0 && e - b < n0 ? 1 : 0;
                if (!holds(a, b, e))
                {
                    cx.fail("convert:mem=own-map-slice:rank" + std::to_string(R), {{"begin", jint(b)}, {"end", jint(e)}});
                }
                if (!holds(k, b, e))
                {
                    cx.fail("convert:mem=own-cmap-slice:rank" + std::to_string(R), {{"begin", jint(b)}, {"end", jint(e)}});
                }
            }
        }
        {
            M a = mem;
            a   = P(a);
            M k = mem;
            k   = C(k);
            M z = mem;
            z   = *&z;
            judge("mem=own-map", holds(a, 0, n0));
            judge("mem=own-cmap", holds(k, 0, n0));
            judge("mem=itself", holds(z, 0, n0));
        }
    }
    if (!buf.intact())
    {
        cx.fail("memory:convert", {});
    }
}

// ---------------------------------------------------------------------------------------------
// summed-area table
template <class O, class T, size_t R>
void check_integral_as(ctx_t& cx, const oracle_t& o, const tensor_mem_t<T, R>& mem, const std::vector<long long>& S,
                       const char* oname)
{
    std::array<idx_t, R> dd{};
    std::copy(o.dims.begin(), o.dims.end(), dd.begin());
    const auto N = o.N;
    if constexpr (std::is_integral_v<O>)
    {
        // exactness is demanded only where every prefix sum is representable in the output type
        for (const auto s : S)
        {
            if (s < static_cast<long long>(std::numeric_limits<O>::lowest()) ||
                (s > 0 && static_cast<unsigned long long>(s) > static_cast<unsigned long long>(std::numeric_limits<O>::max())))
            {
                cx.r.outcome("integral:sum-not-representable(skipped)");
                return;
            }
        }
    }
    const auto judge = [&](const std::string& key, const O* out)
    {
        ++cx.ev;
        cx.nt += N > 1 ? 1 : 0;
        for (idx_t c = 0; c < N; ++c)
        {
            if (!(out[c] == static_cast<O>(S[static_cast<size_t>(c)])))
            {
                cx.fail("integral:" + key + ":rank" + std::to_string(R),
                        {{"output_type", jstr(oname)}, {"index", show(ivec(o.tuple(c), o.tuple(c) + R))},
                         {"expected", jnum(static_cast<double>(S[static_cast<size_t>(c)]))},
                         {"observed", jnum(static_cast<double>(out[c]))}});
                return;
            }
        }
    };
    {
        tensor_mem_t<O, R> out(dd);
        out.full(static_cast<O>(77));
        nano::integral(mem, out);
        judge("mem", out.data());
    }
    {
        block_t<T> ib(N);
        block_t<O> ob(N);
        ib.fill_linear();
        ob.fill(static_cast<O>(77));
        nano::integral(map_tensor(ib.cp(), dd), map_tensor(ob.p(), dd));
        judge("map", ob.cp());
        if (!ib.intact() || !ob.intact())
        {
            cx.fail("memory:integral", {});
        }
    }
}

template <class T, size_t R>
void check_integral(ctx_t& cx, const oracle_t& o, const tensor_mem_t<T, R>& mem)
{
    const auto N = o.N;
    // naive prefix sums: S(t) = sum of v(t') over all t' <= t componentwise
    std::vector<long long> S(static_cast<size_t>(N), 0);
    for (idx_t c = 0; c < N; ++c)
    {
        for (idx_t b = 0; b < N; ++b)
        {
            bool le = true;
            for (size_t d = 0; d < R && le; ++d)
            {
                le = o.tuple(b)[d] <= o.tuple(c)[d];
            }
            if (le)
            {
                S[static_cast<size_t>(c)] += static_cast<long long>(val<T>(b));
            }
        }
    }
    cx.r.outcome(N == 0 ? "integral:empty(no-op)" : (N == 1 ? "integral:singleton" : "integral:general"));
    if constexpr (std::is_integral_v<T>)
    {
        check_integral_as<int64_t>(cx, o, mem, S, "int64");
    }
    else
    {
        check_integral_as<double>(cx, o, mem, S, "double");
    }
    if constexpr (!std::is_same_v<T, int64_t> && !std::is_same_v<T, double>)
    {
        check_integral_as<T>(cx, o, mem, S, tname<T>());
    }
}

// ---------------------------------------------------------------------------------------------
// one (shape, scalar type) case
/// part 0: the accessors of the tensor itself (4 storages); part 1: the algorithms built on top of them
template <class T, size_t R>
void run_shape_rank(ctx_t& cx, const ivec& dims, const bool light, const int part)
{
    const auto o = make_oracle(dims, light ? R - 1 : R);
    std::array<idx_t, R> dd{};
    std::copy(dims.begin(), dims.end(), dd.begin());

    cx.r.outcome(std::string(part == 0 ? "shape:" : "algo:") + (o.N == 0 ? "empty" : (o.N == 1 ? "singleton" : "general")));

    // owning tensor (the element block belongs to Eigen), filled through the raw pointer
    tensor_mem_t<T, R> mem(dd);
    if (mem.size() != o.N)
    {
        cx.storage = "mem";
        cx.fail("dims:rank" + std::to_string(R), {{"observed_size", jint(mem.size())}, {"expected_size", jint(o.N)}});
        return;
    }
    for (idx_t c = 0; c < o.N; ++c)
    {
        mem.data()[c] = val<T>(c);
    }
    if (part == 0)
    {
        check_tensor<T, R, true>(cx, "mem", o, mem, mem.data(), mem.data(), light);
        const auto& cmem = mem;
        check_tensor<T, R, false>(cx, "const-mem", o, cmem, mem.data(), nullptr, light);
    }

    // mapped tensors over a block that the harness owns
    block_t<T> buf(o.N);
    buf.fill_linear();
    auto map  = map_tensor(buf.p(), dd);
    auto cmap = map_tensor(buf.cp(), dd);
    static_assert(std::is_same_v<decltype(map), tensor_map_t<T, R>>);
    static_assert(std::is_same_v<decltype(cmap), tensor_cmap_t<T, R>>);
    if (part == 0)
    {
        check_tensor<T, R, true>(cx, "map", o, map, buf.cp(), buf.p(), light);
        check_tensor<T, R, false>(cx, "cmap", o, cmap, buf.cp(), nullptr, light);
        if (!buf.intact())
        {
            cx.fail("memory:views", {});
        }
    }
    else
    {
        check_indexed<T, R>(cx, o, mem, cmap, map);
        check_conversions<T, R>(cx, o, mem);
        check_integral<T, R>(cx, o, mem);
    }
    if (!buf.intact())
    {
        cx.fail("memory:algorithms", {});
    }
    for (idx_t c = 0; c < o.N; ++c)
    {
        if (!(buf.cp()[c] == val<T>(c)) || !(mem.data()[c] == val<T>(c)))
        {
            cx.fail("source-modified", {{"position", jint(c)}});
            break;
        }
    }
}

template <class T>
void run_shape(ctx_t& cx, const ivec& dims, const bool light, const int part)
{
    switch (dims.size())
    {
    case 1: run_shape_rank<T, 1>(cx, dims, light, part); break;
    case 2: run_shape_rank<T, 2>(cx, dims, light, part); break;
    case 3: run_shape_rank<T, 3>(cx, dims, light, part); break;
    case 4: run_shape_rank<T, 4>(cx, dims, light, part); break;
    default: run_shape_rank<T, 5>(cx, dims, light, part); break;
    }
}

inline std::vector<ivec> small_shapes(const idx_t maxdim5)
{
    std::vector<ivec> out;
    for (size_t rank = 1; rank <= 5; ++rank)
    {
        const ivec radix(rank, rank == 5 ? maxdim5 + 1 : 5);
        idx_t      count = 0;
        const auto all   = odometer(radix.data(), rank, count);
        for (idx_t c = 0; c < count; ++c)
        {
            out.emplace_back(all.begin() + c * static_cast<idx_t>(rank), all.begin() + (c + 1) * static_cast<idx_t>(rank));
        }
    }
    return out;
}

/// the fixed list of larger shapes (<= 1e5 elements): hand-picked corner shapes + a deterministic generator
inline std::vector<ivec> large_shapes()
{
    std::vector<ivec> out = {{100000}, {99991},      {65536},       {1, 100000},  {100000, 1},     {316, 316},
                             {2, 50000}, {7, 11, 13}, {46, 46, 46}, {1, 1, 99991}, {10, 10, 10, 10}, {17, 1, 19, 23},
                             {5, 7, 9, 11}, {3, 7, 5, 4}, {10, 10, 10, 10, 10}, {2, 3, 5, 7, 11}, {9, 1, 9, 1, 9},
                             {1, 1, 1, 1, 100000}, {6, 5, 4, 3, 2}, {31, 2, 31, 2, 13}};
    uint64_t s = 0x9E3779B97F4A7C15ULL;
    while (out.size() < 40)
    {
        const auto rnd = [&]()
        {
            s = s * 6364136223846793005ULL + 1442695040888963407ULL;
            return static_cast<idx_t>((s >> 33) % 1000);
        };
        const size_t rank = 2 + out.size() % 4;
        ivec         d(rank);
        idx_t        prod = 1;
        for (auto& v : d)
        {
            v = 5 + rnd() % (rank == 2 ? 300 : (rank == 3 ? 45 : (rank == 4 ? 17 : 9)));
            prod *= v;
        }
        if (prod <= 100000)
        {
            out.push_back(d);
        }
    }
    return out;
}

// ---------------------------------------------------------------------------------------------
// remove_if
struct removeif_case_t
{
    idx_t    n;
    unsigned mask;
};

template <class T>
void run_removeif(ctx_t& cx, const removeif_case_t rc, const int kind, const idx_t width)
{
    const auto n = rc.n;
    // the predicate reads its flags from a block of exactly n entries: a call outside [0, n) is an access
    // outside the first dimension
    block_t<char> flags(n);
    ivec          kept;
    for (idx_t i = 0; i < n; ++i)
    {
        flags.p()[i] = ((rc.mask >> i) & 1U) ? 1 : 0;
        if (!flags.p()[i])
        {
            kept.push_back(i);
        }
    }
    bool       op_in_range = true;
    const auto op          = [&](const tensor_size_t i)
    {
        if (!g_exact && (i < 0 || i >= n))
        {
            op_in_range = false;
            return false;
        }
        return flags.cp()[i] != 0;
    };
    bool copies = false;
    for (size_t j = 0; j < kept.size(); ++j)
    {
        copies = copies || kept[j] != static_cast<idx_t>(j);
    }
    const kv_t what = {{"n", jint(n)}, {"remove_mask", jint(rc.mask)}, {"pack_kind", jint(kind)}, {"width", jint(width)}};

    // judge one tensor of the pack by its raw buffer: the first count sub-tensors are the kept ones, in order
    const auto judge = [&](const std::string& name, const ivec& dims, const T* data, const idx_t count)
    {
        const auto o = make_oracle(dims, 1);
        ++cx.ev;
        cx.nt += (copies && o.N > 0) ? 1 : 0;
        if (count != static_cast<idx_t>(kept.size()))
        {
            cx.fail("remove_if:count", what);
            return;
        }
        idx_t q = 0;
        for (const auto k : kept)
        {
            for (const auto c : o.levels[1][static_cast<size_t>(k)].members)
            {
                if (!(data[q] == val<T>(c)))
                {
                    auto kv = what;
                    kv.insert(kv.end(), {{"tensor", jstr(name)}, {"position", jint(q)},
                                         {"expected_value", jnum(as_num(val<T>(c)))},
                                         {"observed_value", jnum(as_num(data[q]))}});
                    cx.fail("remove_if:content:" + name, kv);
                    return;
                }
                ++q;
            }
        }
    };
    const auto fill = [](auto& t)
    {
        for (idx_t c = 0; c < t.size(); ++c)
        {
            t.data()[c] = val<T>(c);
        }
    };

    if (kind == 0)
    {
        tensor_mem_t<T, 1> v(n);
        fill(v);
        const auto count = nano::remove_if(op, v);
        judge("vector", {n}, v.data(), count);
    }
    else if (kind == 1)
    {
        tensor_mem_t<T, 1> v(n);
        tensor_mem_t<T, 2> m(n, width);
        fill(v);
        fill(m);
        const auto count = nano::remove_if(op, v, m);
        judge("vector", {n}, v.data(), count);
        judge("matrix", {n, width}, m.data(), count);
    }
    else if (kind == 2)
    {
        block_t<T> bm(n * width), bt(n * 2 * width), bv(n);
        auto       m = map_tensor(bm.p(), n, width);
        auto       t = map_tensor(bt.p(), n, idx_t{2}, width);
        auto       v = map_tensor(bv.p(), n);
        fill(m);
        fill(t);
        fill(v);
        const auto count = nano::remove_if(op, m, t, v);
        judge("matrix", {n, width}, bm.cp(), count);
        judge("tensor3", {n, 2, width}, bt.cp(), count);
        judge("vector", {n}, bv.cp(), count);
        if (!bm.intact() || !bt.intact() || !bv.intact())
        {
            cx.fail("memory:remove_if", what);
        }
    }
    else
    {
        tensor_mem_t<T, 3> t(n, width, 2);
        tensor_mem_t<T, 1> v(n);
        tensor_mem_t<T, 4> q(n, 1, width, 3);
        fill(t);
        fill(v);
        fill(q);
        const auto count = nano::remove_if(op, t, v, q);
        judge("tensor3", {n, width, 2}, t.data(), count);
        judge("vector", {n}, v.data(), count);
        judge("tensor4", {n, 1, width, 3}, q.data(), count);
    }
    if (!op_in_range)
    {
        cx.fail("remove_if:predicate-index-out-of-range", what);
    }
    if (!flags.intact())
    {
        cx.fail("memory:remove_if", what);
    }
    cx.r.outcome(kept.empty() ? "remove_if:all-removed" : (copies ? "remove_if:compacting" : "remove_if:nothing-moves"));
}

// ---------------------------------------------------------------------------------------------
// stack
struct stack_case_t
{
    int   kind; ///< 0: two row blocks, 1: two column blocks, 2: 2x2 blocks, 3: vector of two segments
    idx_t rows, cols, r, c;
};

inline std::vector<stack_case_t> stack_cases()
{
    std::vector<stack_case_t> out;
    for (idx_t rows = 1; rows <= 4; ++rows)
    {
        for (idx_t cols = 1; cols <= 4; ++cols)
        {
            for (idx_t r = 1; r < rows; ++r)
            {
                out.push_back({0, rows, cols, r, cols});
            }
            for (idx_t c = 1; c < cols; ++c)
            {
                out.push_back({1, rows, cols, rows, c});
            }
            for (idx_t r = 1; r < rows; ++r)
            {
                for (idx_t c = 1; c < cols; ++c)
                {
                    out.push_back({2, rows, cols, r, c});
                }
            }
        }
    }
    for (idx_t rows = 2; rows <= 6; ++rows)
    {
        for (idx_t r = 1; r < rows; ++r)
        {
            out.push_back({3, rows, 1, r, 1});
        }
    }
    return out;
}

/// block [r0, r1) x [c0, c1) of the rows x cols matrix whose element (i, j) has the value of its odometer number
template <class T>
void cut(T* dst, const idx_t cols, const idx_t r0, const idx_t r1, const idx_t c0, const idx_t c1)
{
    // number of (i, j) by counting, not by multiplying
    idx_t number = 0, q = 0;
    for (idx_t i = 0; i < r1; ++i)
    {
        for (idx_t j = 0; j < cols; ++j, ++number)
        {
            if (i >= r0 && j >= c0 && j < c1)
            {
                dst[q++] = val<T>(number);
            }
        }
    }
}

template <class T>
void run_stack(ctx_t& cx, const stack_case_t sc, const int repr)
{
    const kv_t what = {{"kind", jint(sc.kind)}, {"rows", jint(sc.rows)}, {"cols", jint(sc.cols)},
                       {"split_row", jint(sc.r)}, {"split_col", jint(sc.c)}, {"representation", jint(repr)}};
    const auto judge = [&](const auto& out, const idx_t rows, const idx_t cols)
    {
        ++cx.ev;
        ++cx.nt;
        bool ok = out.size() == rows * cols && out.template size<0>() == rows;
        if constexpr (std::remove_reference_t<decltype(out)>::rank() == 2)
        {
            ok = ok && out.cols() == cols;
        }
        for (idx_t c = 0; ok && c < out.size(); ++c)
        {
            ok = out.data()[c] == val<T>(c);
        }
        if (!ok)
        {
            cx.fail("stack:kind" + std::to_string(sc.kind) + ":repr" + std::to_string(repr), what);
        }
    };
    // the four quadrants A | B / C | D (kind 0: A over C with full width; kind 1: A | B with full height)
    const auto R = sc.rows, Cn = sc.cols, r = sc.r, c = sc.c;
    block_t<T> ba(r * c), bb(r * (Cn - c)), bc((R - r) * c), bd((R - r) * (Cn - c));
    cut(ba.p(), Cn, 0, r, 0, c);
    cut(bb.p(), Cn, 0, r, c, Cn);
    cut(bc.p(), Cn, r, R, 0, c);
    cut(bd.p(), Cn, r, R, c, Cn);
    const auto A = map_tensor(ba.cp(), r, c);
    const auto B = map_tensor(bb.cp(), r, Cn - c);
    const auto C = map_tensor(bc.cp(), R - r, c);
    const auto D = map_tensor(bd.cp(), R - r, Cn - c);
    using E      = eigen_matrix_t<T>;
    const auto M = [](const auto& t)
    {
        tensor_mem_t<T, std::remove_reference_t<decltype(t)>::rank()> owned = t;
        return owned;
    };

    if (sc.kind == 3)
    {
        const auto a = map_tensor(ba.cp(), r);
        const auto b = map_tensor(bc.cp(), R - r);
        const auto V = M;
        switch (repr)
        {
        case 0: judge(nano::stack<T>(R, a, b), R, 1); break;
        case 1: judge(nano::stack<T>(R, V(a), V(b)), R, 1); break;
        case 2: judge(nano::stack<T>(R, a.vector(), b.vector()), R, 1); break;
        case 3: judge(nano::stack<T>(R, eigen_vector_t<T>(a.vector()), b), R, 1); break;
        default: judge(nano::stack<T>(R, a, eigen_vector_t<T>(b.vector())), R, 1); break;
        }
    }
    else if (sc.kind == 0)
    {
        switch (repr)
        {
        case 0: judge(nano::stack<T>(R, Cn, A, C), R, Cn); break;
        case 1: judge(nano::stack<T>(R, Cn, M(A), M(C)), R, Cn); break;
        case 2: judge(nano::stack<T>(R, Cn, A.matrix(), C.matrix()), R, Cn); break;
        case 3: judge(nano::stack<T>(R, Cn, E(A.matrix()), C), R, Cn); break;
        default:
            // a single row handed over as the transpose of a vector
            if (r == 1)
            {
                judge(nano::stack<T>(R, Cn, map_tensor(ba.cp(), c).transpose(), C), R, Cn);
            }
            else
            {
                judge(nano::stack<T>(R, Cn, A, E(C.matrix())), R, Cn);
            }
            break;
        }
    }
    else if (sc.kind == 1)
    {
        switch (repr)
        {
        case 0: judge(nano::stack<T>(R, Cn, A, B), R, Cn); break;
        case 1: judge(nano::stack<T>(R, Cn, M(A), M(B)), R, Cn); break;
        case 2: judge(nano::stack<T>(R, Cn, A.matrix(), B.matrix()), R, Cn); break;
        case 3: judge(nano::stack<T>(R, Cn, E(A.matrix()), B), R, Cn); break;
        default:
            // a single column handed over as a rank-1 tensor
            if (c == 1)
            {
                judge(nano::stack<T>(R, Cn, map_tensor(ba.cp(), r), B), R, Cn);
            }
            else if (Cn - c == 1)
            {
                judge(nano::stack<T>(R, Cn, A, map_tensor(bb.cp(), r)), R, Cn);
            }
            else
            {
                judge(nano::stack<T>(R, Cn, A, E(B.matrix())), R, Cn);
            }
            break;
        }
    }
    else
    {
        switch (repr)
        {
        case 0: judge(nano::stack<T>(R, Cn, A, B, C, D), R, Cn); break;
        case 1: judge(nano::stack<T>(R, Cn, M(A), M(B), M(C), M(D)), R, Cn); break;
        case 2: judge(nano::stack<T>(R, Cn, A.matrix(), B.matrix(), C.matrix(), D.matrix()), R, Cn); break;
        case 3: judge(nano::stack<T>(R, Cn, E(A.matrix()), B, E(C.matrix()), D), R, Cn); break;
        default: judge(nano::stack<T>(R, Cn, A, E(B.matrix()), C, E(D.matrix())), R, Cn); break;
        }
    }
    if (!ba.intact() || !bb.intact() || !bc.intact() || !bd.intact())
    {
        cx.fail("memory:stack", what);
    }
    cx.r.outcome("stack:kind" + std::to_string(sc.kind));
}

// ---------------------------------------------------------------------------------------------
// the reshape calls that are NOT part of the judged alphabet: a -1 next to a zero dimension (not uniquely
// determined). Each is run in a forked child; what happens is recorded as a note, never as a violation.
struct probe_t
{
    ivec dims, given;
};

inline std::string run_probe(const probe_t& pr)
{
    std::fflush(nullptr);
    const pid_t pid = fork();
    if (pid < 0)
    {
        return jstr("fork failed");
    }
    if (pid == 0)
    {
        struct rlimit rl = {0, 0};
        setrlimit(RLIMIT_CORE, &rl);
        if (std::freopen("/dev/null", "w", stderr) == nullptr)
        {
            _exit(98);
        }
        volatile idx_t d0 = pr.dims[0], d1 = pr.dims.size() > 1 ? pr.dims[1] : 0;
        volatile idx_t g0 = pr.given[0], g1 = pr.given[1];
        idx_t          r0 = 0, r1 = 0;
        if (pr.dims.size() == 1)
        {
            tensor_mem_t<double, 1> t(d0);
            const auto              rs = t.reshape(g0, g1);
            r0 = rs.template size<0>();
            r1 = rs.template size<1>();
        }
        else
        {
            tensor_mem_t<double, 2> t(d0, d1);
            const auto              rs = t.reshape(g0, g1);
            r0 = rs.template size<0>();
            r1 = rs.template size<1>();
        }
        // returned: encode the inferred dimensions in the exit code (both are in 0..9 if sane)
        _exit((r0 >= 0 && r0 < 10 && r1 >= 0 && r1 < 10) ? static_cast<int>(10 + r0 * 10 + r1) % 250 : 99);
    }
    int status = 0;
    if (waitpid(pid, &status, 0) != pid)
    {
        return jstr("waitpid failed");
    }
    std::string what;
    if (WIFSIGNALED(status))
    {
        what = std::string("killed by signal ") + std::to_string(WTERMSIG(status)) + " (" + strsignal(WTERMSIG(status)) + ")";
    }
    else if (WEXITSTATUS(status) >= 10 && WEXITSTATUS(status) < 110 && WEXITSTATUS(status) != 99 && WEXITSTATUS(status) != 98)
    {
        const int code = WEXITSTATUS(status) - 10;
        what = "returned dims [" + std::to_string(code / 10) + "," + std::to_string(code % 10) + "]";
    }
    else
    {
        what = "exited with status " + std::to_string(WEXITSTATUS(status)) + " (sanitizer abort or insane dimensions)";
    }
    return jobj({{"tensor_dims", show(pr.dims)}, {"reshape", show(pr.given)}, {"outcome", jstr(what)}});
}

// ---------------------------------------------------------------------------------------------
// one translation unit per scalar type (compile time); the driver reaches them through this table
struct api_t
{
    void (*shape)(ctx_t&, const ivec& dims, bool light, int part);
    void (*removeif)(ctx_t&, removeif_case_t, int kind, idx_t width);
    void (*stack)(ctx_t&, stack_case_t, int repr);
};

#define C16_DECLARE(name) const api_t* api_##name();
C16_DECLARE(int8)
C16_DECLARE(int16)
C16_DECLARE(int32)
C16_DECLARE(int64)
C16_DECLARE(uint8)
C16_DECLARE(uint16)
C16_DECLARE(uint32)
C16_DECLARE(uint64)
C16_DECLARE(float)
C16_DECLARE(double)
#undef C16_DECLARE

#ifdef C16_TYPE
#define C16_CAT2(a, b) a##b
#define C16_CAT(a, b) C16_CAT2(a, b)
const api_t* C16_CAT(api_, C16_NAME)()
{
// the sanitizer build instantiates only the scalar types its stage uses
#if defined(__SANITIZE_ADDRESS__) && !C16_ASAN
    return nullptr;
#else
    static const api_t api = {&run_shape<C16_TYPE>, &run_removeif<C16_TYPE>, &run_stack<C16_TYPE>};
    return &api;
#endif
}
#endif
} // namespace c16
