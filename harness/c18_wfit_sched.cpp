// C18 (schedules of one weak-learner fit) — wlearner_t::fit scores the features of the dataset in chunks that are handed
// to the workers of the dataset's pool, each worker keeping its own cache with the best candidate it has seen; the best
// cache wins. Which worker scores which chunk (and which chunks share a cache) is a scheduling decision. Under the
// controlled scheduler (E1) every distribution within the preemption bound is produced for W = 2..3 workers, and the
// fitted learner of EVERY schedule must be the one of the one-thread fit (all features through one cache): same
// selected features, same score, predictions within 1e-5 relative (C18: "the same model whatever the number of
// hardware threads"). The datasets are made so that an incumbent leaking from one feature's scoring into another's
// changes the winner: categorical features with many classes and few samples per class whose one-constant-per-class
// fit is penalised by the default AICc criterion while their clustered fit is the best candidate, next to a decoy.
//
// case encoding: "W:<learner>:<dataset>:<W>:<budget>|c0,c1,..."
#include "table_ds.h"
#include "verif.h"
#include "vsched.h"
#include <nano/wlearner.h>
#include <sched.h>
#include <unistd.h>

using namespace nano;
using namespace verif;

namespace
{
const std::vector<std::string>& learner_ids()
{
    static const std::vector<std::string> ids = {"ksplit-table", "kbest-table", "dense-table", "dstep-table",
                                                 "stump",        "hinge",       "affine",      "dtree"};
    return ids;
}

struct config_t
{
    int         learner = 0, dataset = 0, W = 2, budget = 1;
    std::string str() const
    {
        return "W:" + std::to_string(learner) + ":" + std::to_string(dataset) + ":" + std::to_string(W) + ":" + std::to_string(budget);
    }
};

struct fitted_t
{
    double     score = 0;
    indices_t  features;
    tensor4d_t predictions;
};

struct context_t
{
    config_t                                cfg;
    report_t*                               r = nullptr;
    std::unique_ptr<vt::table_datasource_t> source;
    tensor4d_t                              gradients;
    indices_t                               samples;
    fitted_t                                got, ref;
    int                                     violations_here = 0;
    uint64_t                                preempted = 0, ties = 0;
    bool                                    tie_reported = false;
    int                                     dtree_depth  = 2;
};

// dataset 0: decoy (12 classes) BEFORE strong (12 classes), two scalars; dataset 1: strong before decoy, a 3-class
// feature and a scalar in between; dataset 2: three many-class features (decoy, weak, strong) and no scalar
std::unique_ptr<vt::table_datasource_t> make_source(const int kind, tensor_size_t& N)
{
    N                  = 60;
    const int classes  = 12;
    std::vector<vt::column_t> cols;
    std::vector<int>          role; // 0 decoy, 1 strong, 2 small categorical, 3 scalar, 4 weak
    const auto add = [&](const int what)
    {
        role.push_back(what);
        const auto name = "f" + std::to_string(cols.size());
        if (what == 3)
        {
            cols.push_back(vt::make_scalar(name));
        }
        else
        {
            cols.push_back(vt::make_sclass(name, what == 2 ? 3 : static_cast<size_t>(classes)));
        }
    };
    if (kind == 0)
    {
        add(0), add(1), add(3), add(3);
    }
    else if (kind == 1)
    {
        add(1), add(2), add(3), add(0);
    }
    else
    {
        add(0), add(4), add(1);
    }
    cols.push_back(vt::make_scalar("y"));
    for (auto& c : cols)
    {
        c.values.resize(static_cast<size_t>(N));
    }
    for (tensor_size_t s = 0; s < N; ++s)
    {
        const auto u      = static_cast<uint64_t>(s);
        const auto i      = static_cast<size_t>(s);
        const int  decoy  = static_cast<int>((u * 7 + 3) % static_cast<uint64_t>(classes));
        const int  strong = static_cast<int>((u * 5 + u / 12) % static_cast<uint64_t>(classes));
        const int  weak   = static_cast<int>((u * 11 + 1) % static_cast<uint64_t>(classes));
        double     y      = 0.35 * vt::generic(u, 9) + (decoy % 2 == 0 ? 0.9 : -0.9) + (strong % 2 == 0 ? 1.0 : -1.0) +
                   (weak % 3 == 0 ? 0.3 : -0.15);
        for (size_t f = 0; f + 1 < cols.size(); ++f)
        {
            switch (role[f])
            {
            case 0: cols[f].values[i] = std::vector<double>{static_cast<double>(decoy)}; break;
            case 1: cols[f].values[i] = std::vector<double>{static_cast<double>(strong)}; break;
            case 2: cols[f].values[i] = std::vector<double>{static_cast<double>((u * 2 + 1) % 3)}; break;
            case 4: cols[f].values[i] = std::vector<double>{static_cast<double>(weak)}; break;
            default:
            {
                const double x   = vt::generic(u, 20 + f);
                cols[f].values[i] = std::vector<double>{x};
                y += 0.2 * x;
                break;
            }
            }
        }
        cols.back().values[i] = std::vector<double>{y};
    }
    auto src = std::make_unique<vt::table_datasource_t>(N, std::move(cols), static_cast<tensor_size_t>(role.size()));
    src->load();
    return src;
}

void fit_with(context_t& c, const size_t threads, fitted_t& out)
{
    auto dataset = dataset_t{*c.source, threads};
    vt::add_identity_generators(dataset);
    auto learner = wlearner_t::all().get(learner_ids()[static_cast<size_t>(c.cfg.learner)]);
    if (learner->type_id() == "dtree")
    {
        // every node is another round of pool calls: the schedule space of the default depth 3 does not close within the deadline
        learner->parameter("wlearner::dtree::max_depth") = c.dtree_depth;
    }
    out.score    = learner->fit(dataset, c.samples, c.gradients);
    out.features = learner->features();
    out.predictions = tensor4d_t(c.gradients.dims());
    out.predictions.zero();
    if (out.score != wlearner_t::no_fit_score())
    {
        learner->predict(dataset, c.samples, out.predictions.tensor());
    }
}

void body(void* p)
{
    auto& c = *static_cast<context_t*>(p);
    fit_with(c, static_cast<size_t>(c.cfg.W), c.got);
}

std::string choices_str(const int* ch, const int n)
{
    std::string s;
    for (int i = 0; i < n; ++i)
    {
        s += (i ? "," : "") + std::to_string(ch[i]);
    }
    return s;
}

std::string show(const indices_t& f)
{
    std::string s = "[";
    for (tensor_size_t i = 0; i < f.size(); ++i)
    {
        s += (i ? "," : "") + std::to_string(f(i));
    }
    return s + "]";
}

void violation(context_t& c, const std::string& what, const int* ch, const int n, const std::string& detail)
{
    ++c.violations_here;
    c.r->violation("wfit-sched:" + what + ":" + learner_ids()[static_cast<size_t>(c.cfg.learner)], c.cfg.str() + "|" + choices_str(ch, n),
                   jobj({{"config", jstr(c.cfg.str())}, {"learner", jstr(learner_ids()[static_cast<size_t>(c.cfg.learner)])},
                         {"what", jstr(what)}, {"detail", jstr(detail)}}));
}

bool after(void* p, const int* ch, const int n)
{
    auto& c = *static_cast<context_t*>(p);
    if (c.got.features.size() != c.ref.features.size() || (c.got.features.size() > 0 && c.got.features.vector() != c.ref.features.vector()))
    {
        const auto maxdiff    = (c.got.predictions.vector() - c.ref.predictions.vector()).array().abs().maxCoeff();
        const auto same_score = std::fabs(c.got.score - c.ref.score) <= 1e-12 * (1.0 + std::fabs(c.ref.score));
        const auto same_pred  = maxdiff <= 1e-9 * (1.0 + c.ref.predictions.vector().array().abs().maxCoeff());
        const auto detail     = "features " + show(c.got.features) + " score " + std::to_string(c.got.score) + "; one-thread fit: features " +
                            show(c.ref.features) + " score " + std::to_string(c.ref.score) + "; max |prediction difference| " +
                            std::to_string(maxdiff);
        if (same_score && same_pred)
        {
            // candidates with exactly the same score (and the same predictions on the fitted samples): which one is reported
            // depends on the cache it was scored in. Reported once per configuration under its own key; the search goes on.
            if (!c.tie_reported)
            {
                c.tie_reported = true;
                c.r->violation("wfit-sched:equal-score-tie-resolved-by-schedule:" + learner_ids()[static_cast<size_t>(c.cfg.learner)] +
                                   ":dataset" + std::to_string(c.cfg.dataset),
                               c.cfg.str() + "|" + choices_str(ch, n),
                               jobj({{"config", jstr(c.cfg.str())}, {"learner", jstr(learner_ids()[static_cast<size_t>(c.cfg.learner)])},
                                     {"detail", jstr(detail)}}));
            }
            ++c.ties;
        }
        else
        {
            violation(c, "selected-features-depend-on-schedule", ch, n, detail);
        }
    }
    else if (!(std::fabs(c.got.score - c.ref.score) <= 1e-9 * (1.0 + std::fabs(c.ref.score))))
    {
        violation(c, "score-depends-on-schedule", ch, n, std::to_string(c.got.score) + " vs " + std::to_string(c.ref.score));
    }
    else if (!((c.got.predictions.vector() - c.ref.predictions.vector()).array().abs().maxCoeff() <=
               1e-5 * (1.0 + c.ref.predictions.vector().array().abs().maxCoeff())))
    {
        violation(c, "predictions-depend-on-schedule", ch, n, "beyond 1e-5 relative");
    }
    if (sched::last_preemptions() > 0)
    {
        ++c.preempted;
    }
    return c.violations_here < 3;
}

[[noreturn]] void fatal(void* p, const sched::status_t why, const int* ch, const int n)
{
    auto& c = *static_cast<context_t*>(p);
    if (why == sched::ST_DIVERGED)
    {
        std::fprintf(stderr, "replay diverged for %s|%s\n", c.cfg.str().c_str(), choices_str(ch, n).c_str());
        _exit(2);
    }
    violation(c, why == sched::ST_DEADLOCK ? "deadlock" : why == sched::ST_HANG ? "hang" : "thread-leak", ch, n,
              "no execution of this schedule can complete");
    c.r->cap("exploration stopped at the first fatal schedule");
    c.r->finish();
    _exit(1);
}

void setup(context_t& c)
{
    sched::set_hw_threads(std::max(c.cfg.W, 1));
    tensor_size_t N = 0;
    c.source        = make_source(c.cfg.dataset, N);
    c.samples       = arange(0, N);
    c.gradients     = tensor4d_t(make_dims(N, 1, 1, 1));
    {
        // the residuals of the zero model under the squared loss: gradient = -target
        auto       dataset = dataset_t{*c.source, 1U};
        vt::add_identity_generators(dataset);
        tensor4d_t buffer;
        const auto targets = dataset.targets(c.samples, buffer);
        for (tensor_size_t i = 0; i < N; ++i)
        {
            c.gradients(i) = -targets(i);
        }
    }
    fit_with(c, 1U, c.ref); // inline path: all features through one cache, no scheduling involved
    c.violations_here = 0;
    c.tie_reported    = false;
    c.ties            = 0;
}

bool parse_case(const std::string& s, config_t& k, std::vector<int>& choices)
{
    const auto bar = s.find('|');
    if (std::sscanf(s.c_str(), "W:%d:%d:%d:%d", &k.learner, &k.dataset, &k.W, &k.budget) != 4 || k.learner < 0 ||
        k.learner >= static_cast<int>(learner_ids().size()))
    {
        return false;
    }
    choices.clear();
    if (bar != std::string::npos)
    {
        const char* q = s.c_str() + bar + 1;
        while (*q)
        {
            choices.push_back(static_cast<int>(std::strtol(q, const_cast<char**>(&q), 10)));
            if (*q == ',')
            {
                ++q;
            }
        }
    }
    return true;
}
} // namespace

int main(int argc, char** argv)
{
    const auto args = parse_args(argc, argv);
    report_t   r("c18/wfit-sched", args);
    context_t  c;
    c.r = &r;
    {
        cpu_set_t set;
        CPU_ZERO(&set);
        const long ncpu = sysconf(_SC_NPROCESSORS_ONLN);
        CPU_SET(static_cast<int>(args.shard % (ncpu > 0 ? ncpu : 1)), &set);
        sched_setaffinity(0, sizeof(set), &set);
    }
    (void)wlearner_t::all().ids();
    (void)generator_t::all().ids();
    (void)datasource_t::all().ids();

    if (!args.one.empty())
    {
        std::vector<int> choices;
        if (!parse_case(args.one, c.cfg, choices))
        {
            return 2;
        }
        c.dtree_depth = static_cast<int>(args.geti("dtree-depth", 2));
        setup(c);
        sched::config_t sc;
        sc.budget = c.cfg.budget;
        sched::replay(sc, body, after, fatal, &c, choices.data(), static_cast<int>(choices.size()));
        r.evaluations = 1;
        r.traces      = 1;
        return r.finish();
    }

    const int budget = static_cast<int>(args.geti("budget", 1));
    const int maxW   = static_cast<int>(args.geti("maxW", 2));
    c.dtree_depth    = static_cast<int>(args.geti("dtree-depth", 2));
    std::vector<config_t> configs;
    for (int W = 2; W <= maxW; ++W)
    {
        for (int ds = 0; ds < 3; ++ds)
        {
            for (int l = 0; l < static_cast<int>(learner_ids().size()); ++l)
            {
                config_t k;
                k.learner = l, k.dataset = ds, k.W = W, k.budget = budget;
                configs.push_back(k);
            }
        }
    }
    r.axis("learners", jstr("ksplit-table, kbest-table, dense-table, dstep-table, stump, hinge, affine, dtree (default parameters, AICc criterion)"));
    r.axis("datasets", jstr("60 samples; 12-class categorical features with two-level effects (decoy 0.9, strong 1.0, weak 0.3) in three "
                            "orders, with / without scalar features and a 3-class feature"));
    r.axis("workers", jstr("2.." + std::to_string(maxW)));
    r.axis("dtree_max_depth", jint(c.dtree_depth));
    r.axis("preemption_budget", jint(budget));
    std::map<std::string, uint64_t> winners;
    for (size_t i = 0; i < configs.size(); ++i)
    {
        if (!args.mine(i))
        {
            continue;
        }
        c.cfg = configs[i];
        setup(c);
        sched::config_t sc;
        sc.budget = budget;
        sc.prune  = 1;
        sched::stats_t st;
        const double   left = args.deadline - r.elapsed();
        if (left <= 0)
        {
            r.cap("deadline: " + c.cfg.str() + " not explored");
            break;
        }
        sched::explore(sc, body, after, fatal, &c, 0, 1, left, &st);
        r.traces += st.executions;
        r.evaluations += st.executions;
        r.transitions += st.transitions;
        r.states += st.states;
        r.nontrivial += c.preempted;
        c.preempted = 0;
        r.outcome(learner_ids()[static_cast<size_t>(c.cfg.learner)] + " on dataset " + std::to_string(c.cfg.dataset) + ": one-thread fit selects " +
                      show(c.ref.features),
                  st.executions);
        if (c.ties > 0)
        {
            r.outcome("schedules in which an exact tie was resolved differently from the one-thread fit", c.ties);
        }
        if (st.capped)
        {
            r.cap("deadline hit inside " + c.cfg.str());
        }
        r.sample(jobj({{"config", jstr(c.cfg.str())}, {"executions", jint(st.executions)}, {"max_decisions", jint(st.max_depth)},
                       {"reference_features", jstr(show(c.ref.features))}, {"reference_score", jnum(c.ref.score)}}));
        if (c.violations_here > 0)
        {
            break;
        }
    }
    r.assume("scheduling points are the pool's synchronisation operations: the unit that moves between workers is one chunk of "
             "features, which is the granularity at which per-worker caches can differ");
    return r.finish();
}
