// C05 — penalty / augmented-Lagrangian functions match their definitions; AL `converged` means feasible
// (E3, bounded exhaustive).
//
// stages (selected with --stage):
//   formulas : objective x n x every subset (size 0..3, thorough 0..4) of a pool of 22 constraints (2 coefficient
//              instances of each of the 11 kinds) x 9 lattice points x 4 penalties x every multiplier combination:
//              linear_penalty_function_t / quadratic_penalty_function_t / augmented_lagrangian_function_t against the
//              formulas of include/nano/function/penalty.h coded here in long double from this file's own h_j, g_i
//   al       : solver_augmented_lagrangian_t on three stated families of small constrained problems
//              (lp : every feasible and bounded n=2 LP/QP of a small-integer lattice, decided by exact vertex
//                    enumeration in integer arithmetic, converted with nano::make_function(program);
//               kkt: KKT-constructed LP/QPs with n in {2,3,5} (feasible by construction);
//               bb : quadratics constrained by a ball / a box, active and inactive)
//              x epsilon x x0: `converged` => every |h_j(x)| <= eps and max(0, g_i(x)) <= eps recomputed here, and
//              state.ceq()/cineq()/kkt_optimality_test1/2 equal the recomputation.
#include "verif.h"
#include <algorithm>
#include <cfloat>
#include <memory>
#include <nano/function.h>
#include <nano/function/penalty.h>
#include <nano/function/program.h>
#include <nano/solver/augmented.h>
#include <nano/solver/state.h>

using namespace nano;
using namespace verif;

namespace
{
using ld = long double;

constexpr ld EPS  = DBL_EPSILON;
constexpr ld TOLK = 8; ///< the statement's tolerance: 8 eps * sum |terms|

vector_t to_vector(const std::vector<double>& v)
{
    auto x = vector_t{static_cast<tensor_size_t>(v.size())};
    for (size_t i = 0; i < v.size(); ++i)
    {
        x(static_cast<tensor_size_t>(i)) = v[i];
    }
    return x;
}

matrix_t to_matrix(const std::vector<double>& v, const int rows, const int cols)
{
    auto M = matrix_t{rows, cols};
    for (int i = 0; i < rows; ++i)
    {
        for (int j = 0; j < cols; ++j)
        {
            M(i, j) = v[static_cast<size_t>(i * cols + j)];
        }
    }
    return M;
}

std::vector<double> from_vector(const vector_t& x)
{
    std::vector<double> v(static_cast<size_t>(x.size()));
    for (size_t i = 0; i < v.size(); ++i)
    {
        v[i] = x(static_cast<tensor_size_t>(i));
    }
    return v;
}

template <class T>
std::string jarr_ld(const std::vector<T>& v)
{
    return jarr(v.begin(), v.end(), [](const T a) { return jnum(static_cast<double>(a)); });
}

const char* status_name(const solver_status s)
{
    switch (s)
    {
    case solver_status::max_iters: return "max_iters";
    case solver_status::converged: return "converged";
    case solver_status::failed: return "failed";
    case solver_status::unfeasible: return "unfeasible";
    case solver_status::unbounded: return "unbounded";
    default: return "unknown-status";
    }
}

// ------------------------------------------------------------------------------------------------------------------
// user functions of the harness (inputs of the code under test, not part of it)

/// objective: f(x) = 1/2 x'Ax - b'x with a fixed SPD A (leading n x n block) and b
class hquad_t final : public function_t
{
public:
    explicit hquad_t(const tensor_size_t n)
        : function_t("hquad", n)
    {
        convex(convexity::yes);
        smooth(smoothness::yes);
        strong_convexity(0.5);
    }

    rfunction_t clone() const override { return std::make_unique<hquad_t>(*this); }

    scalar_t do_vgrad(vector_cmap_t x, vector_map_t gx) const override
    {
        static const double A[3][3] = {{3.0, 1.0, 0.0}, {1.0, 2.0, -0.5}, {0.0, -0.5, 1.5}};
        static const double b[3]    = {0.7, -0.2, 0.4};
        const auto          n       = size();
        double              fx      = 0;
        for (tensor_size_t i = 0; i < n; ++i)
        {
            double ax = 0;
            for (tensor_size_t j = 0; j < n; ++j)
            {
                ax += A[i][j] * x(j);
            }
            fx += 0.5 * x(i) * ax - b[i] * x(i);
            if (gx.size() == x.size())
            {
                gx(i) = ax - b[i];
            }
        }
        return fx;
    }
};

/// objective of the ball/box problems: f(x) = 1/2 (x-t)'A(x-t)
class tquad_t final : public function_t
{
public:
    tquad_t(const tensor_size_t n, std::vector<double> A, std::vector<double> t)
        : function_t("tquad", n)
        , m_A(std::move(A))
        , m_t(std::move(t))
    {
        convex(convexity::yes);
        smooth(smoothness::yes);
        strong_convexity(0.0);
    }

    rfunction_t clone() const override { return std::make_unique<tquad_t>(*this); }

    scalar_t do_vgrad(vector_cmap_t x, vector_map_t gx) const override
    {
        const auto n  = size();
        double     fx = 0;
        for (tensor_size_t i = 0; i < n; ++i)
        {
            double ad = 0;
            for (tensor_size_t j = 0; j < n; ++j)
            {
                ad += m_A[static_cast<size_t>(i * n + j)] * (x(j) - m_t[static_cast<size_t>(j)]);
            }
            fx += 0.5 * (x(i) - m_t[static_cast<size_t>(i)]) * ad;
            if (gx.size() == x.size())
            {
                gx(i) = ad;
            }
        }
        return fx;
    }

private:
    std::vector<double> m_A, m_t;
};

/// functional constraints: kind 0: a x.x + b x_0 + c;  kind 1: log(0.36 + x.x) + c
class hfun_t final : public function_t
{
public:
    hfun_t(const tensor_size_t n, const int fkind, const double a, const double b, const double c)
        : function_t(fkind == 0 ? "hfun-quad" : "hfun-log", n)
        , m_kind(fkind)
        , m_a(a)
        , m_b(b)
        , m_c(c)
    {
        convex(fkind == 0 && a >= 0 ? convexity::yes : convexity::no);
        smooth(smoothness::yes);
    }

    rfunction_t clone() const override { return std::make_unique<hfun_t>(*this); }

    scalar_t do_vgrad(vector_cmap_t x, vector_map_t gx) const override
    {
        const auto n  = size();
        double     xx = 0;
        for (tensor_size_t i = 0; i < n; ++i)
        {
            xx += x(i) * x(i);
        }
        if (m_kind == 0)
        {
            if (gx.size() == x.size())
            {
                for (tensor_size_t i = 0; i < n; ++i)
                {
                    gx(i) = 2.0 * m_a * x(i) + (i == 0 ? m_b : 0.0);
                }
            }
            return m_a * xx + m_b * x(0) + m_c;
        }
        const auto s = 0.36 + xx;
        if (gx.size() == x.size())
        {
            for (tensor_size_t i = 0; i < n; ++i)
            {
                gx(i) = 2.0 * x(i) / s;
            }
        }
        return std::log(s) + m_c;
    }

private:
    int    m_kind;
    double m_a, m_b, m_c;
};

// ------------------------------------------------------------------------------------------------------------------
// the harness's own model of a constraint (definitions of include/nano/function/constraint.h, coded independently)
enum class kind
{
    constant,
    minimum,
    maximum,
    ball_eq,
    ball_ineq,
    lin_eq,
    lin_ineq,
    quad_eq,
    quad_ineq,
    func_eq,
    func_ineq
};

const char* kind_name(const kind k)
{
    switch (k)
    {
    case kind::constant: return "constant";
    case kind::minimum: return "minimum";
    case kind::maximum: return "maximum";
    case kind::ball_eq: return "ball_eq";
    case kind::ball_ineq: return "ball_ineq";
    case kind::lin_eq: return "lin_eq";
    case kind::lin_ineq: return "lin_ineq";
    case kind::quad_eq: return "quad_eq";
    case kind::quad_ineq: return "quad_ineq";
    case kind::func_eq: return "func_eq";
    default: return "func_ineq";
    }
}

/// value, gradient and the magnitudes (sum of absolute values of the terms) of one constraint at one point
struct cval_t
{
    ld              v = 0; ///< h_j(x) or g_i(x)
    ld              M = 0; ///< sum |terms| of the value
    std::vector<ld> g;     ///< gradient
    std::vector<ld> G;     ///< sum |terms| of every gradient component
};

struct hc_t
{
    kind                k = kind::constant;
    std::string         name;
    int                 n     = 0;
    int                 dim   = 0; // constant / minimum / maximum
    double              value = 0;
    std::vector<double> origin; // ball
    double              radius = 0;
    std::vector<double> P, q; // linear / quadratic (P row-major n x n)
    double              r     = 0;
    int                 fkind = 0; // functional
    double              fa = 0, fb = 0, fc = 0;

    bool equality() const
    {
        return k == kind::constant || k == kind::ball_eq || k == kind::lin_eq || k == kind::quad_eq ||
               k == kind::func_eq;
    }

    /// the constraint as it is handed to the library
    constraint_t lib() const
    {
        using namespace nano::constraint;
        switch (k)
        {
        case kind::constant: return constant_t{value, dim};
        case kind::minimum: return minimum_t{value, dim};
        case kind::maximum: return maximum_t{value, dim};
        case kind::ball_eq: return euclidean_ball_equality_t{to_vector(origin), radius};
        case kind::ball_ineq: return euclidean_ball_inequality_t{to_vector(origin), radius};
        case kind::lin_eq: return linear_equality_t{to_vector(q), r};
        case kind::lin_ineq: return linear_inequality_t{to_vector(q), r};
        case kind::quad_eq: return quadratic_equality_t{to_matrix(P, n, n), to_vector(q), r};
        case kind::quad_ineq: return quadratic_inequality_t{to_matrix(P, n, n), to_vector(q), r};
        case kind::func_eq: return functional_equality_t{std::make_unique<hfun_t>(n, fkind, fa, fb, fc)};
        default: return functional_inequality_t{std::make_unique<hfun_t>(n, fkind, fa, fb, fc)};
        }
    }

    /// the definition (header comments of constraint.h), in long double
    cval_t eval(const std::vector<double>& xd) const
    {
        const auto      N = static_cast<size_t>(n);
        std::vector<ld> x(xd.begin(), xd.end());
        cval_t          c;
        c.g.assign(N, 0);
        c.G.assign(N, 0);
        const auto D = static_cast<size_t>(dim);
        switch (k)
        {
        case kind::constant: // h(x) = x(dimension) - constant
        case kind::maximum:  // g(x) = x(dimension) - constant
            c.v    = x[D] - static_cast<ld>(value);
            c.M    = std::fabs(x[D]) + std::fabs(static_cast<ld>(value));
            c.g[D] = 1;
            c.G[D] = 1;
            break;
        case kind::minimum: // g(x) = constant - x(dimension)
            c.v    = static_cast<ld>(value) - x[D];
            c.M    = std::fabs(x[D]) + std::fabs(static_cast<ld>(value));
            c.g[D] = -1;
            c.G[D] = 1;
            break;
        case kind::ball_eq:
        case kind::ball_ineq: // ||x - origin||^2 - radius^2
        {
            ld s = 0;
            for (size_t i = 0; i < N; ++i)
            {
                const ld d = x[i] - static_cast<ld>(origin[i]);
                s += d * d;
                c.g[i] = 2 * d;
                c.G[i] = 2 * (std::fabs(x[i]) + std::fabs(static_cast<ld>(origin[i])));
            }
            const ld rr = static_cast<ld>(radius) * static_cast<ld>(radius);
            c.v         = s - rr;
            c.M         = s + rr;
            break;
        }
        case kind::lin_eq:
        case kind::lin_ineq: // q.dot(x) + r
            c.v = static_cast<ld>(r);
            c.M = std::fabs(static_cast<ld>(r));
            for (size_t i = 0; i < N; ++i)
            {
                c.v += static_cast<ld>(q[i]) * x[i];
                c.M += std::fabs(static_cast<ld>(q[i]) * x[i]);
                c.g[i] = static_cast<ld>(q[i]);
                c.G[i] = std::fabs(c.g[i]);
            }
            break;
        case kind::quad_eq:
        case kind::quad_ineq: // 1/2 x.dot(P x) + q.dot(x) + r ; gradient 1/2 (P + P') x + q
            c.v = static_cast<ld>(r);
            c.M = std::fabs(static_cast<ld>(r));
            for (size_t i = 0; i < N; ++i)
            {
                c.v += static_cast<ld>(q[i]) * x[i];
                c.M += std::fabs(static_cast<ld>(q[i]) * x[i]);
                c.g[i] = static_cast<ld>(q[i]);
                c.G[i] = std::fabs(c.g[i]);
                for (size_t j = 0; j < N; ++j)
                {
                    const ld pij = static_cast<ld>(P[i * N + j]);
                    const ld pji = static_cast<ld>(P[j * N + i]);
                    c.v += 0.5L * x[i] * pij * x[j];
                    c.M += std::fabs(0.5L * x[i] * pij * x[j]);
                    c.g[i] += 0.5L * (pij + pji) * x[j];
                    c.G[i] += 0.5L * (std::fabs(pij) + std::fabs(pji)) * std::fabs(x[j]);
                }
            }
            break;
        default: // functional
        {
            ld xx = 0;
            for (size_t i = 0; i < N; ++i)
            {
                xx += x[i] * x[i];
            }
            if (fkind == 0)
            {
                const ld a = fa, b = fb, cc = fc;
                c.v = a * xx + b * x[0] + cc;
                c.M = std::fabs(a) * xx + std::fabs(b * x[0]) + std::fabs(cc);
                for (size_t i = 0; i < N; ++i)
                {
                    c.g[i] = 2 * a * x[i] + (i == 0 ? b : 0.0L);
                    c.G[i] = std::fabs(2 * a * x[i]) + (i == 0 ? std::fabs(b) : 0.0L);
                }
            }
            else
            {
                const ld s = static_cast<ld>(0.36) + xx; // the double constant of the user function
                c.v        = std::log(s) + static_cast<ld>(fc);
                c.M        = std::fabs(std::log(s)) + std::fabs(static_cast<ld>(fc));
                for (size_t i = 0; i < N; ++i)
                {
                    c.g[i] = 2 * x[i] / s;
                    c.G[i] = std::fabs(c.g[i]);
                }
            }
            break;
        }
        }
        return c;
    }

    std::string json() const
    {
        switch (k)
        {
        case kind::constant:
        case kind::minimum:
        case kind::maximum:
            return jobj({{"kind", jstr(kind_name(k))}, {"dimension", jint(dim)}, {"value", jnum(value)}});
        case kind::ball_eq:
        case kind::ball_ineq:
            return jobj({{"kind", jstr(kind_name(k))}, {"origin", jarr_num(origin)}, {"radius", jnum(radius)}});
        case kind::lin_eq:
        case kind::lin_ineq: return jobj({{"kind", jstr(kind_name(k))}, {"q", jarr_num(q)}, {"r", jnum(r)}});
        case kind::quad_eq:
        case kind::quad_ineq:
            return jobj({{"kind", jstr(kind_name(k))}, {"P_rowmajor", jarr_num(P)}, {"q", jarr_num(q)}, {"r", jnum(r)}});
        default:
            return jobj({{"kind", jstr(kind_name(k))},
                         {"function", jstr(fkind == 0 ? "a*x.x + b*x0 + c" : "log(0.36 + x.x) + c")},
                         {"a", jnum(fa)},
                         {"b", jnum(fb)},
                         {"c", jnum(fc)}});
        }
    }
};

std::vector<double> head(const std::vector<double>& v, const int n)
{
    return std::vector<double>(v.begin(), v.begin() + n);
}

std::vector<double> block(const std::vector<double>& P3, const int n)
{
    std::vector<double> P(static_cast<size_t>(n * n));
    for (int i = 0; i < n; ++i)
    {
        for (int j = 0; j < n; ++j)
        {
            P[static_cast<size_t>(i * n + j)] = P3[static_cast<size_t>(i * 3 + j)];
        }
    }
    return P;
}

// ------------------------------------------------------------------------------------------------------------------
// stage "formulas": the pool of 22 constraints (instance A: dyadic coefficients with lattice points exactly on the
// boundary; instance B: other dyadic coefficients for the equalities, decimal coefficients for the inequalities)
std::vector<hc_t> make_pool(const int n)
{
    std::vector<hc_t> pool;
    const auto        add = [&](hc_t c, const kind k, const char* name)
    {
        c.k    = k;
        c.n    = n;
        c.name = name;
        pool.push_back(std::move(c));
    };
    const auto cst = [&](const int dim, const double value)
    {
        hc_t c;
        c.dim   = dim;
        c.value = value;
        return c;
    };
    const auto ball = [&](const std::vector<double>& o, const double radius)
    {
        hc_t c;
        c.origin = head(o, n);
        c.radius = radius;
        return c;
    };
    const auto lin = [&](const std::vector<double>& q, const double r)
    {
        hc_t c;
        c.q = head(q, n);
        c.r = r;
        return c;
    };
    const auto quad = [&](const std::vector<double>& P3, const std::vector<double>& q, const double r)
    {
        hc_t c;
        c.P = block(P3, n);
        c.q = head(q, n);
        c.r = r;
        return c;
    };
    const auto fun = [&](const int fkind, const double a, const double b, const double cc)
    {
        hc_t c;
        c.fkind = fkind;
        c.fa    = a;
        c.fb    = b;
        c.fc    = cc;
        return c;
    };
    add(cst(0, 1.0), kind::constant, "constant:A");
    add(cst(n - 1, -1.5), kind::constant, "constant:B");
    add(cst(0, -1.0), kind::minimum, "minimum:A");
    add(cst(1, 0.7), kind::minimum, "minimum:B");
    add(cst(1, 2.0), kind::maximum, "maximum:A");
    add(cst(0, -0.3), kind::maximum, "maximum:B");
    add(ball({0, 0, 0}, 5.0), kind::ball_eq, "ball_eq:A");
    add(ball({1, -1, 0.5}, 2.5), kind::ball_eq, "ball_eq:B");
    add(ball({1, 0, 0}, 2.0), kind::ball_ineq, "ball_ineq:A");
    add(ball({-0.6, 0.4, 0.2}, 3.3), kind::ball_ineq, "ball_ineq:B");
    add(lin({1, 1, 1}, -2.0), kind::lin_eq, "lin_eq:A");
    add(lin({0.5, -0.25, 2}, n == 2 ? -1.0 : -2.0), kind::lin_eq, "lin_eq:B");
    add(lin({1, -2, 0.5}, -1.0), kind::lin_ineq, "lin_ineq:A");
    add(lin({-0.7, 0.2, 1.3}, -0.9), kind::lin_ineq, "lin_ineq:B");
    add(quad({2, 1, 0, 1, 2, 1, 0, 1, 2}, {1, -1, 0}, -3.0), kind::quad_eq, "quad_eq:A(PSD)");
    add(quad({1, 2, 0, 2, 1, -1, 0, -1, -2}, {0.5, 0, -1}, n == 2 ? -9.875 : -8.625), kind::quad_eq,
        "quad_eq:B(indefinite)");
    add(quad({2, 0, 0, 0, 4, 0, 0, 0, 2}, {0, -1, 1}, -3.0), kind::quad_ineq, "quad_ineq:A(PSD)");
    add(quad({0.6, -1.1, 0.3, -1.1, -0.4, 0.2, 0.3, 0.2, 0.9}, {0.3, -0.2, 0.1}, -1.7), kind::quad_ineq,
        "quad_ineq:B(indefinite)");
    add(fun(0, 1.0, 0.0, -2.0), kind::func_eq, "func_eq:A(x.x-2)");
    add(fun(0, 0.5, -1.0, n == 2 ? -1.125 : -1.25), kind::func_eq, "func_eq:B(x.x/2-x0-c)");
    add(fun(0, 1.0, 0.0, -2.0), kind::func_ineq, "func_ineq:A(x.x-2)");
    add(fun(1, 0.0, 0.0, -1.1), kind::func_ineq, "func_ineq:B(log(0.36+x.x)-1.1)");
    return pool;
}

const std::vector<std::vector<double>> POINTS2 = {{0, 0},   {1, 1},      {3, 4},  {1, 2}, {-1, 3},
                                                  {2.5, 1}, {-2, -1.5}, {5, -5}, {-5, 5}};
const std::vector<std::vector<double>> POINTS3 = {{0, 0, 0},     {1, 1, 0},      {0, 3, 4},    {1, 2, -1}, {-1, 3, 0.5},
                                                  {2.5, 1, 0.5}, {-2, 2, -1.5}, {5, -5, 5}, {-5, 5, -5}};

const std::vector<double> PENALTIES = {1e-3, 1.0, 1e3, 1e6};
const std::vector<double> MULT_EQ   = {0.0, 1.0, -1.0, 10.0};
const std::vector<double> MULT_INEQ = {0.0, 1.0, 10.0};

/// all sorted subsets of {0..count-1} of size 0..maxsize, smaller first, lexicographic within a size
std::vector<std::vector<int>> make_subsets(const int count, const int maxsize)
{
    std::vector<std::vector<int>> out;
    for (int size = 0; size <= maxsize; ++size)
    {
        std::vector<int> s(static_cast<size_t>(size));
        for (int i = 0; i < size; ++i)
        {
            s[static_cast<size_t>(i)] = i;
        }
        while (true)
        {
            out.push_back(s);
            int i = size - 1;
            while (i >= 0 && s[static_cast<size_t>(i)] == count - size + i)
            {
                --i;
            }
            if (i < 0)
            {
                break;
            }
            ++s[static_cast<size_t>(i)];
            for (int j = i + 1; j < size; ++j)
            {
                s[static_cast<size_t>(j)] = s[static_cast<size_t>(j - 1)] + 1;
            }
        }
    }
    return out;
}

// ------------------------------------------------------------------------------------------------------------------
// the judge: observed (double, from the library) vs expected (long double, from the definitions)
bool close(const ld got, const ld expected, const ld sum_abs_terms)
{
    return std::isfinite(static_cast<double>(got)) && std::fabs(got - expected) <= TOLK * EPS * sum_abs_terms;
}

bool close(const std::vector<double>& got, const std::vector<ld>& expected, const std::vector<ld>& sum_abs_terms)
{
    for (size_t i = 0; i < expected.size(); ++i)
    {
        if (!close(static_cast<ld>(got[i]), expected[i], sum_abs_terms[i]))
        {
            return false;
        }
    }
    return true;
}

/// a kink of the linear penalty: the term contributes s * column with any s in [lo, hi]
struct kink_t
{
    ld              lo = 0, hi = 0;
    std::vector<ld> column;
};

/// is `got - base` = sum_j s_j column_j for some s in the box (within the tolerance)? Every basic solution of that
/// system has its non-bound variables on linearly independent columns, so enumerating {lo, hi, free}^K with an exact
/// least-squares solve on independent free columns is complete.
bool in_subdifferential(const std::vector<double>& got, const std::vector<ld>& base, const std::vector<ld>& tol_terms,
                        const std::vector<kink_t>& kinks)
{
    const auto n = base.size();
    const auto K = kinks.size();
    uint64_t   patterns = 1;
    for (size_t j = 0; j < K; ++j)
    {
        patterns *= 3;
    }
    for (uint64_t pattern = 0; pattern < patterns; ++pattern)
    {
        std::vector<ld>     rhs(n);
        std::vector<size_t> free;
        uint64_t            p = pattern;
        for (size_t i = 0; i < n; ++i)
        {
            rhs[i] = static_cast<ld>(got[i]) - base[i];
        }
        for (size_t j = 0; j < K; ++j, p /= 3)
        {
            const auto choice = p % 3;
            if (choice == 2)
            {
                free.push_back(j);
                continue;
            }
            const ld s = choice == 0 ? kinks[j].lo : kinks[j].hi;
            for (size_t i = 0; i < n; ++i)
            {
                rhs[i] -= s * kinks[j].column[i];
            }
        }
        const auto      F = free.size();
        std::vector<ld> s(F, 0);
        if (F > n)
        {
            continue;
        }
        if (F > 0)
        {
            // normal equations, Gaussian elimination with pivoting
            std::vector<ld> N(F * (F + 1), 0);
            for (size_t a = 0; a < F; ++a)
            {
                for (size_t b = 0; b < F; ++b)
                {
                    for (size_t i = 0; i < n; ++i)
                    {
                        N[a * (F + 1) + b] += kinks[free[a]].column[i] * kinks[free[b]].column[i];
                    }
                }
                for (size_t i = 0; i < n; ++i)
                {
                    N[a * (F + 1) + F] += kinks[free[a]].column[i] * rhs[i];
                }
            }
            bool singular = false;
            for (size_t a = 0; a < F && !singular; ++a)
            {
                size_t piv = a;
                for (size_t b = a + 1; b < F; ++b)
                {
                    if (std::fabs(N[b * (F + 1) + a]) > std::fabs(N[piv * (F + 1) + a]))
                    {
                        piv = b;
                    }
                }
                if (std::fabs(N[piv * (F + 1) + a]) < 1e-12L)
                {
                    singular = true;
                    break;
                }
                for (size_t c = 0; c <= F; ++c)
                {
                    std::swap(N[a * (F + 1) + c], N[piv * (F + 1) + c]);
                }
                for (size_t b = 0; b < F; ++b)
                {
                    if (b != a)
                    {
                        const ld m = N[b * (F + 1) + a] / N[a * (F + 1) + a];
                        for (size_t c = 0; c <= F; ++c)
                        {
                            N[b * (F + 1) + c] -= m * N[a * (F + 1) + c];
                        }
                    }
                }
            }
            if (singular)
            {
                continue;
            }
            bool inside = true;
            for (size_t a = 0; a < F; ++a)
            {
                s[a] = N[a * (F + 1) + F] / N[a * (F + 1) + a];
                inside = inside && s[a] >= kinks[free[a]].lo - 1e-12L && s[a] <= kinks[free[a]].hi + 1e-12L;
            }
            if (!inside)
            {
                continue;
            }
        }
        bool ok = true;
        for (size_t i = 0; i < n && ok; ++i)
        {
            ld res = rhs[i];
            for (size_t a = 0; a < F; ++a)
            {
                res -= s[a] * kinks[free[a]].column[i];
            }
            ok = std::isfinite(got[i]) && std::fabs(res) <= TOLK * EPS * tol_terms[i];
        }
        if (ok)
        {
            return true;
        }
    }
    return false;
}

/// everything the definitions say about one (objective value, constraint values, penalty, multipliers)
struct expected_t
{
    ld                  v = 0, T = 0; ///< value and sum |terms|
    std::vector<ld>     g, G;         ///< gradient (without the kink terms) and sum |terms| per component
    std::vector<kink_t> kinks;        ///< linear penalty only
};

enum class pfun
{
    linear,
    quadratic,
    augmented
};

/// q(c,x) of include/nano/function/penalty.h:
///   linear    : f + c sum |h_j| + c sum max(0, g_i)
///   quadratic : f + c sum h_j^2 + c sum max(0, g_i)^2
///   augmented : f + ro/2 sum (h_j + lambda_j/ro)^2 + ro/2 sum max(0, g_i + miu_i/ro)^2
/// `mult` holds one multiplier per constraint in registration order (lambda_j for equalities, miu_i otherwise)
expected_t expect(const pfun which, const double fx, const std::vector<double>& gfx, const std::vector<hc_t>& cons,
                  const std::vector<cval_t>& cv, const double penalty, const std::vector<double>& mult)
{
    const auto n = gfx.size();
    expected_t e;
    e.v = fx;
    e.T = std::fabs(static_cast<ld>(fx));
    e.g.assign(gfx.begin(), gfx.end());
    e.G.resize(n);
    for (size_t i = 0; i < n; ++i)
    {
        e.G[i] = std::fabs(static_cast<ld>(gfx[i]));
    }
    const ld c = penalty;
    for (size_t j = 0; j < cons.size(); ++j)
    {
        const bool eq = cons[j].equality();
        const auto& k = cv[j];
        switch (which)
        {
        case pfun::linear:
            if (eq ? (k.v != 0) : (k.v > 0))
            {
                const ld s = eq ? (k.v > 0 ? 1.0L : -1.0L) : 1.0L;
                e.v += c * std::fabs(k.v);
                e.T += c * k.M;
                for (size_t i = 0; i < n; ++i)
                {
                    e.g[i] += c * s * k.g[i];
                    e.G[i] += c * k.G[i];
                }
            }
            else if (k.v == 0)
            {
                kink_t kk;
                kk.lo = eq ? -1.0L : 0.0L;
                kk.hi = 1.0L;
                kk.column.resize(n);
                for (size_t i = 0; i < n; ++i)
                {
                    kk.column[i] = c * k.g[i];
                    e.G[i] += c * k.G[i];
                }
                e.kinks.push_back(std::move(kk));
            }
            break;
        case pfun::quadratic:
        {
            e.T += c * k.M * k.M;
            for (size_t i = 0; i < n; ++i)
            {
                e.G[i] += 2 * c * k.M * k.G[i];
            }
            if (eq || k.v > 0)
            {
                e.v += c * k.v * k.v;
                for (size_t i = 0; i < n; ++i)
                {
                    e.g[i] += 2 * c * k.v * k.g[i];
                }
            }
            break;
        }
        case pfun::augmented:
        {
            const ld mu = mult[j];
            const ld s  = k.v + mu / c;
            const ld S  = k.M + std::fabs(mu) / c;
            e.T += 0.5L * c * S * S;
            for (size_t i = 0; i < n; ++i)
            {
                e.G[i] += c * S * k.G[i];
            }
            if (eq || s > 0)
            {
                e.v += 0.5L * c * s * s;
                for (size_t i = 0; i < n; ++i)
                {
                    e.g[i] += c * s * k.g[i];
                }
            }
            break;
        }
        }
    }
    return e;
}

/// the alphabets must be what the design says: every constraint violated at some point and satisfied at another,
/// instance-A / equality values exact in double, decimal inequalities nowhere near their boundary
int check_pool(const int n, const std::vector<hc_t>& pool, const std::vector<std::vector<double>>& points)
{
    for (const auto& c : pool)
    {
        int violated = 0, satisfied = 0;
        for (const auto& x : points)
        {
            const auto k = c.eval(x);
            const bool v = c.equality() ? (k.v != 0) : (k.v > 0);
            violated += v ? 1 : 0;
            satisfied += v ? 0 : 1;
            const bool decimal = !c.equality() && c.name.find(":B") != std::string::npos;
            if (decimal && std::fabs(k.v) < 1e-6L)
            {
                std::fprintf(stderr, "pool: %s (n=%d) is within 1e-6 of its boundary at a lattice point\n",
                             c.name.c_str(), n);
                return 2;
            }
            if (!decimal && static_cast<ld>(static_cast<double>(k.v)) != k.v)
            {
                std::fprintf(stderr, "pool: %s (n=%d) is not exact in double at a lattice point\n", c.name.c_str(), n);
                return 2;
            }
        }
        if (violated == 0 || satisfied == 0)
        {
            std::fprintf(stderr, "pool: %s (n=%d) violated at %d and satisfied at %d lattice points\n", c.name.c_str(),
                         n, violated, satisfied);
            return 2;
        }
    }
    return 0;
}

const char* pfun_name(const pfun which)
{
    return which == pfun::linear ? "linear" : which == pfun::quadratic ? "quadratic" : "augmented";
}

void stage_formulas(report_t& r, const args_t& args)
{
    const int  maxsize = args.thorough() ? 4 : 3;
    const auto pool2   = make_pool(2);
    const auto pool3   = make_pool(3);
    const auto subsets = make_subsets(22, maxsize);

    const std::vector<std::string> onames = {"sphere", "hquad", "rosenbrock", "exponential"};
    std::vector<rfunction_t>       protos; // [objective * 2 + (n - 2)]
    for (const auto& name : onames)
    {
        for (const int n : {2, 3})
        {
            protos.push_back(name == "hquad" ? rfunction_t{std::make_unique<hquad_t>(n)}
                                             : function_t::all().get(name)->make(n, 10));
        }
    }

    std::vector<std::string> cnames;
    for (const auto& c : pool2)
    {
        cnames.push_back(c.name);
    }

    lattice_t lat;
    lat.axis("constraints", subsets.size(),
             jobj({{"pool", jarr_str(cnames)}, {"subsets_of_size", jstr("0.." + std::to_string(maxsize))}}));
    lat.axis("objective", onames.size(), jarr_str(onames));
    lat.axis("n", 2, "[2,3]");
    lat.axis("x", POINTS2.size(),
             jobj({{"n=2", jarr(POINTS2.begin(), POINTS2.end(), [](const auto& p) { return jarr_num(p); })},
                   {"n=3", jarr(POINTS3.begin(), POINTS3.end(), [](const auto& p) { return jarr_num(p); })}}));
    lat.describe(r);
    r.axis("penalty (inside every case)", jarr_num(PENALTIES));
    r.axis("multipliers (inside every case, every combination; augmented only)",
           jobj({{"equalities", jarr_num(MULT_EQ)}, {"inequalities", jarr_num(MULT_INEQ)}}));
    r.assume("the objective's own value and gradient (function_t::vgrad of the unconstrained objective) are the "
             "definition of f and grad f; the penalty terms are recomputed in long double from this file's own h_j, g_i");
    r.assume("tolerance 8 eps * sum |terms| where the terms are those of the fully expanded penalty expression "
             "(|f| + c * (sum |terms of h_j|)^2 ...); at the kinks of the linear penalty (h_j = 0 or g_i = 0 exactly) "
             "any element of the subdifferential (s in [-1,1] resp. [0,1]) is accepted");
    r.assume("quadratic constraints use symmetric P (PSD and indefinite); a non-symmetric P is outside the lattice");

    uint64_t calls_exactly_equal = 0, calls_differ = 0;

    for_each_case(lat, r, "f", [&](const uint64_t index, const std::vector<uint64_t>& d) {
        const auto& sub    = subsets[d[0]];
        const auto  oi     = d[1];
        const int   n      = d[2] == 0 ? 2 : 3;
        const auto& pool   = n == 2 ? pool2 : pool3;
        const auto& xd     = (n == 2 ? POINTS2 : POINTS3)[d[3]];
        const auto  handle = "f:" + std::to_string(index);

        std::vector<hc_t> cons;
        auto              f = protos[oi * 2 + static_cast<size_t>(n - 2)]->clone();
        for (const auto i : sub)
        {
            cons.push_back(pool[static_cast<size_t>(i)]);
            if (!f->constrain(cons.back().lib()))
            {
                r.violation("constrain:compatible-constraint-rejected:" + std::string(kind_name(cons.back().k)), handle,
                            jobj({{"constraint", cons.back().json()}, {"n", jint(n)}}));
                return;
            }
        }
        if (static_cast<size_t>(count_equalities(*f) + count_inequalities(*f)) != cons.size())
        {
            r.violation("constrain:count-mismatch", handle, jobj({{"expected", jint(cons.size())}}));
            return;
        }

        const auto xv = to_vector(xd);
        vector_t   gv(n);
        const auto fx_only = f->vgrad(xv);
        const auto fx      = f->vgrad(xv, gv);
        const auto gfx     = from_vector(gv);

        std::vector<cval_t> cv;
        size_t              violated = 0, onboundary = 0, neq = 0, nineq = 0;
        for (const auto& c : cons)
        {
            cv.push_back(c.eval(xd));
            const bool eq = c.equality();
            violated += (eq ? (cv.back().v != 0) : (cv.back().v > 0)) ? 1 : 0;
            onboundary += cv.back().v == 0 ? 1 : 0;
            (eq ? neq : nineq) += 1;
        }
        const bool feasible = violated == 0;
        if (violated > 0)
        {
            ++r.nontrivial;
        }
        r.outcome(feasible ? "feasible-point" : ("violated-constraints=" + std::to_string(violated)));
        if (onboundary > 0)
        {
            r.outcome("point-on-a-boundary(kink-of-linear-penalty)");
        }

        auto lambda = make_full_vector<scalar_t>(static_cast<tensor_size_t>(neq), 0.0);
        auto miu    = make_full_vector<scalar_t>(static_cast<tensor_size_t>(nineq), 0.0);
        auto lin    = linear_penalty_function_t{*f};
        auto quad   = quadratic_penalty_function_t{*f};
        auto aug    = augmented_lagrangian_function_t{*f, lambda, miu};

        std::vector<double> mult(cons.size(), 0.0);

        const auto describe = [&](const pfun which, const double penalty)
        {
            return std::vector<std::pair<std::string, std::string>>{
                {"function", jstr(pfun_name(which))},
                {"objective", jstr(onames[oi])},
                {"n", jint(n)},
                {"constraints", jarr(cons.begin(), cons.end(), [](const hc_t& c) { return c.json(); })},
                {"x", jarr_num(xd)},
                {"penalty", jnum(penalty)},
                {"multipliers(registration order)", jarr_num(mult)},
                {"f(x)", jnum(fx)},
                {"constraint_values", jarr(cv.begin(), cv.end(), [](const cval_t& k) { return jnum(static_cast<double>(k.v)); })}};
        };
        const auto report = [&](const std::string& key, const pfun which, const double penalty,
                                std::initializer_list<std::pair<std::string, std::string>> more)
        {
            auto        kv = describe(which, penalty);
            std::string o  = "{";
            for (const auto& [k, v] : kv)
            {
                o += jstr(k) + ":" + v + ",";
            }
            bool first = true;
            for (const auto& [k, v] : more)
            {
                o += (first ? "" : ",") + jstr(k) + ":" + v;
                first = false;
            }
            r.violation(key, handle, o + "}");
        };

        const auto evaluate = [&](penalty_function_t& pf, const pfun which, const double penalty, const bool zero_mult)
        {
            pf.penalty(penalty);
            vector_t   g(n);
            const auto v1 = pf.vgrad(xv);
            const auto v2 = pf.vgrad(xv, g);
            const auto gg = from_vector(g);
            const auto e  = expect(which, fx, gfx, cons, cv, penalty, mult);
            const auto fn = std::string(pfun_name(which));
            r.evaluations += 2;

            if (!close(static_cast<ld>(v2), e.v, e.T))
            {
                report("formula:" + fn + ":value", which, penalty,
                       {{"observed", jnum(v2)}, {"expected", jnum(static_cast<double>(e.v))},
                        {"tolerance", jnum(static_cast<double>(TOLK * EPS * e.T))}});
            }
            if (!close(static_cast<ld>(v1), e.v, e.T))
            {
                report("formula:" + fn + ":value(value-only call)", which, penalty,
                       {{"observed", jnum(v1)}, {"expected", jnum(static_cast<double>(e.v))},
                        {"tolerance", jnum(static_cast<double>(TOLK * EPS * e.T))}});
            }
            if (fx_only == fx)
            {
                (v1 == v2 ? calls_exactly_equal : calls_differ) += 1;
                if (v1 != v2)
                {
                    report("formula:" + fn + ":value-only-call-differs-from-value+gradient-call", which, penalty,
                           {{"value_only", jnum(v1)}, {"with_gradient", jnum(v2)}});
                }
            }
            const bool gok = e.kinks.empty() ? close(gg, e.g, e.G) : in_subdifferential(gg, e.g, e.G, e.kinks);
            if (!gok)
            {
                report("formula:" + fn + ":gradient", which, penalty,
                       {{"observed", jarr_num(gg)}, {"expected(without kink terms)", jarr_ld(e.g)},
                        {"kinks", jint(e.kinks.size())}, {"sum_abs_terms", jarr_ld(e.G)}});
            }
            if (feasible && zero_mult)
            {
                if (!(v1 == fx && v2 == fx))
                {
                    report("feasible:" + fn + ":value-differs-from-objective", which, penalty,
                           {{"value_only", jnum(v1)}, {"with_gradient", jnum(v2)}, {"objective", jnum(fx)}});
                }
                if (which != pfun::linear && gg != gfx)
                {
                    report("feasible:" + fn + ":gradient-differs-from-objective", which, penalty,
                           {{"observed", jarr_num(gg)}, {"objective_gradient", jarr_num(gfx)}});
                }
            }
        };

        for (const auto penalty : PENALTIES)
        {
            std::fill(mult.begin(), mult.end(), 0.0);
            evaluate(lin, pfun::linear, penalty, true);
            evaluate(quad, pfun::quadratic, penalty, true);

            uint64_t combos = 1;
            for (const auto& c : cons)
            {
                combos *= c.equality() ? MULT_EQ.size() : MULT_INEQ.size();
            }
            for (uint64_t combo = 0; combo < combos; ++combo)
            {
                uint64_t      p = combo;
                tensor_size_t ie = 0, ii = 0;
                bool          zero = true;
                for (size_t j = 0; j < cons.size(); ++j)
                {
                    const auto& alpha = cons[j].equality() ? MULT_EQ : MULT_INEQ;
                    mult[j]           = alpha[p % alpha.size()];
                    p /= alpha.size();
                    zero = zero && mult[j] == 0.0;
                    if (cons[j].equality())
                    {
                        lambda(ie++) = mult[j];
                    }
                    else
                    {
                        miu(ii++) = mult[j];
                    }
                }
                evaluate(aug, pfun::augmented, penalty, zero);
            }
        }

        if (index % 997 == 0)
        {
            r.sample(jobj({{"objective", jstr(onames[oi])},
                           {"n", jint(n)},
                           {"constraints", jarr(cons.begin(), cons.end(), [](const hc_t& c) { return jstr(c.name); })},
                           {"x", jarr_num(xd)},
                           {"violated", jint(violated)}}));
        }
    });

    // outside the lattice (recorded, not judged): a non-symmetric P. The documented value 1/2 x'Px + q'x + r has the
    // gradient 1/2 (P + P')x + q
    if (args.shard == 0 && args.one.empty())
    {
        hc_t c;
        c.k = kind::quad_ineq;
        c.n = 2;
        c.P = {1, 2, 0, 1};
        c.q = {0, 0};
        c.r = -1;
        const std::vector<double> x = {1, 2};
        const auto                k = c.eval(x);
        vector_t                  g(2);
        const auto                v = ::nano::vgrad(c.lib(), to_vector(x), g);
        r.note("probe_nonsymmetric_P(not judged)",
               jobj({{"P_rowmajor", jarr_num(c.P)}, {"x", jarr_num(x)}, {"value_library", jnum(v)},
                     {"value_definition", jnum(static_cast<double>(k.v))}, {"gradient_library", jarr_num(from_vector(g))},
                     {"gradient_of_the_documented_value", jarr_ld(k.g)}}));
    }

    r.note("value_only_call_bitwise_equal", jint(calls_exactly_equal));
    r.note("value_only_call_differs", jint(calls_differ));
}

// ------------------------------------------------------------------------------------------------------------------
// stage "al": problems
struct alprob_t
{
    std::string           family;
    int                   n = 0;
    rfunction_t           fn;   ///< the constrained function handed to the solver
    std::shared_ptr<void> keep; ///< make_function(program) refers to the program's members
    std::vector<hc_t>     cons; ///< the harness's model of the constraints, registration order
    std::string           json;
};

hc_t make_row(const kind k, const int n, std::vector<double> q, const double r)
{
    hc_t c;
    c.k    = k;
    c.n    = n;
    c.name = kind_name(k);
    c.q    = std::move(q);
    c.r    = r;
    return c;
}

/// min 1/2 x'Qx + c'x (Q empty: LP) s.t. Ax = b, Gx <= h, converted by the library's make_function(program);
/// the model: h_j(x) = A_j x - b_j, g_i(x) = G_i x - h_i
alprob_t make_program_problem(const std::string& family, const int n, const std::vector<double>& Q,
                              const std::vector<double>& c, const std::vector<double>& A, const std::vector<double>& b,
                              const std::vector<double>& G, const std::vector<double>& h)
{
    const auto p = static_cast<int>(b.size());
    const auto m = static_cast<int>(h.size());
    alprob_t   P;
    P.family = family;
    P.n      = n;

    const auto constrain = [&](auto& program)
    {
        if (p > 0 && m > 0)
        {
            program.constrain(program::make_equality(to_matrix(A, p, n), to_vector(b)),
                              program::make_inequality(to_matrix(G, m, n), to_vector(h)));
        }
        else if (p > 0)
        {
            program.constrain(program::make_equality(to_matrix(A, p, n), to_vector(b)));
        }
        else if (m > 0)
        {
            program.constrain(program::make_inequality(to_matrix(G, m, n), to_vector(h)));
        }
    };
    if (Q.empty())
    {
        auto program = std::make_shared<program::linear_program_t>(to_vector(c));
        constrain(*program);
        P.fn   = make_function(*program);
        P.keep = program;
    }
    else
    {
        auto program = std::make_shared<program::quadratic_program_t>(to_matrix(Q, n, n), to_vector(c));
        constrain(*program);
        P.fn   = make_function(*program);
        P.keep = program;
    }
    const auto N = static_cast<size_t>(n);
    for (int j = 0; j < p; ++j)
    {
        const auto J = static_cast<size_t>(j);
        P.cons.push_back(make_row(kind::lin_eq, n, std::vector<double>(A.begin() + J * N, A.begin() + (J + 1) * N), -b[J]));
    }
    for (int i = 0; i < m; ++i)
    {
        const auto I = static_cast<size_t>(i);
        P.cons.push_back(make_row(kind::lin_ineq, n, std::vector<double>(G.begin() + I * N, G.begin() + (I + 1) * N), -h[I]));
    }
    P.json = jobj({{"family", jstr(family)},
                   {"n", jint(n)},
                   {"Q_rowmajor", jarr_num(Q)},
                   {"c", jarr_num(c)},
                   {"A_rowmajor", jarr_num(A)},
                   {"b", jarr_num(b)},
                   {"G_rowmajor", jarr_num(G)},
                   {"h", jarr_num(h)}});
    return P;
}

// ---- family "lp": n = 2, rows a.x <= h with a in {-1,0,1}^2 \ {0}, h in {-1,0,1,2}; 3 distinct rows; 0 or 1 equality
struct irow_t
{
    int a1, a2, h;
};

const std::vector<irow_t> EQUALITIES = {{0, 0, 0}, {1, 1, 1}, {1, -1, 0}, {1, 0, 0}}; // first: none

std::vector<irow_t> make_atoms(const std::vector<int>& hs)
{
    std::vector<irow_t> atoms;
    for (const int a1 : {-1, 0, 1})
    {
        for (const int a2 : {-1, 0, 1})
        {
            for (const int h : hs)
            {
                if (a1 != 0 || a2 != 0)
                {
                    atoms.push_back({a1, a2, h});
                }
            }
        }
    }
    return atoms;
}

/// a.(nx/d, ny/d) <= h in integers
bool satisfied(const irow_t& r, long nx, long ny, long d)
{
    long lhs = r.a1 * nx + r.a2 * ny;
    if (d < 0)
    {
        lhs = -lhs;
        d   = -d;
    }
    return lhs <= r.h * d;
}

enum class verdict
{
    infeasible,
    unbounded,
    feasible_bounded
};

/// exact decision for {x in R^2 : rows, optional equality e.x = b}: the feasible set is bounded iff the recession cone
/// {d : a_i.d <= 0, e.d = 0} is trivial (its extreme rays are orthogonal to a row resp. to e), and a bounded set is
/// non-empty iff one of its candidate vertices (pairwise intersections) satisfies every row
verdict decide(const std::vector<irow_t>& rows, const irow_t& eq)
{
    const bool has_eq = eq.a1 != 0 || eq.a2 != 0;
    const auto in_cone = [&](const int d1, const int d2)
    {
        for (const auto& r : rows)
        {
            if (r.a1 * d1 + r.a2 * d2 > 0)
            {
                return false;
            }
        }
        return !has_eq || eq.a1 * d1 + eq.a2 * d2 == 0;
    };
    bool unbounded = false;
    if (has_eq)
    {
        unbounded = in_cone(-eq.a2, eq.a1) || in_cone(eq.a2, -eq.a1);
    }
    else
    {
        for (const auto& r : rows)
        {
            unbounded = unbounded || in_cone(-r.a2, r.a1) || in_cone(r.a2, -r.a1);
        }
    }
    const auto all_satisfied = [&](const long nx, const long ny, const long d)
    {
        for (const auto& r : rows)
        {
            if (!satisfied(r, nx, ny, d))
            {
                return false;
            }
        }
        return true;
    };
    bool feasible = false;
    if (has_eq)
    {
        for (const auto& r : rows)
        {
            const long det = eq.a1 * r.a2 - eq.a2 * r.a1;
            if (det != 0)
            {
                feasible = feasible || all_satisfied(eq.h * r.a2 - eq.a2 * r.h, eq.a1 * r.h - eq.h * r.a1, det);
            }
        }
    }
    else
    {
        for (size_t i = 0; i < rows.size(); ++i)
        {
            for (size_t j = i + 1; j < rows.size(); ++j)
            {
                const auto& p   = rows[i];
                const auto& q   = rows[j];
                const long  det = p.a1 * q.a2 - p.a2 * q.a1;
                if (det != 0)
                {
                    feasible = feasible || all_satisfied(p.h * q.a2 - p.a2 * q.h, p.a1 * q.h - p.h * q.a1, det);
                }
            }
        }
    }
    // NB: an unbounded set may still be empty; both are excluded from the family
    return unbounded ? verdict::unbounded : feasible ? verdict::feasible_bounded : verdict::infeasible;
}

struct lpcase_t
{
    std::vector<irow_t> rows;
    size_t              eq = 0;
};

struct lpobj_t
{
    std::string         name;
    std::vector<double> Q, c;
};

const std::vector<lpobj_t> LPOBJS = {
    {"LP c=(1,0)", {}, {1, 0}},
    {"LP c=(-1,-1)", {}, {-1, -1}},
    {"QP Q=I c=(-1,-1)", {1, 0, 0, 1}, {-1, -1}},
    {"QP Q=[[1,1],[1,1]] (rank 1) c=(-1,0)", {1, 1, 1, 1}, {-1, 0}},
    {"LP c=(0,1)", {}, {0, 1}},
    {"LP c=(1,-1)", {}, {1, -1}},
    {"QP Q=I c=(2,-3)", {1, 0, 0, 1}, {2, -3}},
    {"QP Q=[[2,-1],[-1,1]] c=(0,1)", {2, -1, -1, 1}, {0, 1}},
};

std::vector<std::vector<double>> make_x0s(const int n)
{
    std::vector<std::vector<double>> x0s(3, std::vector<double>(static_cast<size_t>(n), 0.0));
    for (int i = 0; i < n; ++i)
    {
        x0s[1][static_cast<size_t>(i)] = 4.0;
        x0s[2][static_cast<size_t>(i)] = (i % 2 == 0) ? -3.0 : 5.0;
    }
    return x0s;
}

// ---- family "kkt": (x*, u*, v*) chosen first, c and h derived so that the KKT conditions hold at x*
alprob_t make_kkt(const int n, const int p, const int gkind, const int qkind, const int active, const double ustar)
{
    const auto                N     = static_cast<size_t>(n);
    const std::vector<double> xstar = head({1, -2, 0.5, 3, -1}, n);
    const int                 m     = gkind == 0 ? n : 2 * n + 2;
    const auto                Mrows = static_cast<size_t>(m);
    std::vector<double>       G(Mrows * N, 0.0), h(Mrows), u(Mrows, 0.0);
    if (gkind == 0)
    {
        for (int i = 0; i < n; ++i)
        {
            bool zero = true;
            for (int j = 0; j < n; ++j)
            {
                const int g = ((3 * i + 5 * j + 1) % 7) - 3;
                G[static_cast<size_t>(i) * N + static_cast<size_t>(j)] = g;
                zero = zero && g == 0;
            }
            if (zero)
            {
                G[static_cast<size_t>(i) * N + static_cast<size_t>(i)] = 1;
            }
        }
    }
    else
    {
        for (int i = 0; i < n; ++i)
        {
            G[static_cast<size_t>(i) * N + static_cast<size_t>(i)]     = 1;
            G[static_cast<size_t>(n + i) * N + static_cast<size_t>(i)] = -1;
            G[static_cast<size_t>(2 * n) * N + static_cast<size_t>(i)]     = 1;
            G[static_cast<size_t>(2 * n + 1) * N + static_cast<size_t>(i)] = -1;
        }
    }
    for (int i = 0; i < m; ++i)
    {
        const bool is_active = active == 1 ? (i < std::min(2, m)) : active == 2 ? (i % 2 == 0) : false;
        double     gx        = 0;
        for (int j = 0; j < n; ++j)
        {
            gx += G[static_cast<size_t>(i) * N + static_cast<size_t>(j)] * xstar[static_cast<size_t>(j)];
        }
        h[static_cast<size_t>(i)] = gx + (is_active ? 0.0 : 1.0 + (i % 3));
        u[static_cast<size_t>(i)] = is_active ? ustar : 0.0;
    }
    std::vector<double> A, b;
    const double        vstar = -1.5;
    if (p == 1)
    {
        double ax = 0;
        for (int j = 0; j < n; ++j)
        {
            A.push_back(j % 2 == 0 ? 1.0 : -1.0);
            ax += A.back() * xstar[static_cast<size_t>(j)];
        }
        b.push_back(ax);
    }
    std::vector<double> Q;
    if (qkind == 1)
    {
        Q.assign(N * N, 0.0);
        for (size_t i = 0; i < N; ++i)
        {
            Q[i * N + i] = 1.0;
        }
    }
    else if (qkind == 2)
    {
        Q.assign(N * N, 1.0); // D'D with D = (1 ... 1): rank 1
    }
    std::vector<double> c(N, 0.0);
    for (size_t j = 0; j < N; ++j)
    {
        double s = 0;
        for (size_t k = 0; k < N && !Q.empty(); ++k)
        {
            s += Q[j * N + k] * xstar[k];
        }
        for (size_t i = 0; i < Mrows; ++i)
        {
            s += G[i * N + j] * u[i];
        }
        if (p == 1)
        {
            s += A[j] * vstar;
        }
        c[j] = -s;
    }
    auto P = make_program_problem("kkt", n, Q, c, A, b, G, h);
    return P;
}

// ---- family "bb": 1/2 (x-t)'A(x-t) constrained by a ball / a box
alprob_t make_bb(const int n, const int ckind, const int tkind, const int akind)
{
    const auto                N = static_cast<size_t>(n);
    const std::vector<double> targets[4] = {{0.5, -0.25, 0.25}, {3, -2, 1}, {2, 0, 0}, {-4, 4, -4}};
    const std::vector<double> A3[3]      = {{1, 0, 0, 0, 1, 0, 0, 0, 1},
                                            {1, 0, 0, 0, 10, 0, 0, 0, 100},
                                            {2, 0.5, 0, 0.5, 1, 0.25, 0, 0.25, 3}};
    alprob_t P;
    P.family = "bb";
    P.n      = n;
    const auto t = head(targets[tkind], n);
    const auto A = block(A3[akind], n);
    P.fn         = std::make_unique<tquad_t>(n, A, t);

    const auto cst = [&](const kind k, const int dim, const double value)
    {
        hc_t c;
        c.k     = k;
        c.n     = n;
        c.name  = kind_name(k);
        c.dim   = dim;
        c.value = value;
        return c;
    };
    const auto ball = [&](const kind k, const std::vector<double>& o, const double radius)
    {
        hc_t c;
        c.k      = k;
        c.n      = n;
        c.name   = kind_name(k);
        c.origin = head(o, n);
        c.radius = radius;
        return c;
    };
    bool        ok = true;
    std::string cname;
    switch (ckind)
    {
    case 0:
        cname = "ball<= origin 0 r=2";
        P.cons.push_back(ball(kind::ball_ineq, {0, 0, 0}, 2.0));
        ok = P.fn->constrain(P.cons.back().lib());
        break;
    case 1:
        cname = "ball= origin 0 r=2";
        P.cons.push_back(ball(kind::ball_eq, {0, 0, 0}, 2.0));
        ok = P.fn->constrain(P.cons.back().lib());
        break;
    case 2:
        cname = "ball<= origin (1,-0.5,0.25) r=1.5";
        P.cons.push_back(ball(kind::ball_ineq, {1, -0.5, 0.25}, 1.5));
        ok = P.fn->constrain(P.cons.back().lib());
        break;
    case 3:
        cname = "box [-1,1]^n via constrain(min,max)";
        ok    = P.fn->constrain(-1.0, 1.0);
        for (int i = 0; i < n; ++i)
        {
            P.cons.push_back(cst(kind::minimum, i, -1.0));
            P.cons.push_back(cst(kind::maximum, i, 1.0));
        }
        break;
    case 4:
    {
        cname = "box [0,2]x[-2,-0.25]x[-0.5,0.5] via constrain(vector,vector)";
        const std::vector<double> lo = {0, -2, -0.5}, hi = {2, -0.25, 0.5};
        ok = P.fn->constrain(to_vector(head(lo, n)), to_vector(head(hi, n)));
        for (size_t i = 0; i < N; ++i)
        {
            P.cons.push_back(cst(kind::minimum, static_cast<int>(i), lo[i]));
            P.cons.push_back(cst(kind::maximum, static_cast<int>(i), hi[i]));
        }
        break;
    }
    default:
        cname = "x_1 in [-1,1] via constrain(min,max,1) and x_0 = 0.5 (constant)";
        ok    = P.fn->constrain(-1.0, 1.0, 1);
        P.cons.push_back(cst(kind::minimum, 1, -1.0));
        P.cons.push_back(cst(kind::maximum, 1, 1.0));
        P.cons.push_back(cst(kind::constant, 0, 0.5));
        ok = P.fn->constrain(P.cons.back().lib()) && ok;
        break;
    }
    if (!ok)
    {
        P.fn.reset();
    }
    P.json = jobj({{"family", jstr("bb")},
                   {"n", jint(n)},
                   {"objective", jstr("1/2 (x-t)'A(x-t)")},
                   {"A_rowmajor", jarr_num(A)},
                   {"t", jarr_num(t)},
                   {"constraints", jstr(cname)}});
    return P;
}

// ------------------------------------------------------------------------------------------------------------------
// one augmented-Lagrangian run and its oracle
struct altally_t
{
    uint64_t runs = 0, converged = 0;
};

/// the clauses of the statement on one returned state; returns the list of (key, detail) findings
struct alfinding_t
{
    std::string key, detail;
};

std::vector<alfinding_t> judge_al(const alprob_t& P, const double epsilon, const bool converged,
                                  const std::vector<double>& x, const std::vector<double>& ceq,
                                  const std::vector<double>& cineq, const double kkt1, const double kkt2,
                                  const std::vector<double>* lib_eq, const std::vector<double>* lib_ineq)
{
    std::vector<alfinding_t> out;
    if (!converged)
    {
        return out;
    }
    std::vector<cval_t> eqs, ineqs;
    for (const auto& c : P.cons)
    {
        (c.equality() ? eqs : ineqs).push_back(c.eval(x));
    }
    const auto fam = P.family;
    if (ceq.size() != eqs.size() || cineq.size() != ineqs.size())
    {
        out.push_back({"al:state-constraint-count-mismatch:" + fam,
                       jobj({{"ceq", jint(ceq.size())}, {"equalities", jint(eqs.size())}, {"cineq", jint(cineq.size())},
                             {"inequalities", jint(ineqs.size())}})});
        return out;
    }
    ld worst_eq = 0, worst_ineq = 0, Meq = 0, Mineq = 0;
    for (size_t j = 0; j < eqs.size(); ++j)
    {
        const auto& k = eqs[j];
        worst_eq      = std::max(worst_eq, std::fabs(k.v));
        Meq           = std::max(Meq, k.M);
        if (!(std::fabs(k.v) <= static_cast<ld>(epsilon) + TOLK * EPS * k.M))
        {
            out.push_back({"al:converged-but-infeasible:equality:" + fam,
                           jobj({{"j", jint(j)}, {"|h_j(x)| recomputed", jnum(static_cast<double>(std::fabs(k.v)))},
                                 {"epsilon", jnum(epsilon)}, {"state.ceq()(j)", jnum(ceq[j])}})});
        }
        if (!close(static_cast<ld>(ceq[j]), k.v, k.M))
        {
            out.push_back({"al:state-ceq-differs-from-recomputation:" + fam,
                           jobj({{"j", jint(j)}, {"state.ceq()(j)", jnum(ceq[j])},
                                 {"recomputed", jnum(static_cast<double>(k.v))}})});
        }
        if (lib_eq != nullptr && (*lib_eq)[j] != ceq[j])
        {
            out.push_back({"al:state-ceq-is-not-the-constraint-at-state.x:" + fam,
                           jobj({{"j", jint(j)}, {"state.ceq()(j)", jnum(ceq[j])},
                                 {"nano::vgrad(constraint, state.x())", jnum((*lib_eq)[j])}})});
        }
    }
    for (size_t i = 0; i < ineqs.size(); ++i)
    {
        const auto& k = ineqs[i];
        worst_ineq    = std::max(worst_ineq, std::max(k.v, 0.0L));
        Mineq         = std::max(Mineq, k.M);
        if (!(k.v <= static_cast<ld>(epsilon) + TOLK * EPS * k.M))
        {
            out.push_back({"al:converged-but-infeasible:inequality:" + fam,
                           jobj({{"i", jint(i)}, {"g_i(x) recomputed", jnum(static_cast<double>(k.v))},
                                 {"epsilon", jnum(epsilon)}, {"state.cineq()(i)", jnum(cineq[i])}})});
        }
        if (!close(static_cast<ld>(cineq[i]), k.v, k.M))
        {
            out.push_back({"al:state-cineq-differs-from-recomputation:" + fam,
                           jobj({{"i", jint(i)}, {"state.cineq()(i)", jnum(cineq[i])},
                                 {"recomputed", jnum(static_cast<double>(k.v))}})});
        }
        if (lib_ineq != nullptr && (*lib_ineq)[i] != cineq[i])
        {
            out.push_back({"al:state-cineq-is-not-the-constraint-at-state.x:" + fam,
                           jobj({{"i", jint(i)}, {"state.cineq()(i)", jnum(cineq[i])},
                                 {"nano::vgrad(constraint, state.x())", jnum((*lib_ineq)[i])}})});
        }
    }
    // feasibility KKT residuals: test1 = || max(0, g) ||_inf, test2 = || h ||_inf
    double from_state1 = 0, from_state2 = 0;
    for (const auto g : cineq)
    {
        from_state1 = std::max(from_state1, std::max(g, 0.0));
    }
    for (const auto hv : ceq)
    {
        from_state2 = std::max(from_state2, std::fabs(hv));
    }
    if (!(kkt1 == from_state1) || !close(static_cast<ld>(kkt1), worst_ineq, Mineq))
    {
        out.push_back({"al:kkt_optimality_test1-differs:" + fam,
                       jobj({{"kkt_optimality_test1", jnum(kkt1)}, {"max(0,state.cineq()) inf-norm", jnum(from_state1)},
                             {"recomputed", jnum(static_cast<double>(worst_ineq))}})});
    }
    if (!(kkt2 == from_state2) || !close(static_cast<ld>(kkt2), worst_eq, Meq))
    {
        out.push_back({"al:kkt_optimality_test2-differs:" + fam,
                       jobj({{"kkt_optimality_test2", jnum(kkt2)}, {"state.ceq() inf-norm", jnum(from_state2)},
                             {"recomputed", jnum(static_cast<double>(worst_eq))}})});
    }
    return out;
}

void run_al(report_t& r, altally_t& tally, const std::string& handle, const alprob_t& P, const double epsilon,
            const std::vector<double>& x0)
{
    static const auto logger = make_null_logger();

    r.evaluations += 1;
    tally.runs += 1;
    if (!P.fn)
    {
        r.violation("constrain:compatible-constraint-rejected:" + P.family, handle, P.json);
        return;
    }
    auto solver                          = solver_augmented_lagrangian_t{};
    solver.parameter("solver::epsilon") = epsilon;

    solver_state_t state;
    try
    {
        state = solver.minimize(*P.fn, to_vector(x0), logger);
    }
    catch (const std::exception& e)
    {
        r.outcome(P.family + ":exception");
        return;
    }
    const auto status    = state.status();
    const bool converged = status == solver_status::converged;
    r.outcome(P.family + ":" + status_name(status));
    if (!converged)
    {
        return;
    }
    tally.converged += 1;
    ++r.nontrivial;

    const auto x     = from_vector(state.x());
    const auto ceq   = from_vector(state.ceq());
    const auto cineq = from_vector(state.cineq());

    // the library's own evaluators at the returned point (judged by stage "formulas"): detects stale values exactly
    std::vector<double> lib_eq, lib_ineq;
    for (const auto& constraint : P.fn->constraints())
    {
        (is_equality(constraint) ? lib_eq : lib_ineq).push_back(::nano::vgrad(constraint, state.x()));
    }
    const bool sizes = lib_eq.size() == ceq.size() && lib_ineq.size() == cineq.size();

    const auto findings = judge_al(P, epsilon, converged, x, ceq, cineq, state.kkt_optimality_test1(),
                                   state.kkt_optimality_test2(), sizes ? &lib_eq : nullptr, sizes ? &lib_ineq : nullptr);
    for (const auto& f : findings)
    {
        r.violation(f.key, handle,
                    jobj({{"problem", P.json}, {"epsilon", jnum(epsilon)}, {"x0", jarr_num(x0)},
                          {"status", jstr(status_name(status))}, {"x", jarr_num(x)}, {"state.ceq()", jarr_num(ceq)},
                          {"state.cineq()", jarr_num(cineq)}, {"finding", f.detail}}));
    }
    if (findings.empty())
    {
        r.outcome(P.family + ":converged-and-feasible");
    }
}

std::string irow_json(const irow_t& r)
{
    return "[" + std::to_string(r.a1) + "," + std::to_string(r.a2) + "," + std::to_string(r.h) + "]";
}

void stage_al(report_t& r, const args_t& args)
{
    std::vector<double> epsilons = {1e-4, 1e-6, 1e-8};
    if (args.thorough())
    {
        epsilons.push_back(1e-10);
    }
    const auto  family = args.get("family", "all");
    altally_t   tally;
    const auto  x0s_json = [](const int n)
    {
        const auto x0s = make_x0s(n);
        return jarr(x0s.begin(), x0s.end(), [](const auto& p) { return jarr_num(p); });
    };
    r.assume("family lp is restricted to the programs that are feasible and bounded by exact vertex enumeration in "
             "integer arithmetic (infeasible and unbounded ones are counted in the notes and not run); kkt and bb are "
             "feasible by construction");
    r.assume("a recomputed constraint value may exceed epsilon by the rounding of its own evaluation, 8 eps * sum |terms|");
    r.assume("the clauses are judged on runs that report `converged` only");

    // ---- lp
    if (family == "all" || family == "lp")
    {
        // rows: every 3-subset of the 32 atoms (h in {-1,0,1,2}); thorough adds every 4-subset of the 24 atoms with
        // h in {0,1,2}
        const auto atoms3 = make_atoms({-1, 0, 1, 2});
        const auto atoms4 = make_atoms({0, 1, 2});
        std::vector<lpcase_t> cases;
        uint64_t              candidates = 0, infeasible = 0, unbounded = 0;
        const auto            enumerate  = [&](const std::vector<irow_t>& atoms, const size_t size)
        {
            for (const auto& set : make_subsets(static_cast<int>(atoms.size()), static_cast<int>(size)))
            {
                if (set.size() != size)
                {
                    continue;
                }
                std::vector<irow_t> rows;
                for (const auto i : set)
                {
                    rows.push_back(atoms[static_cast<size_t>(i)]);
                }
                for (size_t e = 0; e < EQUALITIES.size(); ++e)
                {
                    ++candidates;
                    switch (decide(rows, EQUALITIES[e]))
                    {
                    case verdict::infeasible: ++infeasible; break;
                    case verdict::unbounded: ++unbounded; break;
                    default: cases.push_back({rows, e}); break;
                    }
                }
            }
        };
        enumerate(atoms3, 3);
        if (args.thorough())
        {
            enumerate(atoms4, 4);
        }
        const auto nobjs = args.thorough() ? LPOBJS.size() : size_t{4};
        std::vector<std::string> objnames;
        for (size_t i = 0; i < nobjs; ++i)
        {
            objnames.push_back(LPOBJS[i].name);
        }
        lattice_t lat;
        lat.axis("program", cases.size(),
                 jobj({{"rows a.x<=h", jstr(std::string("every set of 3 distinct rows, a in {-1,0,1}^2 \\ {0}, h in {-1,0,1,2}") +
                                            (args.thorough() ? "; every set of 4 distinct rows with h in {0,1,2}" : ""))},
                       {"equality", jstr("none | x1+x2=1 | x1-x2=0 | x1=0")},
                       {"candidates", jint(candidates)},
                       {"excluded_infeasible", jint(infeasible)},
                       {"excluded_unbounded_or_empty", jint(unbounded)},
                       {"feasible_and_bounded", jint(cases.size())}}));
        lat.axis("objective", nobjs, jarr_str(objnames));
        lat.axis("epsilon", epsilons.size(), jarr_num(epsilons));
        lat.axis("x0", 3, x0s_json(2));
        lat.describe(r, "lp.");
        const auto x0s = make_x0s(2);
        for_each_case(lat, r, "lp", [&](const uint64_t index, const std::vector<uint64_t>& d) {
            const auto&         lc  = cases[d[0]];
            const auto&         obj = LPOBJS[d[1]];
            std::vector<double> A, b, G, h;
            if (lc.eq != 0)
            {
                A = {static_cast<double>(EQUALITIES[lc.eq].a1), static_cast<double>(EQUALITIES[lc.eq].a2)};
                b = {static_cast<double>(EQUALITIES[lc.eq].h)};
            }
            for (const auto& row : lc.rows)
            {
                G.push_back(row.a1);
                G.push_back(row.a2);
                h.push_back(row.h);
            }
            const auto P = make_program_problem("lp", 2, obj.Q, obj.c, A, b, G, h);
            run_al(r, tally, "lp:" + std::to_string(index), P, epsilons[d[2]], x0s[d[3]]);
            if (index % 997 == 0)
            {
                r.sample(jobj({{"problem", P.json}, {"epsilon", jnum(epsilons[d[2]])}, {"x0", jarr_num(x0s[d[3]])}}));
            }
        });
    }

    // ---- kkt
    if (family == "all" || family == "kkt")
    {
        const std::vector<int>    ns     = {2, 3, 5};
        const std::vector<double> ustars = {0.01, 1.0, 100.0};
        lattice_t                 lat;
        lat.axis("n", ns.size(), "[2,3,5]");
        lat.axis("equalities", 2, "[0,1]");
        lat.axis("G", 2, jarr_str({"n rows, integer pattern ((3i+5j+1) mod 7) - 3", "2n+2 rows: I, -I, ones, -ones"}));
        lat.axis("Q", 3, jarr_str({"0 (LP)", "I", "ones (rank 1)"}));
        lat.axis("active", 3, jarr_str({"none", "first 2 rows", "even rows"}));
        lat.axis("u*", ustars.size(), jarr_num(ustars));
        lat.axis("epsilon", epsilons.size(), jarr_num(epsilons));
        lat.axis("x0", 3, jarr_str({"zeros", "fours", "(-3,5,-3,...)"}));
        lat.describe(r, "kkt.");
        for_each_case(lat, r, "kkt", [&](const uint64_t index, const std::vector<uint64_t>& d) {
            const int  n = ns[d[0]];
            const auto P = make_kkt(n, static_cast<int>(d[1]), static_cast<int>(d[2]), static_cast<int>(d[3]),
                                    static_cast<int>(d[4]), ustars[d[5]]);
            const auto x0s = make_x0s(n);
            run_al(r, tally, "kkt:" + std::to_string(index), P, epsilons[d[6]], x0s[d[7]]);
            if (index % 397 == 0)
            {
                r.sample(jobj({{"problem", P.json}, {"epsilon", jnum(epsilons[d[6]])}, {"x0", jarr_num(x0s[d[7]])}}));
            }
        });
    }

    // ---- bb
    if (family == "all" || family == "bb")
    {
        lattice_t lat;
        lat.axis("n", 2, "[2,3]");
        lat.axis("constraints", 6,
                 jarr_str({"ball<= origin 0 r=2", "ball= origin 0 r=2", "ball<= origin (1,-0.5,0.25) r=1.5",
                           "box [-1,1]^n", "box per dimension", "x_1 in [-1,1] and x_0 = 0.5"}));
        lat.axis("target t", 4, "[[0.5,-0.25,0.25],[3,-2,1],[2,0,0],[-4,4,-4]]");
        lat.axis("A", 3, jarr_str({"I", "diag(1,10,100)", "[[2,.5,0],[.5,1,.25],[0,.25,3]]"}));
        lat.axis("epsilon", epsilons.size(), jarr_num(epsilons));
        lat.axis("x0", 3, jarr_str({"zeros", "fours", "(-3,5,-3)"}));
        lat.describe(r, "bb.");
        for_each_case(lat, r, "bb", [&](const uint64_t index, const std::vector<uint64_t>& d) {
            const int  n   = d[0] == 0 ? 2 : 3;
            const auto P   = make_bb(n, static_cast<int>(d[1]), static_cast<int>(d[2]), static_cast<int>(d[3]));
            const auto x0s = make_x0s(n);
            run_al(r, tally, "bb:" + std::to_string(index), P, epsilons[d[4]], x0s[d[5]]);
            if (index % 197 == 0)
            {
                r.sample(jobj({{"problem", P.json}, {"epsilon", jnum(epsilons[d[4]])}, {"x0", jarr_num(x0s[d[5]])}}));
            }
        });
    }

    r.note("al_runs", jint(tally.runs));
    r.note("al_converged", jint(tally.converged));
}

// ------------------------------------------------------------------------------------------------------------------
// the oracle must reject hand-made wrong answers (and accept the hand-computed right ones)
int self_test()
{
    // sphere (f = x.x) at x = (5,-5), one constraint lin_ineq:A  g = x0 - 2 x1 - 1 = 14 > 0, grad g = (1,-2)
    const auto                pool = make_pool(2);
    const std::vector<hc_t>   cons = {pool[12]};
    const std::vector<double> x    = {5, -5};
    const std::vector<cval_t> cv   = {cons[0].eval(x)};
    const double              fx   = 50;
    const std::vector<double> gfx  = {10, -10};
    if (cv[0].v != 14 || cv[0].g[0] != 1 || cv[0].g[1] != -2)
    {
        std::fprintf(stderr, "self-test: constraint model wrong\n");
        return 2;
    }
    const auto lin  = expect(pfun::linear, fx, gfx, cons, cv, 2.0, {0.0});
    const auto quad = expect(pfun::quadratic, fx, gfx, cons, cv, 2.0, {0.0});
    const auto aug  = expect(pfun::augmented, fx, gfx, cons, cv, 2.0, {10.0});
    // by hand: linear 50 + 2*14 = 78, grad (12,-14); quadratic 50 + 2*196 = 442, grad (10+56, -10-112);
    //          augmented (ro = 2, miu = 10): 50 + (14+5)^2 = 411, grad (10 + 2*19, -10 - 2*19*2) = (48, -86)
    const bool right = close(78.0L, lin.v, lin.T) && close({12, -14}, lin.g, lin.G) && close(442.0L, quad.v, quad.T) &&
                       close({66, -122}, quad.g, quad.G) && close(411.0L, aug.v, aug.T) && close({48, -86}, aug.g, aug.G);
    const bool wrong = close(442.0L - 392 + 28, quad.v, quad.T)    // c*g instead of c*g^2
                       || close({38, -66}, quad.g, quad.G)         // gradient without the factor 2
                       || close(50.0L + 196, aug.v, aug.T)         // multiplier ignored
                       || close({10 + 28, -10 - 56}, aug.g, aug.G) // ro*g instead of ro*(g + miu/ro)
                       || close(78.0L * (1 + 1e-14L), lin.v, lin.T) || close(50.0L, lin.v, lin.T);
    // inactive inequality with a multiplier that activates it: g = -1 at (0,0), miu = 10, ro = 1 => 1/2 * 81
    const std::vector<double> x00 = {0, 0};
    const std::vector<cval_t> cv0 = {cons[0].eval(x00)};
    const auto                a0  = expect(pfun::augmented, 0.0, {0, 0}, cons, cv0, 1.0, {10.0});
    const bool gate = close(40.5L, a0.v, a0.T) && !close(0.0L, a0.v, a0.T) && close({9, -18}, a0.g, a0.G);
    // kink: on the boundary the linear penalty may add s * c * grad g with s in [0,1] only
    std::vector<kink_t> kinks(1);
    kinks[0].lo     = 0;
    kinks[0].hi     = 1;
    kinks[0].column = {2, -4};
    const std::vector<ld> base = {10, -10}, terms = {12, 14};
    const bool kink = in_subdifferential({10, -10}, base, terms, kinks) && in_subdifferential({11, -12}, base, terms, kinks) &&
                      in_subdifferential({12, -14}, base, terms, kinks) && !in_subdifferential({13, -16}, base, terms, kinks) &&
                      !in_subdifferential({9, -8}, base, terms, kinks) && !in_subdifferential({11, -13}, base, terms, kinks);
    // the AL judge: a converged state with |h| = 2e-6 > eps = 1e-6 must be flagged, a stale ceq too
    alprob_t P;
    P.family = "selftest";
    P.n      = 2;
    P.cons   = {pool[10]}; // x0 + x1 - 2 = 0
    const auto bad   = judge_al(P, 1e-6, true, {1, 1.000002}, {2.0000000000575113e-06}, {}, 0.0, 2.0000000000575113e-06, nullptr, nullptr);
    const auto stale = judge_al(P, 1e-6, true, {1, 1}, {1e-7}, {}, 0.0, 1e-7, nullptr, nullptr);
    const auto good  = judge_al(P, 1e-6, true, {1, 1}, {0.0}, {}, 0.0, 0.0, nullptr, nullptr);
    const bool al    = !bad.empty() && bad[0].key.find("converged-but-infeasible") != std::string::npos && !stale.empty() &&
                    good.empty();
    // the exact decision of the lp family
    const bool dec = decide({{1, 0, 1}, {0, 1, 1}, {-1, -1, 0}}, EQUALITIES[0]) == verdict::feasible_bounded &&
                     decide({{1, 0, 1}, {0, 1, 1}, {1, 1, 0}}, EQUALITIES[0]) == verdict::unbounded &&
                     decide({{1, 0, 0}, {0, 1, 0}, {-1, -1, -1}}, EQUALITIES[0]) == verdict::infeasible &&
                     decide({{1, 0, 2}, {-1, 0, 0}, {0, 1, 2}}, EQUALITIES[1]) == verdict::feasible_bounded &&
                     decide({{1, 0, 2}, {0, 1, 2}, {1, 1, 2}}, EQUALITIES[2]) == verdict::unbounded &&
                     decide({{1, 1, 0}, {-1, 0, 2}, {0, -1, 2}}, EQUALITIES[1]) == verdict::infeasible;
    if (!right || wrong || !gate || !kink || !al || !dec)
    {
        std::fprintf(stderr, "self-test failed: right=%d wrong=%d gate=%d kink=%d al=%d decide=%d\n", right, wrong, gate,
                     kink, al, dec);
        return 2;
    }
    if (check_pool(2, make_pool(2), POINTS2) != 0 || check_pool(3, make_pool(3), POINTS3) != 0)
    {
        return 2;
    }
    return 0;
}
} // namespace

int main(int argc, char** argv)
{
    const auto args = parse_args(argc, argv);
    if (self_test() != 0)
    {
        return 2;
    }
    const auto stage = args.stage.empty() ? std::string("formulas") : args.stage;
    report_t   r("c05/" + stage, args);
    if (stage == "formulas")
    {
        stage_formulas(r, args);
    }
    else if (stage == "al")
    {
        stage_al(r, args);
    }
    else
    {
        std::fprintf(stderr, "unknown stage %s\n", stage.c_str());
        return 2;
    }
    return r.finish();
}
