// C06 — values, gradients and convexity flags of functions, losses, constraints and ML objectives are truthful
// (E3, bounded-exhaustive lattice).
//
// stages (selected with --stage):
//   functions    : every registered benchmark prototype x dims x summands; point lattice (patterns x radii x sign) x fixed
//                  directions; all ordered pairs of lattice points for the (strong) convexity inequality
//   losses       : every loss (pinball at 3 alphas) x outputs {1,2,3,13} x every target pattern x prediction lattice
//   constraints  : 11 constraint kinds x 2..3 coefficient instances x dims
//   mlobjectives : linear::function_t, gboost bias/scale/grads, quadratic surrogate (fit) on tiny table datasets
//
// oracle (coded here, nothing from nano/function/util.h is used):
//   * directional derivative: central differences at two steps h1 = 1e-4*max(1,|x|), h2 = 1e-6*max(1,|x|) of the
//     value-only call, compared with g.(x+ - x-)/2h. Agreement at h2 within (rounding noise 4e-13*F/h2 + 2% of the two-step
//     truncation estimate) passes. Otherwise a violation needs all of: the point is not a kink along d (the jump J of the
//     one-sided derivatives, extrapolated from the second differences D(h) = J + c*h at the two steps, is at noise level),
//     the coarse step also disagrees beyond its tolerance, and the two steps agree with each other
//     (|cd1-cd2| <= 0.25*min(err)). Kinks and unresolved cases are counted as trivial and logged.
//   * value-only call == value returned together with the gradient (1e-15 relative).
//   * declared convex => f(z) >= f(x) + g(x).(z-x) [+ mu/2 |z-x|^2] - tol for ALL ordered pairs of lattice points.
//   * losses: batch == each sample alone, loss >= 0, error >= 0, 0-1 error == arg-max (s-*) / sign (m-*) rule.
#include "table_ds.h"
#include "verif.h"
#include <functional>
#include <nano/dataset/iterator.h>
#include <nano/function.h>
#include <nano/function/constraint.h>
#include <nano/gboost/function.h>
#include <nano/linear/function.h>
#include <nano/loss.h>
#include <nano/tuner/surrogate.h>

using namespace nano;
using namespace verif;

namespace
{
using evec = Eigen::VectorXd;

// ---------------------------------------------------------------------------------------------
// the object under judgement, in a library-neutral form
struct object_t
{
    std::string id;   ///< names the class of object in violation keys
    std::string desc; ///< the exact instance (written into violation details)
    Eigen::Index n = 0;
    bool   convex   = false;
    double mu       = 0.0;
    bool   combined = true; ///< a value+gradient call exists whose value can be compared with the value-only call
    std::function<double(const evec&)>        value; ///< value-only call
    std::function<double(const evec&, evec&)> vgrad; ///< value + gradient call
};

vector_t to_nano(const evec& v)
{
    vector_t x(v.size());
    x.vector() = v;
    return x;
}

std::string show(const evec& v)
{
    std::vector<double> c(v.data(), v.data() + v.size());
    return jarr_num(c);
}

object_t from_function(const function_t& f, const std::string& id, const std::string& desc)
{
    object_t o;
    o.id     = id;
    o.desc   = desc;
    o.n      = f.size();
    o.convex = f.convex();
    o.mu     = f.strong_convexity();
    o.value  = [&f](const evec& x)
    {
        const auto nx = to_nano(x);
        return f.vgrad(nx);
    };
    o.vgrad = [&f](const evec& x, evec& g)
    {
        const auto nx = to_nano(x);
        vector_t   gx(x.size());
        gx.full(std::numeric_limits<double>::quiet_NaN());
        const auto v = f.vgrad(nx, gx);
        g            = gx.vector();
        return v;
    };
    return o;
}

object_t from_constraint(const constraint_t& c, const Eigen::Index n, const std::string& id, const std::string& desc)
{
    object_t o;
    o.id     = id;
    o.desc   = desc;
    o.n      = n;
    o.convex = ::nano::convex(c);
    o.mu     = ::nano::strong_convexity(c);
    o.value  = [&c](const evec& x)
    {
        const auto nx = to_nano(x);
        return ::nano::vgrad(c, nx);
    };
    o.vgrad = [&c](const evec& x, evec& g)
    {
        const auto nx = to_nano(x);
        vector_t   gx(x.size());
        gx.full(std::numeric_limits<double>::quiet_NaN());
        const auto v = ::nano::vgrad(c, nx, gx);
        g            = gx.vector();
        return v;
    };
    return o;
}

// ---------------------------------------------------------------------------------------------
// lattices of points and directions
const char* const PATTERNS = "zero | ones | alternating +- | ramp (i+1)/n | one-hot first | one-hot last | generic multipliers in (-1,1) "
                             "(thorough: two more generic multiplier vectors); functions stage: plus the integer grid {-3..3}^n for n <= 2 "
                             "(thorough n <= 3)";

double pattern(const int p, const Eigen::Index i, const Eigen::Index n)
{
    switch (p)
    {
    case 0: return 1.0;
    case 1: return (i % 2 == 0) ? 1.0 : -1.0;
    case 2: return static_cast<double>(i + 1) / static_cast<double>(n);
    case 3: return i == 0 ? 1.0 : 0.0;
    case 4: return i == n - 1 ? 1.0 : 0.0;
    case 5: return vt::generic(static_cast<uint64_t>(i), 3);
    case 6: return vt::generic(static_cast<uint64_t>(i), 4);
    default: return vt::generic(static_cast<uint64_t>(i), 5);
    }
}

void push_unique(std::vector<evec>& out, const evec& v, const bool up_to_sign = false)
{
    for (const auto& w : out)
    {
        if (w == v || (up_to_sign && w == -v))
        {
            return;
        }
    }
    out.push_back(v);
}

std::vector<evec> make_points(const Eigen::Index n, const std::vector<double>& radii, const int patterns = 6)
{
    std::vector<evec> out;
    push_unique(out, evec::Zero(n));
    for (const auto radius : radii)
    {
        for (const double sign : {1.0, -1.0})
        {
            for (int p = 0; p < patterns; ++p)
            {
                evec x(n);
                for (Eigen::Index i = 0; i < n; ++i)
                {
                    x(i) = sign * radius * pattern(p, i, n);
                }
                push_unique(out, x);
            }
        }
    }
    return out;
}

std::vector<evec> make_dirs(const Eigen::Index n, const bool all_coordinates, const bool both = false)
{
    std::vector<evec> out;
    if (all_coordinates)
    {
        for (Eigen::Index i = 0; i < n; ++i)
        {
            push_unique(out, evec::Unit(n, i), true);
        }
    }
    if (!all_coordinates || both)
    {
        push_unique(out, evec::Unit(n, 0), true);
        push_unique(out, evec::Unit(n, n - 1), true);
        evec ones = evec::Ones(n), alt(n);
        for (Eigen::Index i = 0; i < n; ++i)
        {
            alt(i) = (i % 2 == 0) ? 1.0 : -1.0;
        }
        push_unique(out, ones / ones.norm(), true);
        push_unique(out, alt / alt.norm(), true);
    }
    for (const uint64_t salt : {7U, 11U})
    {
        evec d(n);
        for (Eigen::Index i = 0; i < n; ++i)
        {
            d(i) = vt::generic(static_cast<uint64_t>(i), salt);
        }
        push_unique(out, d / d.norm(), true);
    }
    return out;
}

// ---------------------------------------------------------------------------------------------
// the derivative oracle
enum class dd
{
    agree,
    agree_h1_only,
    kink,
    unresolved,
    nonfinite,
    violation
};

struct dd_detail_t
{
    double gd1 = 0, gd2 = 0, cd1 = 0, cd2 = 0, tol1 = 0, tol2 = 0, D1 = 0, D2 = 0, h1 = 0, h2 = 0, J = 0;
};

constexpr double STEP1 = 1e-4, STEP2 = 1e-6;

dd judge_derivative(const object_t& o, const evec& x, const double f0, const evec& g, const evec& d, dd_detail_t& t)
{
    const double xn = std::max(1.0, x.norm());
    t.h1            = STEP1 * xn;
    t.h2            = STEP2 * xn;
    double cd[2], gd[2], D[2], fmax = std::fabs(f0);
    for (int k = 0; k < 2; ++k)
    {
        const double h  = k == 0 ? t.h1 : t.h2;
        const evec   xp = x + h * d, xm = x - h * d;
        const double fp = o.value(xp), fm = o.value(xm);
        if (!std::isfinite(fp) || !std::isfinite(fm))
        {
            return dd::nonfinite;
        }
        fmax  = std::max({fmax, std::fabs(fp), std::fabs(fm)});
        cd[k] = (fp - fm) / (2 * h);
        gd[k] = g.dot(xp - xm) / (2 * h); // the displacement actually applied (x+hd is rounded)
        D[k]  = (fp - 2 * f0 + fm) / h;   // forward quotient minus backward quotient
    }
    // magnitude of the terms that are summed inside f (proxy): values, gradient x point, one unit per dimension
    const double F      = 3 * fmax + g.norm() * xn + static_cast<double>(o.n);
    const double noise1 = 1e-13 * F / t.h1, noise2 = 1e-13 * F / t.h2;
    const double trunc  = std::fabs(cd[0] - cd[1]);
    const double err1 = std::fabs(gd[0] - cd[0]), err2 = std::fabs(gd[1] - cd[1]);
    t.gd1 = gd[0], t.gd2 = gd[1], t.cd1 = cd[0], t.cd2 = cd[1], t.D1 = D[0], t.D2 = D[1];
    t.tol2 = 4 * noise2 + 2e-2 * trunc + 1e-8 * std::fabs(gd[1]);
    t.tol1 = 4 * noise1 + 2.0 * trunc + 1e-8 * std::fabs(gd[0]);
    if (err2 <= t.tol2)
    {
        return dd::agree;
    }
    // a kink at (or within a fraction of h2 of) x: forward minus backward quotient D(h) = J + c*h with a jump J != 0 of the
    // one-sided derivatives; the two steps separate the jump from the curvature term c*h (which may dominate D(h1), e.g.
    // ridge terms with a factor 1e6)
    const double J = (D[1] * t.h1 - D[0] * t.h2) / (t.h1 - t.h2);
    const double c = (D[0] - D[1]) / (t.h1 - t.h2);
    t.J            = J;
    if (std::fabs(J) > 8 * noise2 + 0.02 * std::fabs(c) * t.h2)
    {
        return dd::kink;
    }
    if (err1 <= t.tol1)
    {
        return dd::agree_h1_only; // only the coarse step is explained by its own truncation estimate: not a resolved comparison
    }
    if (trunc > 0.25 * std::min(err1, err2))
    {
        return dd::unresolved; // the two estimates do not agree with each other (kink nearby / violent curvature)
    }
    return dd::violation;
}

const char* name_of(const dd v)
{
    switch (v)
    {
    case dd::agree: return "derivative-agrees";
    case dd::agree_h1_only: return "explained-by-truncation-at-h1-only(skipped)";
    case dd::kink: return "kink-along-direction(skipped)";
    case dd::unresolved: return "steps-disagree-with-each-other(skipped)";
    case dd::nonfinite: return "nonfinite-neighbour(skipped)";
    default: return "derivative-violation";
    }
}

// ---------------------------------------------------------------------------------------------
// all checks of one object over a point list
struct evaluated_t
{
    std::vector<double> f;
    std::vector<evec>   g;
    std::vector<char>   ok;
};

evaluated_t check_object(report_t& r, const std::string& one, const object_t& o, const std::vector<evec>& pts,
                         const std::vector<evec>& dirs, const bool pairs = true)
{
    evaluated_t e;
    const auto  P = pts.size();
    uint64_t    dd_counts[6] = {0, 0, 0, 0, 0, 0}, pair_ok = 0, pair_bad = 0, pair_strong_bad = 0;
    const auto  flush = [&]()
    {
        for (size_t v = 0; v < 6; ++v)
        {
            if (dd_counts[v] > 0)
            {
                r.outcome(name_of(static_cast<dd>(v)), dd_counts[v]);
            }
        }
        if (pair_ok > 0)
        {
            r.outcome(o.mu > 0.0 ? "strong-convexity-inequality-holds" : "convexity-inequality-holds", pair_ok);
        }
        if (pair_bad > 0)
        {
            r.outcome("convexity-violation", pair_bad);
        }
        if (pair_strong_bad > 0)
        {
            r.outcome("strong-convexity-violation", pair_strong_bad);
        }
    };
    e.f.resize(P);
    e.g.resize(P);
    e.ok.assign(P, 0);
    for (size_t i = 0; i < P; ++i)
    {
        const auto& x = pts[i];
        e.f[i]        = o.vgrad(x, e.g[i]);
        const auto f0 = o.value(x);
        e.ok[i]       = std::isfinite(e.f[i]) && std::isfinite(f0) && e.g[i].size() == o.n && e.g[i].allFinite();
        if (!e.ok[i])
        {
            r.outcome("nonfinite-point(skipped)");
            continue;
        }
        if (o.combined)
        {
            r.evaluations += 1;
            r.nontrivial += 1;
            if (!(f0 == e.f[i] || std::fabs(f0 - e.f[i]) <= 1e-15 * std::max(std::fabs(f0), std::fabs(e.f[i]))))
            {
                r.violation("value-only:" + o.id, one,
                            jobj({{"object", jstr(o.desc)}, {"n", jint(o.n)}, {"x", show(x)}, {"value_only", jnum(f0)},
                                  {"value_with_gradient", jnum(e.f[i])}}));
            }
        }
        for (const auto& d : dirs)
        {
            dd_detail_t t;
            const auto  v = judge_derivative(o, x, f0, e.g[i], d, t);
            r.evaluations += 1;
            ++dd_counts[static_cast<size_t>(v)];
            if (v == dd::agree || v == dd::violation)
            {
                r.nontrivial += 1;
            }
            if (v == dd::unresolved || v == dd::agree_h1_only)
            {
                // rare: written to the shard log so that a skipped comparison can be inspected by hand
                std::fprintf(stderr, "NOTE %s %s: %s x=%s d=%s g.d=%.17g cd(h1)=%.17g cd(h2)=%.17g tol1=%.3g tol2=%.3g D1=%.3g D2=%.3g\n",
                             one.c_str(), name_of(v), o.desc.c_str(), show(x).c_str(), show(d).c_str(), t.gd2, t.cd1, t.cd2, t.tol1,
                             t.tol2, t.D1, t.D2);
            }
            if (v == dd::violation)
            {
                r.violation("gradient:" + o.id, one,
                            jobj({{"object", jstr(o.desc)}, {"n", jint(o.n)}, {"x", show(x)}, {"direction", show(d)},
                                  {"observed_g_dot_d", jnum(t.gd2)}, {"expected_central_difference_h2", jnum(t.cd2)},
                                  {"central_difference_h1", jnum(t.cd1)}, {"tolerance_h2", jnum(t.tol2)},
                                  {"tolerance_h1", jnum(t.tol1)}, {"h1", jnum(t.h1)}, {"h2", jnum(t.h2)},
                                  {"second_difference_h1", jnum(t.D1)}, {"second_difference_h2", jnum(t.D2)},
                                  {"estimated_jump_of_one_sided_derivatives", jnum(t.J)},
                                  {"gradient", show(e.g[i])}, {"f", jnum(f0)}}));
            }
        }
    }
    if (!pairs)
    {
        flush();
        return e;
    }
    if (!o.convex)
    {
        r.outcome("not-declared-convex(no-inequality)");
        flush();
        return e;
    }
    std::vector<double> norms(P);
    for (size_t i = 0; i < P; ++i)
    {
        norms[i] = e.ok[i] ? e.g[i].norm() : 0.0;
    }
    for (size_t i = 0; i < P; ++i)
    {
        if (!e.ok[i])
        {
            continue;
        }
        for (size_t j = 0; j < P; ++j)
        {
            if (i == j || !e.ok[j])
            {
                continue;
            }
            const evec   dz    = pts[j] - pts[i];
            const double lin   = e.g[i].dot(dz);
            const double dist2 = dz.squaredNorm();
            const double q     = 0.5 * o.mu * dist2;
            const double slack = e.f[j] - e.f[i] - lin;
            const double tol   = 1e-12 * (std::fabs(e.f[i]) + std::fabs(e.f[j]) + norms[i] * std::sqrt(dist2) + q +
                                        static_cast<double>(o.n));
            r.evaluations += 1;
            r.nontrivial += 1;
            if (!(slack >= -tol))
            {
                ++pair_bad;
                r.violation("convexity:" + o.id, one,
                            jobj({{"object", jstr(o.desc)}, {"n", jint(o.n)}, {"x", show(pts[i])}, {"z", show(pts[j])},
                                  {"f_x", jnum(e.f[i])}, {"f_z", jnum(e.f[j])}, {"g_dot_z_minus_x", jnum(lin)},
                                  {"expected_f_z_at_least", jnum(e.f[i] + lin)}, {"slack", jnum(slack)}, {"tolerance", jnum(tol)},
                                  {"gradient", show(e.g[i])}}));
            }
            else if (o.mu > 0.0 && !(slack - q >= -tol))
            {
                ++pair_strong_bad;
                r.violation("strong-convexity:" + o.id, one,
                            jobj({{"object", jstr(o.desc)}, {"n", jint(o.n)}, {"declared_mu", jnum(o.mu)}, {"x", show(pts[i])},
                                  {"z", show(pts[j])}, {"f_x", jnum(e.f[i])}, {"f_z", jnum(e.f[j])},
                                  {"g_dot_z_minus_x", jnum(lin)}, {"mu_half_dist2", jnum(q)},
                                  {"expected_f_z_at_least", jnum(e.f[i] + lin + q)}, {"slack_after_mu", jnum(slack - q)},
                                  {"tolerance", jnum(tol)}, {"gradient", show(e.g[i])}}));
            }
            else
            {
                ++pair_ok;
            }
        }
    }
    flush();
    return e;
}

// ---------------------------------------------------------------------------------------------
// oracle self-test: hand-made wrong answers must be rejected, right ones accepted
object_t handmade(const int kind)
{
    object_t o;
    o.n    = 3;
    o.id   = "selftest" + std::to_string(kind);
    o.desc = o.id;
    switch (kind)
    {
    case 0: // correct smooth convex: sum x^4 + exp(x0)
        o.convex = true;
        o.value  = [](const evec& x) { return x.array().square().square().sum() + std::exp(x(0)); };
        o.vgrad  = [](const evec& x, evec& g)
        {
            g = 4 * x.array().cube();
            g(0) += std::exp(x(0));
            return x.array().square().square().sum() + std::exp(x(0));
        };
        break;
    case 1: // wrong coefficient in the last gradient component
        o.value = [](const evec& x) { return x.squaredNorm(); };
        o.vgrad = [](const evec& x, evec& g)
        {
            g = 2 * x;
            g(2) *= 1.01;
            return x.squaredNorm();
        };
        break;
    case 2: // strong convexity doubled
        o.convex = true;
        o.mu     = 4.0;
        o.value  = [](const evec& x) { return x.squaredNorm(); };
        o.vgrad  = [](const evec& x, evec& g)
        {
            g = 2 * x;
            return x.squaredNorm();
        };
        break;
    case 3: // concave flagged convex
        o.convex = true;
        o.value  = [](const evec& x) { return std::log1p(x.squaredNorm()); };
        o.vgrad  = [](const evec& x, evec& g)
        {
            g = 2 * x / (1 + x.squaredNorm());
            return std::log1p(x.squaredNorm());
        };
        break;
    case 4: // sum max(x_i, 0) with the one-sided (valid) sub-gradient 1 at the kink: must be skipped as a kink, not reported
        o.convex = true;
        o.value  = [](const evec& x) { return x.array().max(0.0).sum(); };
        o.vgrad  = [](const evec& x, evec& g)
        {
            g = (x.array() >= 0).cast<double>();
            return x.array().max(0.0).sum();
        };
        break;
    case 5: // |x|_1 with an invalid sub-gradient at the kink
        o.convex = true;
        o.value  = [](const evec& x) { return x.lpNorm<1>(); };
        o.vgrad  = [](const evec& x, evec& g)
        {
            g.resize(x.size());
            for (Eigen::Index i = 0; i < x.size(); ++i)
            {
                g(i) = x(i) > 0 ? 1.0 : x(i) < 0 ? -1.0 : 1.5; // 1.5 is outside the sub-differential [-1,1] at 0
            }
            return x.lpNorm<1>();
        };
        break;
    case 7: // kink under a huge curvature (ridge factor 1e6) with a one-sided valid sub-gradient: must be skipped as a kink
        o.convex = true;
        o.mu     = 1e6;
        o.value  = [](const evec& x) { return x.array().max(0.0).sum() + 5e5 * x.squaredNorm(); };
        o.vgrad  = [](const evec& x, evec& g)
        {
            g = (x.array() >= 0).cast<double>().matrix() + 1e6 * x;
            return x.array().max(0.0).sum() + 5e5 * x.squaredNorm();
        };
        break;
    default: // value-only differs from value+gradient
        o.value = [](const evec& x) { return x.squaredNorm(); };
        o.vgrad = [](const evec& x, evec& g)
        {
            g = 2 * x;
            return x.squaredNorm() * (1 + 1e-12);
        };
        break;
    }
    return o;
}

bool selftest(const args_t& args)
{
    const auto pts  = make_points(3, {1e-3, 0.1, 1, 10});
    const auto dirs = make_dirs(3, false);
    const char* expect[] = {"", "gradient:", "strong-convexity:", "convexity:", "", "convexity:", "value-only:", ""};
    for (int kind = 0; kind < 8; ++kind)
    {
        report_t scratch("selftest", args);
        const auto o = handmade(kind);
        check_object(scratch, "selftest:0", o, pts, dirs);
        const auto json = scratch.to_json();
        const auto want = std::string(expect[kind]);
        const bool has  = scratch.violation_count() > 0;
        if (want.empty() ? has : (json.find("\"" + want + o.id + "\"") == std::string::npos))
        {
            std::fprintf(stderr, "oracle self-test %d failed: expected '%s', violations=%llu\n%s\n", kind, want.c_str(),
                         static_cast<unsigned long long>(scratch.violation_count()), json.substr(0, 1500).c_str());
            return false;
        }
        if (kind == 1 && json.find("\"strong-convexity:") != std::string::npos)
        {
            return false;
        }
        if ((kind == 4 || kind == 7) && json.find("kink-along-direction") == std::string::npos)
        {
            std::fprintf(stderr, "oracle self-test %d: no kink recognised\n", kind);
            return false;
        }
    }
    return true;
}

// ---------------------------------------------------------------------------------------------
// stage: functions
void stage_functions(report_t& r, const args_t& args)
{
    const bool             T      = args.thorough();
    const auto             ids    = function_t::all().ids();
    const std::vector<int> dims   = T ? std::vector<int>{1, 2, 3, 4, 5, 6, 7, 8, 12, 16, 24, 32} : std::vector<int>{1, 2, 3, 4, 8};
    const std::vector<int> summ   = T ? std::vector<int>{3, 20, 100} : std::vector<int>{3, 20};
    const std::vector<double> radii = T ? std::vector<double>{1e-3, 1e-2, 0.1, 0.3, 0.5, 1, 2, 3, 5, 10} : std::vector<double>{1e-3, 0.1, 1, 10};

    lattice_t lat;
    lat.axis("prototype", ids.size(), jarr_str(ids));
    lat.axis("dims", dims.size(), jarr_num(dims));
    lat.axis("summands", summ.size(), jarr_num(summ));
    lat.describe(r);
    r.axis("point_patterns", jstr(PATTERNS));
    r.axis("point_radii_x_sign", jobj({{"radii", jarr_num(radii)}, {"sign", jstr("+,-")}}));
    r.axis("directions", jstr("e_0, e_{n-1}, ones/sqrt(n), alternating/sqrt(n), 2 generic unit vectors (deduplicated up to sign); "
                              "thorough: additionally every coordinate direction for n <= 8"));
    r.axis("steps", jstr("{1e-4,1e-6}*max(1,|x|_2)"));
    r.axis("pairs", jstr("all ordered pairs (x,z), x != z, of the point lattice for objects that declare convexity"));

    uint64_t prototypes_run = 0;
    for_each_case(lat, r, "functions", [&](const uint64_t index, const std::vector<uint64_t>& d) {
        const auto& id    = ids[d[0]];
        const auto  n     = dims[d[1]];
        const auto  s     = summ[d[2]];
        const auto  proto = function_t::all().get(id);
        const bool  uses_summands = id.find('+') != std::string::npos || id == "geometric-optimization";
        if (d[2] > 0 && !uses_summands)
        {
            r.outcome("unit:summands-not-a-parameter(skipped)");
            return;
        }
        const auto function = proto->make(n, s);
        if (!function)
        {
            r.outcome("unit:make-returns-null(skipped)");
            return;
        }
        if (function->size() != n)
        {
            r.outcome("unit:dims-not-supported-by-prototype(skipped)"); // the clamped size is another unit of the lattice
            return;
        }
        ++prototypes_run;
        const auto desc = function->name() + (uses_summands ? " summands=" + std::to_string(s) : std::string());
        const auto o    = from_function(*function, id, desc);
        auto       pts  = make_points(o.n, radii, T ? 8 : 6);
        // small integer grids: the points where the pieces of max-type functions tie exactly (e.g. x = (2,-3) for chained_cb3)
        if (o.n <= (T ? 3 : 2))
        {
            const int side = 7; // coordinates -3..3
            int       total = 1;
            for (Eigen::Index i = 0; i < o.n; ++i)
            {
                total *= side;
            }
            for (int code = 0; code < total; ++code)
            {
                evec x(o.n);
                int  rem = code;
                for (Eigen::Index i = 0; i < o.n; ++i)
                {
                    x(i) = static_cast<double>(rem % side - 3);
                    rem /= side;
                }
                push_unique(pts, x);
            }
        }
        const auto dirs = (T && o.n <= 8) ? make_dirs(o.n, true, true) : make_dirs(o.n, false);
        const auto one  = "functions:" + std::to_string(index);
        r.outcome(std::string("unit:") + (o.convex ? (o.mu > 0 ? "declared-strongly-convex" : "declared-convex") : "declared-nonconvex") +
                  (function->smooth() ? "+smooth" : "+nonsmooth"));
        if (!o.convex && o.mu != 0.0)
        {
            r.outcome("unit:note-nonconvex-with-positive-strong-convexity-coefficient");
        }
        check_object(r, one, o, pts, dirs);
        if (index % 97 == 0)
        {
            r.sample(jobj({{"function", jstr(desc)}, {"points", jint(pts.size())}, {"directions", jint(dirs.size())},
                           {"convex", o.convex ? "true" : "false"}, {"mu", jnum(o.mu)}}));
        }
    });
    r.note("function_units_checked_in_this_shard", jint(prototypes_run));
}

// ---------------------------------------------------------------------------------------------
// stage: losses
const std::vector<double> PRED   = {-30, -1, -1e-3, 1e-3, 1, 30};
const std::vector<double> PRED_T = {-30, -5, -1, -0.3, -1e-3, 1e-3, 0.3, 1, 5, 30};
const std::vector<double> TREG = {-30, -0.7, 1};

struct loss_cfg_t
{
    std::string id;
    double      alpha = -1; ///< pinball only
    std::string name() const { return alpha < 0 ? id : id + "[alpha=" + jnum(alpha) + "]"; }
};

std::vector<loss_cfg_t> loss_cfgs()
{
    std::vector<loss_cfg_t> out;
    for (const auto& id : loss_t::all().ids())
    {
        if (id == "pinball")
        {
            for (const double a : {0.5, 0.1, 0.9})
            {
                out.push_back({id, a});
            }
        }
        else
        {
            out.push_back({id, -1});
        }
    }
    return out;
}

int kind_of(const std::string& id) // 0 regression, 1 single-label, 2 multi-label
{
    return id.rfind("s-", 0) == 0 ? 1 : id.rfind("m-", 0) == 0 ? 2 : 0;
}

/// single-label losses on targets that are not one-positive patterns (several positives, none): such targets are outside
/// the losses' documented use, so only the universal clauses are judged on them (the gradient is the derivative of
/// the value, value-only == value, declared convexity, per-sample dependence) - not non-negativity, not the 0-1 rule
std::vector<evec> loss_targets_off_class(const std::string& id, const int k)
{
    std::vector<evec> out;
    if (!(id.rfind("s-", 0) == 0) || k < 2)
    {
        return out;
    }
    const auto push_mask = [&](const unsigned m)
    {
        int  npos = 0;
        evec t(k);
        for (int i = 0; i < k; ++i)
        {
            const bool pos = ((m >> (i % 16)) & 1U) != 0U;
            t(i)           = pos ? 1.0 : -1.0;
            npos += pos ? 1 : 0;
        }
        if (npos != 1 && !(npos == 0 && id == "s-classnll"))
        {
            out.push_back(t);
        }
    };
    if (k <= 4)
    {
        for (unsigned m = 0; m < (1U << k); ++m)
        {
            push_mask(m);
        }
    }
    else
    {
        for (const unsigned m : {0x3U, 0x5U, 0x1001U, 0x1fffU, 0x0ff0U, 0x0U})
        {
            push_mask(m);
        }
    }
    return out;
}

std::vector<evec> loss_targets(const std::string& id, const int k)
{
    std::vector<evec> out;
    const int         kind = kind_of(id);
    if (kind == 1)
    {
        if (k == 1)
        {
            out.push_back(evec::Constant(1, 1.0));
            if (id != "s-classnll") // the softmax likelihood needs a positive class
            {
                out.push_back(evec::Constant(1, -1.0));
            }
            return out;
        }
        for (int p = 0; p < k; ++p)
        {
            evec t = evec::Constant(k, -1.0);
            t(p)   = 1.0;
            out.push_back(t);
        }
        return out;
    }
    if (kind == 2)
    {
        if (k <= 4)
        {
            for (int m = 0; m < (1 << k); ++m)
            {
                evec t(k);
                for (int i = 0; i < k; ++i)
                {
                    t(i) = ((m >> i) & 1) ? 1.0 : -1.0;
                }
                out.push_back(t);
            }
            return out;
        }
        for (int p = 0; p < 8; ++p)
        {
            evec t(k);
            for (int i = 0; i < k; ++i)
            {
                bool pos = false;
                switch (p)
                {
                case 0: pos = false; break;
                case 1: pos = true; break;
                case 2: pos = i % 2 == 0; break;
                case 3: pos = i == 0; break;
                case 4: pos = i == k - 1; break;
                case 5: pos = i < k / 2; break;
                case 6: pos = vt::generic(static_cast<uint64_t>(i), 21) > 0; break;
                default: pos = vt::generic(static_cast<uint64_t>(i), 22) > 0.3; break;
                }
                t(i) = pos ? 1.0 : -1.0;
            }
            out.push_back(t);
        }
        return out;
    }
    if (k <= 4)
    {
        int total = 1;
        for (int i = 0; i < k; ++i)
        {
            total *= 3;
        }
        for (int m = 0; m < total; ++m)
        {
            evec t(k);
            for (int i = 0, mm = m; i < k; ++i, mm /= 3)
            {
                t(i) = TREG[static_cast<size_t>(mm % 3)];
            }
            out.push_back(t);
        }
        return out;
    }
    for (int p = 0; p < 8; ++p)
    {
        evec t(k);
        for (int i = 0; i < k; ++i)
        {
            t(i) = TREG[static_cast<size_t>((i * (p % 3 + 1) + p) % 3)];
        }
        out.push_back(t);
    }
    return out;
}

std::vector<evec> loss_predictions(const int k, const bool thorough)
{
    std::vector<evec> out;
    if (k <= 4)
    {
        const auto& alphabet = (thorough && k <= 3) ? PRED_T : PRED;
        const int   A        = static_cast<int>(alphabet.size());
        int         total    = 1;
        for (int i = 0; i < k; ++i)
        {
            total *= A;
        }
        for (int m = 0; m < total; ++m)
        {
            evec o(k);
            for (int i = 0, mm = m; i < k; ++i, mm /= A)
            {
                o(i) = alphabet[static_cast<size_t>(mm % A)];
            }
            out.push_back(o);
        }
        return out;
    }
    // fixed set for many outputs: strided walks over the alphabet; magnitudes shrink with the coordinate so that no two
    // coordinates carry the same value (no arg-max ties), coordinate 0 keeps the exact alphabet (exact hinge kinks)
    for (int j = 0; j < (thorough ? 200 : 48); ++j)
    {
        evec o(k);
        for (int i = 0; i < k; ++i)
        {
            o(i) = PRED[static_cast<size_t>((i * (j % 5 + 1) + j + (j / 30) * (i / 3)) % 6)] * (1.0 - 0.01 * i);
        }
        push_unique(out, o);
    }
    return out;
}

// the decision rules, coded here: -1 = ambiguous (tie)
int expected_error(const int kind, const evec& t, const evec& o)
{
    if (kind == 1 && t.size() > 1)
    {
        Eigen::Index imax = 0;
        int          ties = 0;
        for (Eigen::Index i = 1; i < o.size(); ++i)
        {
            if (o(i) > o(imax))
            {
                imax = i;
            }
        }
        for (Eigen::Index i = 0; i < o.size(); ++i)
        {
            ties += (o(i) == o(imax)) ? 1 : 0;
        }
        return ties > 1 ? -1 : (t(imax) > 0 ? 0 : 1);
    }
    int errors = 0;
    for (Eigen::Index i = 0; i < o.size(); ++i)
    {
        if (o(i) == 0.0)
        {
            return -1;
        }
        errors += ((o(i) > 0) != (t(i) > 0)) ? 1 : 0;
    }
    return errors;
}

tensor4d_t as_batch(const std::vector<evec>& rows, const int k)
{
    tensor4d_t out(static_cast<tensor_size_t>(rows.size()), k, 1, 1);
    for (size_t s = 0; s < rows.size(); ++s)
    {
        out.vector(static_cast<tensor_size_t>(s)) = rows[s];
    }
    return out;
}

void stage_losses(report_t& r, const args_t& args)
{
    const bool             T       = args.thorough();
    const auto             cfgs    = loss_cfgs();
    const std::vector<int> outputs = T ? std::vector<int>{1, 2, 3, 4, 13} : std::vector<int>{1, 2, 3, 13};
    std::vector<std::string> names;
    for (const auto& c : cfgs)
    {
        names.push_back(c.name());
    }
    lattice_t lat;
    lat.axis("loss", cfgs.size(), jarr_str(names));
    lat.axis("outputs", outputs.size(), jarr_num(outputs));
    lat.describe(r);
    r.axis("targets", jstr("regression: {-30,-0.7,1}^k (k<=4), 8 strided patterns (k=13); s-*: every one-positive pattern "
                           "(k=1: +1 and -1, s-classnll +1 only) under all clauses, plus every other +-1 pattern (k<=4; 6 fixed for k=13) "
                           "under the universal clauses only (gradient = derivative, value-only == value, convexity, per-sample); m-*: every +-1 pattern (k<=4), 8 fixed patterns (k=13)"));
    r.axis("predictions", jstr(T ? "{-30,-5,-1,-0.3,-1e-3,1e-3,0.3,1,5,30}^k for k<=3; {-30,-1,-1e-3,1e-3,1,30}^4; 200 strided walks "
                                   "over the 6-value alphabet for k=13"
                                 : "{-30,-1,-1e-3,1e-3,1,30}^k for k<=3; 48 strided walks over the alphabet for k=13"));
    r.axis("directions", jstr("every coordinate + 2 generic unit vectors"));
    r.axis("pairs", jstr("all ordered pairs of predictions per target for losses that declare convexity"));

    // decision-rule self-test
    {
        evec t(2), o(2);
        t << -1, 1;
        o << 0.3, 0.2;
        if (expected_error(1, t, o) != 1 || expected_error(2, t, o) != 1)
        {
            std::exit(2);
        }
        o << 0.3, 0.3;
        if (expected_error(1, t, o) != -1)
        {
            std::exit(2);
        }
    }

    for_each_case(lat, r, "losses", [&](const uint64_t index, const std::vector<uint64_t>& d) {
        const auto& cfg  = cfgs[d[0]];
        const int   k    = outputs[d[1]];
        const auto  loss = loss_t::all().get(cfg.id);
        if (cfg.alpha >= 0)
        {
            loss->parameter("loss::pinball::alpha") = cfg.alpha;
        }
        const int  kind    = kind_of(cfg.id);
        const auto one     = "losses:" + std::to_string(index);
        auto       targets  = loss_targets(cfg.id, k);
        const auto njudged  = targets.size();
        const auto offclass = loss_targets_off_class(cfg.id, k);
        targets.insert(targets.end(), offclass.begin(), offclass.end());
        const auto preds   = loss_predictions(k, T);
        const auto dirs    = make_dirs(k, true);
        r.outcome(std::string("unit:") + (loss->convex() ? "declared-convex" : "declared-nonconvex") + (loss->smooth() ? "+smooth" : "+nonsmooth"));

        std::vector<evec>   batch_t, batch_o;
        std::vector<double> alone_v, alone_e;
        std::vector<evec>   alone_g;
        for (size_t it = 0; it < targets.size(); ++it)
        {
            const auto& t         = targets[it];
            const bool  off_class = it >= njudged;
            const auto  tt        = as_batch({t}, k);
            object_t   o;
            o.id       = cfg.id;
            o.desc     = cfg.name() + " outputs=" + std::to_string(k) + " target=" + show(t);
            o.n        = k;
            o.convex   = loss->convex();
            o.mu       = 0.0;
            o.combined = false;
            o.value    = [&](const evec& x)
            {
                const auto oo = as_batch({x}, k);
                tensor1d_t v(1);
                loss->value(tt, oo, v);
                return v(0);
            };
            o.vgrad = [&](const evec& x, evec& g)
            {
                const auto oo = as_batch({x}, k);
                tensor1d_t v(1);
                tensor4d_t gg(1, k, 1, 1);
                gg.full(std::numeric_limits<double>::quiet_NaN());
                loss->vgrad(tt, oo, gg);
                loss->value(tt, oo, v);
                g = gg.vector();
                return v(0);
            };
            const auto e = check_object(r, one, o, preds, dirs);
            for (size_t p = 0; p < preds.size(); ++p)
            {
                const auto oo = as_batch({preds[p]}, k);
                tensor1d_t err(1);
                loss->error(tt, oo, err);
                batch_t.push_back(t);
                batch_o.push_back(preds[p]);
                alone_v.push_back(e.f[p]);
                alone_g.push_back(e.g[p]);
                alone_e.push_back(err(0));
                const auto detail = [&]()
                {
                    return jobj({{"loss", jstr(cfg.name())}, {"target", show(t)}, {"prediction", show(preds[p])},
                                 {"value", jnum(e.f[p])}, {"error", jnum(err(0))}});
                };
                if (off_class)
                {
                    r.outcome("off-class-target:universal-clauses-only");
                    continue;
                }
                // non-negativity
                r.evaluations += 1;
                r.nontrivial += 1;
                if (!(e.f[p] >= 0.0) || !(err(0) >= 0.0))
                {
                    r.violation("negative:" + cfg.id, one, detail());
                }
                // decision rule
                if (kind != 0)
                {
                    const auto expected = expected_error(kind, t, preds[p]);
                    r.evaluations += 1;
                    if (expected < 0)
                    {
                        r.outcome("error-rule:tie(skipped)");
                    }
                    else
                    {
                        r.nontrivial += 1;
                        r.outcome(expected == 0 ? "error-rule:correct-prediction" : "error-rule:misclassified");
                        if (err(0) != static_cast<double>(expected))
                        {
                            r.violation("error-rule:" + cfg.id, one,
                                        jobj({{"loss", jstr(cfg.name())}, {"target", show(t)}, {"prediction", show(preds[p])},
                                              {"observed_error", jnum(err(0))}, {"expected_error", jint(expected)}}));
                        }
                    }
                }
            }
        }
        // per-sample dependence: the whole (target, prediction) list as one batch, forwards and backwards
        for (int rev = 0; rev < 2; ++rev)
        {
            auto bt = batch_t, bo = batch_o;
            if (rev != 0)
            {
                std::reverse(bt.begin(), bt.end());
                std::reverse(bo.begin(), bo.end());
            }
            const auto N  = static_cast<tensor_size_t>(bt.size());
            const auto tt = as_batch(bt, k), oo = as_batch(bo, k);
            tensor1d_t v(N), er(N);
            tensor4d_t gg(N, k, 1, 1);
            loss->value(tt, oo, v);
            loss->error(tt, oo, er);
            loss->vgrad(tt, oo, gg);
            for (tensor_size_t s = 0; s < N; ++s)
            {
                const auto a = static_cast<size_t>(rev != 0 ? N - 1 - s : s);
                r.evaluations += 1;
                r.nontrivial += 1;
                const auto close = [](const double x, const double y)
                { return x == y || std::fabs(x - y) <= 1e-13 * std::max(std::fabs(x), std::fabs(y)) || (std::isnan(x) && std::isnan(y)); };
                bool same = close(v(s), alone_v[a]) && er(s) == alone_e[a];
                for (int i = 0; i < k && same; ++i)
                {
                    same = close(gg.vector(s)(i), alone_g[a](i));
                }
                r.outcome(same ? "batch==alone" : "batch!=alone");
                if (!same)
                {
                    r.violation("per-sample:" + cfg.id, one,
                                jobj({{"loss", jstr(cfg.name())}, {"position_in_batch", jint(s)}, {"batch_size", jint(N)},
                                      {"target", show(bt[static_cast<size_t>(s)])}, {"prediction", show(bo[static_cast<size_t>(s)])},
                                      {"value_in_batch", jnum(v(s))}, {"value_alone", jnum(alone_v[a])},
                                      {"error_in_batch", jnum(er(s))}, {"error_alone", jnum(alone_e[a])}}));
                }
            }
        }
        r.sample(jobj({{"loss", jstr(cfg.name())}, {"outputs", jint(k)}, {"targets", jint(targets.size())},
                       {"predictions", jint(preds.size())}, {"convex", loss->convex() ? "true" : "false"}}));
    });
}

// ---------------------------------------------------------------------------------------------
// stage: constraints
struct cinst_t
{
    std::string  kind, instance;
    constraint_t constraint;
};

evec gen(const Eigen::Index n, const uint64_t salt, const double scale = 1.0)
{
    evec v(n);
    for (Eigen::Index i = 0; i < n; ++i)
    {
        v(i) = scale * vt::generic(static_cast<uint64_t>(i), salt);
    }
    return v;
}

matrix_t to_matrix(const Eigen::MatrixXd& m)
{
    matrix_t out(m.rows(), m.cols());
    out.matrix() = m;
    return out;
}

std::vector<cinst_t> constraint_instances(const Eigen::Index n)
{
    using namespace nano::constraint;
    std::vector<cinst_t> out;
    const auto           last = static_cast<tensor_size_t>(n - 1);
    out.push_back({"constant", "value=0.5,dim=0", constant_t{0.5, 0}});
    out.push_back({"constant", "value=-2,dim=n-1", constant_t{-2.0, last}});
    out.push_back({"minimum", "value=0.5,dim=0", minimum_t{{0.5, 0}}});
    out.push_back({"minimum", "value=-2,dim=n-1", minimum_t{{-2.0, last}}});
    out.push_back({"maximum", "value=0.5,dim=0", maximum_t{{0.5, 0}}});
    out.push_back({"maximum", "value=-2,dim=n-1", maximum_t{{-2.0, last}}});
    const auto origin0 = to_nano(evec::Zero(n)), origin1 = to_nano(gen(n, 31, 2.0));
    out.push_back({"euclidean-ball-equality", "origin=0,radius=1", euclidean_ball_equality_t{{origin0, 1.0}}});
    out.push_back({"euclidean-ball-equality", "origin=generic*2,radius=2.5", euclidean_ball_equality_t{{origin1, 2.5}}});
    out.push_back({"euclidean-ball-inequality", "origin=0,radius=1", euclidean_ball_inequality_t{{origin0, 1.0}}});
    out.push_back({"euclidean-ball-inequality", "origin=generic*2,radius=2.5", euclidean_ball_inequality_t{{origin1, 2.5}}});
    const auto q0 = to_nano(evec::Ones(n)), q1 = to_nano(gen(n, 32, 3.0));
    out.push_back({"linear-equality", "q=ones,r=-2", linear_equality_t{{q0, -2.0}}});
    out.push_back({"linear-equality", "q=generic*3,r=0.3", linear_equality_t{{q1, 0.3}}});
    out.push_back({"linear-inequality", "q=ones,r=-2", linear_inequality_t{{q0, -2.0}}});
    out.push_back({"linear-inequality", "q=generic*3,r=0.3", linear_inequality_t{{q1, 0.3}}});
    // symmetric P: positive definite (I + BB'), indefinite (alternating diagonal + symmetric coupling), rank-one PSD
    Eigen::MatrixXd B(n, n), S(n, n);
    for (Eigen::Index i = 0; i < n; ++i)
    {
        for (Eigen::Index j = 0; j < n; ++j)
        {
            B(i, j) = vt::generic(static_cast<uint64_t>(i * n + j), 33);
            S(i, j) = 0.1 * vt::generic(static_cast<uint64_t>(std::min(i, j) * n + std::max(i, j)), 34);
        }
    }
    const Eigen::MatrixXd Ppd = Eigen::MatrixXd::Identity(n, n) + B * B.transpose();
    Eigen::MatrixXd       Pin = S;
    for (Eigen::Index i = 0; i < n; ++i)
    {
        Pin(i, i) = (i % 2 == 0) ? -1.5 : 2.0;
    }
    const evec            v   = gen(n, 35);
    const Eigen::MatrixXd Pr1 = v * v.transpose();
    out.push_back({"quadratic-equality", "P=I+BB',q=generic,r=-1", quadratic_equality_t{{to_matrix(Ppd), q1, -1.0}}});
    out.push_back({"quadratic-equality", "P=indefinite,q=ones,r=0.5", quadratic_equality_t{{to_matrix(Pin), q0, 0.5}}});
    out.push_back({"quadratic-equality", "P=vv',q=generic,r=0", quadratic_equality_t{{to_matrix(Pr1), q1, 0.0}}});
    out.push_back({"quadratic-inequality", "P=I+BB',q=generic,r=-1", quadratic_inequality_t{{to_matrix(Ppd), q1, -1.0}}});
    out.push_back({"quadratic-inequality", "P=indefinite,q=ones,r=0.5", quadratic_inequality_t{{to_matrix(Pin), q0, 0.5}}});
    out.push_back({"quadratic-inequality", "P=vv',q=generic,r=0", quadratic_inequality_t{{to_matrix(Pr1), q1, 0.0}}});
    // non-symmetric P (nothing in the interface asks for a symmetric one): the value is 1/2 x'Px + q'x + r, its derivative
    // 1/2 (P + P')x + q and its curvature the one of the symmetric part
    Eigen::MatrixXd Psk = Ppd, Put = Eigen::MatrixXd::Identity(n, n);
    for (Eigen::Index i = 0; i < n; ++i)
    {
        for (Eigen::Index j = i + 1; j < n; ++j)
        {
            Psk(i, j) += 0.75 + 0.25 * static_cast<double>(i);
            Psk(j, i) -= 0.75 + 0.25 * static_cast<double>(i);
            Put(i, j) = 10.0;
        }
    }
    out.push_back({"quadratic-equality", "P=I+BB'+skew,q=generic,r=-1", quadratic_equality_t{{to_matrix(Psk), q1, -1.0}}});
    out.push_back({"quadratic-inequality", "P=I+BB'+skew,q=generic,r=-1", quadratic_inequality_t{{to_matrix(Psk), q1, -1.0}}});
    out.push_back({"quadratic-inequality", "P=I+10*strictly-upper,q=ones,r=0.5", quadratic_inequality_t{{to_matrix(Put), q0, 0.5}}});
    const auto sphere = function_t::all().get("sphere")->make(static_cast<tensor_size_t>(n), 10);
    const auto maxq   = function_t::all().get("maxq")->make(static_cast<tensor_size_t>(n), 10);
    const auto cauchy = function_t::all().get("cauchy")->make(static_cast<tensor_size_t>(n), 10);
    out.push_back({"functional-equality", "sphere", functional_equality_t{*sphere}});
    out.push_back({"functional-equality", "maxq", functional_equality_t{*maxq}});
    out.push_back({"functional-equality", "cauchy", functional_equality_t{*cauchy}});
    out.push_back({"functional-inequality", "sphere", functional_inequality_t{*sphere}});
    out.push_back({"functional-inequality", "maxq", functional_inequality_t{*maxq}});
    out.push_back({"functional-inequality", "cauchy", functional_inequality_t{*cauchy}});
    return out;
}

void stage_constraints(report_t& r, const args_t& args)
{
    const bool             T    = args.thorough();
    const std::vector<int> dims = T ? std::vector<int>{1, 2, 3, 4, 8, 16} : std::vector<int>{1, 2, 3, 8};
    const std::vector<double> radii = T ? std::vector<double>{1e-3, 1e-2, 0.1, 0.3, 1, 3, 10} : std::vector<double>{1e-3, 0.1, 1, 10};
    const auto             proto = constraint_instances(2);
    std::vector<std::string> names;
    for (const auto& c : proto)
    {
        names.push_back(c.kind + "/" + c.instance);
    }
    lattice_t lat;
    lat.axis("instance", proto.size(), jarr_str(names));
    lat.axis("dims", dims.size(), jarr_num(dims));
    lat.describe(r);
    r.axis("point_patterns", jstr(PATTERNS));
    r.axis("point_radii_x_sign", jobj({{"radii", jarr_num(radii)}, {"sign", jstr("+,-")}}));
    r.axis("directions", jstr("e_0, e_{n-1}, ones/sqrt(n), alternating/sqrt(n), 2 generic unit vectors"));

    for_each_case(lat, r, "constraints", [&](const uint64_t index, const std::vector<uint64_t>& d) {
        const auto n     = dims[d[1]];
        const auto insts = constraint_instances(n);
        const auto& c    = insts[d[0]];
        const auto  o    = from_constraint(c.constraint, n, c.kind, c.kind + "/" + c.instance + " n=" + std::to_string(n));
        const auto  pts  = make_points(n, radii, T ? 8 : 6);
        const auto  dirs = (T && n <= 8) ? make_dirs(n, true, true) : make_dirs(n, false);
        r.outcome(std::string("unit:") + (o.convex ? (o.mu > 0 ? "declared-strongly-convex" : "declared-convex") : "declared-nonconvex"));
        check_object(r, "constraints:" + std::to_string(index), o, pts, dirs);
        if (index % 13 == 0)
        {
            r.sample(jobj({{"constraint", jstr(o.desc)}, {"convex", o.convex ? "true" : "false"}, {"mu", jnum(o.mu)}}));
        }
    });
}

// ---------------------------------------------------------------------------------------------
// stage: ML objectives on tiny table datasets
std::unique_ptr<vt::table_datasource_t> make_source(const int N, const int target)
{
    std::vector<vt::column_t> cols;
    cols.push_back(vt::make_scalar("x0"));
    cols.push_back(vt::make_scalar("x1"));
    const auto ntarget = cols.size();
    if (target == 0)
    {
        cols.push_back(vt::make_scalar("y"));
    }
    else if (target == 1)
    {
        cols.push_back(vt::make_sclass("y", 3));
    }
    else
    {
        cols.push_back(vt::make_mclass("y", 2));
    }
    for (size_t c = 0; c < cols.size(); ++c)
    {
        auto& col = cols[c];
        col.values.resize(static_cast<size_t>(N));
        for (int s = 0; s < N; ++s)
        {
            std::vector<double> v;
            if (col.feature.is_sclass())
            {
                v.push_back(static_cast<double>((s + static_cast<int>(c)) % 3));
            }
            else if (col.feature.is_mclass())
            {
                for (int k = 0; k < 2; ++k)
                {
                    v.push_back(static_cast<double>(((s >> k) + static_cast<int>(c)) & 1));
                }
            }
            else
            {
                v.push_back(vt::generic(static_cast<uint64_t>(s) * 7, c) * (c == 0 ? 3.0 : 1.0));
            }
            col.values[static_cast<size_t>(s)] = v;
        }
    }
    auto src = std::make_unique<vt::table_datasource_t>(N, std::move(cols), ntarget);
    src->load();
    return src;
}

std::vector<std::string> losses_for(const int target)
{
    if (target == 0)
    {
        return {"mse", "mae", "cauchy", "pinball"};
    }
    if (target == 1)
    {
        return {"s-classnll", "s-logistic", "s-hinge", "s-squared-hinge", "s-savage", "s-tangent", "s-exponential"};
    }
    return {"m-logistic", "m-hinge", "m-squared-hinge", "m-savage", "m-tangent", "m-exponential"};
}

struct ml_unit_t
{
    std::string family; ///< linear | gboost-bias | gboost-scale | gboost-grads | surrogate-fit | surrogate
    int         target = 0, N = 0, variant = 0;
    std::string loss;
    std::string name() const
    {
        return family + "/" + loss + "/target=" + std::to_string(target) + "/N=" + std::to_string(N) + "/variant=" + std::to_string(variant);
    }
};

const std::vector<std::pair<double, double>> REGS = {{0, 0}, {1, 0}, {0, 1e6}, {1, 1}};

std::vector<ml_unit_t> ml_units(const bool T)
{
    std::vector<ml_unit_t> out;
    const std::vector<int> Ns = T ? std::vector<int>{1, 4, 9} : std::vector<int>{4};
    for (const int N : Ns)
    {
        for (int target = 0; target < 3; ++target)
        {
            for (const auto& loss : losses_for(target))
            {
                for (int reg = 0; reg < 4; ++reg)
                {
                    out.push_back({"linear", target, N, reg, loss});
                }
                out.push_back({"gboost-bias", target, N, 0, loss});
                for (int v = 0; v < 6; ++v) // 3 cluster layouts x 2 weak-output tables
                {
                    out.push_back({"gboost-scale", target, N, v, loss});
                }
                out.push_back({"gboost-grads", target, N, 0, loss});
            }
        }
    }
    for (const auto& loss : {"mse", "mae", "cauchy", "pinball"})
    {
        for (int v = 0; v < 4; ++v) // hyper-parameter dims {1,2} x samples {3,7}
        {
            out.push_back({"surrogate-fit", 0, 0, v, loss});
        }
    }
    for (int v = 0; v < 6; ++v) // dims {1,2,3} x 2 coefficient vectors
    {
        out.push_back({"surrogate", 0, 0, v, "-"});
    }
    return out;
}

void stage_ml(report_t& r, const args_t& args)
{
    const bool T     = args.thorough();
    const auto units = ml_units(T);
    std::vector<std::string> names;
    for (const auto& u : units)
    {
        names.push_back(u.name());
    }
    const std::vector<double> radii = T ? std::vector<double>{1e-3, 1e-2, 0.1, 0.3, 1, 3, 10} : std::vector<double>{1e-3, 0.1, 1, 10};
    lattice_t lat;
    lat.axis("unit", units.size(), jarr_str(names));
    lat.describe(r);
    r.axis("linear_l1_l2", jstr("variant 0..3 = (0,0),(1,0),(0,1e6),(1,1)"));
    r.axis("gboost_scale_variant", jstr("variant = 2*cluster_layout + weak_table; layouts: one group | two groups | two groups with unassigned samples"));
    r.axis("datasets", jstr("2 scalar inputs, N samples, target scalar | sclass(3) | mclass(2); generic fixed values; 1 thread, batch 3, no scaling"));
    r.axis("point_patterns", jstr(PATTERNS));
    r.axis("point_radii_x_sign", jobj({{"radii", jarr_num(radii)}, {"sign", jstr("+,-")}}));
    r.axis("directions", jstr("e_0, e_{n-1}, ones/sqrt(n), alternating/sqrt(n), 2 generic unit vectors"));

    for_each_case(lat, r, "mlobjectives", [&](const uint64_t index, const std::vector<uint64_t>& d) {
        const auto& u   = units[d[0]];
        const auto  one = "mlobjectives:" + std::to_string(index);
        const auto  run = [&](const function_t& f, const std::string& id, const std::string& desc)
        {
            const auto o    = from_function(f, id, desc);
            const auto pts  = make_points(o.n, radii, T ? 8 : 6);
            const auto dirs = (T && o.n <= 12) ? make_dirs(o.n, true, true) : make_dirs(o.n, false);
            r.outcome(std::string("unit:") + (o.convex ? (o.mu > 0 ? "declared-strongly-convex" : "declared-convex") : "declared-nonconvex") +
                      (f.smooth() ? "+smooth" : "+nonsmooth"));
            check_object(r, one, o, pts, dirs);
            if (index % 11 == 0)
            {
                r.sample(jobj({{"objective", jstr(desc)}, {"n", jint(o.n)}, {"convex", o.convex ? "true" : "false"}, {"mu", jnum(o.mu)}}));
            }
        };
        if (u.family == "surrogate")
        {
            const auto n     = static_cast<Eigen::Index>(u.variant / 2 + 1);
            const auto size  = (n + 1) * (n + 2) / 2;
            const auto model = to_nano(gen(size, static_cast<uint64_t>(41 + u.variant % 2), u.variant % 2 == 0 ? 1.0 : 5.0));
            const auto f     = quadratic_surrogate_t{model};
            run(f, "quadratic-surrogate", u.name());
            return;
        }
        const auto loss = loss_t::all().get(u.loss);
        if (u.family == "surrogate-fit")
        {
            const auto k = static_cast<tensor_size_t>(u.variant / 2 + 1);
            const auto S = static_cast<tensor_size_t>(u.variant % 2 == 0 ? 3 : 7);
            tensor2d_t p(S, k);
            tensor1d_t y(S);
            for (tensor_size_t s = 0; s < S; ++s)
            {
                for (tensor_size_t i = 0; i < k; ++i)
                {
                    p(s, i) = 2.0 * vt::generic(static_cast<uint64_t>(s * k + i), 51);
                }
                y(s) = 3.0 * vt::generic(static_cast<uint64_t>(s), 52);
            }
            const auto f = quadratic_surrogate_fit_t{*loss, p, y};
            run(f, "quadratic-surrogate-fit/" + u.loss, u.name());
            return;
        }
        const auto source  = make_source(u.N, u.target);
        auto       dataset = dataset_t{*source, 1U};
        vt::add_identity_generators(dataset);
        const auto samples = arange(0, u.N);
        if (u.family == "linear")
        {
            auto iterator = flatten_iterator_t{dataset, samples};
            iterator.batch(3);
            iterator.scaling(scaling_type::none);
            const auto [l1, l2] = REGS[static_cast<size_t>(u.variant)];
            const auto f        = linear::function_t{iterator, *loss, l1, l2};
            run(f, std::string("linear") + (l2 > 0 ? "/l2>0" : "/l2=0"), u.name() + " l1=" + jnum(l1) + " l2=" + jnum(l2));
            if (l2 > 0)
            {
                // the same objective restricted to the weights (bias fixed): the sub-lattice on which the declared
                // coefficient can be checked independently of the recorded bias-block finding
                const auto nW = static_cast<Eigen::Index>(f.size() - ::nano::size(dataset.target_dims()));
                const evec b0 = gen(f.size() - nW, 61);
                auto       o  = from_function(f, "linear-weights-only/l2>0", u.name() + " l1=" + jnum(l1) + " l2=" + jnum(l2) + " bias fixed");
                const auto full_value = o.value;
                const auto full_vgrad = o.vgrad;
                o.n     = nW;
                o.value = [=](const evec& w)
                {
                    evec x(nW + b0.size());
                    x << w, b0;
                    return full_value(x);
                };
                o.vgrad = [=](const evec& w, evec& g)
                {
                    evec x(nW + b0.size()), gx;
                    x << w, b0;
                    const auto v = full_vgrad(x, gx);
                    g            = gx.head(nW);
                    return v;
                };
                const auto pts  = make_points(o.n, radii, T ? 8 : 6);
                const auto dirs = make_dirs(o.n, false);
                r.outcome("unit:linear-restricted-to-weights");
                check_object(r, one, o, pts, dirs);
            }
            return;
        }
        auto iterator = targets_iterator_t{dataset, samples};
        iterator.batch(3);
        iterator.scaling(scaling_type::none);
        const auto tdims = dataset.target_dims();
        if (u.family == "gboost-bias")
        {
            const auto f = gboost::bias_function_t{iterator, *loss};
            run(f, "gboost-bias/" + u.loss, u.name());
        }
        else if (u.family == "gboost-grads")
        {
            const auto f = gboost::grads_function_t{iterator, *loss};
            run(f, "gboost-grads/" + u.loss, u.name());
        }
        else
        {
            const int  ck = u.variant / 2, wk = u.variant % 2;
            tensor4d_t soutputs(cat_dims(u.N, tdims)), woutputs(cat_dims(u.N, tdims));
            for (tensor_size_t i = 0; i < soutputs.size(); ++i)
            {
                soutputs(i) = vt::generic(static_cast<uint64_t>(i), 11);
                woutputs(i) = wk == 0 ? 0.5 * static_cast<double>(i % 5) - 1.0 : vt::generic(static_cast<uint64_t>(i), 12);
            }
            const tensor_size_t groups = ck == 0 ? 1 : 2;
            cluster_t           cluster(u.N, groups);
            for (tensor_size_t i = 0; i < u.N; ++i)
            {
                if (ck == 2 && i % 3 == 1)
                {
                    continue;
                }
                cluster.assign(i, ck == 0 ? 0 : i % 2);
            }
            const auto f = gboost::scale_function_t{iterator, *loss, cluster, soutputs, woutputs};
            run(f, "gboost-scale/" + u.loss, u.name());
        }
    });
}
} // namespace

int main(int argc, char** argv)
{
    const auto args  = parse_args(argc, argv);
    const auto stage = args.stage.empty() ? std::string("functions") : args.stage;
    report_t   r("c06/" + stage, args);

    if (!selftest(args))
    {
        std::fprintf(stderr, "c06: oracle self-test failed\n");
        return 2;
    }

    if (stage == "functions")
    {
        stage_functions(r, args);
    }
    else if (stage == "losses")
    {
        stage_losses(r, args);
    }
    else if (stage == "constraints")
    {
        stage_constraints(r, args);
    }
    else if (stage == "mlobjectives")
    {
        stage_ml(r, args);
    }
    else
    {
        std::fprintf(stderr, "unknown stage %s\n", stage.c_str());
        return 2;
    }
    r.assume("a derivative comparison is demanded only where both central-difference steps resolve the derivative: points where the "
             "second difference does not shrink with the step (kinks) or where the two steps disagree with each other are skipped and counted");
    r.assume("tolerances: rounding noise 1e-13*(3 max|f| + |g|*max(1,|x|) + n)/h plus twice the two-step truncation estimate; "
             "convexity inequality 1e-12*(|f(x)|+|f(z)|+|g||z-x|+mu/2|z-x|^2+n)");
    return r.finish();
}
