// C19, stage "factory" (E3): every id of the 11 factories.
//   - the object obtained for an id reports that id, so does its clone; unknown ids give no object
//   - every registered parameter: default inside its declared domain (membership recomputed here), re-assigning the
//     current value is accepted and changes nothing
//   - clone: == parameters, identical serialisation bytes (configurables), identical behaviour probe
//   - independence: moving every parameter of the clone to another in-domain value leaves the original unchanged,
//     and the other way round; an in-domain value is never rejected
//   - unknown parameter names throw (parameter()) / give nullptr (parameter_if())
//   - solvers: the nested line-search objects are part of the configuration that a clone must carry and own
#include "detrand.h"
#include "verif.h"
#include <cinttypes>
#include <nano/datasource.h>
#include <nano/function.h>
#include <nano/generator.h>
#include <nano/linear.h>
#include <nano/loss.h>
#include <nano/lsearch0.h>
#include <nano/lsearchk.h>
#include <nano/solver.h>
#include <nano/splitter.h>
#include <nano/tuner.h>
#include <nano/wlearner.h>
#include <sstream>

using namespace nano;
using namespace verif;

namespace
{
std::string bits(const double v)
{
    uint64_t u = 0;
    std::memcpy(&u, &v, sizeof(u));
    char buf[32];
    std::snprintf(buf, sizeof(buf), "%016" PRIx64, u);
    return buf;
}

template <class tvector>
std::string vbits(const tvector& v)
{
    std::string o;
    for (tensor_size_t i = 0; i < v.size(); ++i)
    {
        o += bits(static_cast<double>(v.data()[i])) + " ";
    }
    return o;
}

bool le_of(const LEorLT& c)
{
    return std::holds_alternative<LE_t>(c);
}

template <class T>
bool inside(const T lo, const bool loLE, const T v, const bool hiLE, const T hi)
{
    if constexpr (std::is_floating_point_v<T>)
    {
        if (!std::isfinite(v))
        {
            return false;
        }
    }
    return (loLE ? lo <= v : lo < v) && (hiLE ? v <= hi : v < hi);
}
template <class T>
bool inside2(const T lo, const bool loLE, const T a, const bool valLE, const T b, const bool hiLE, const T hi)
{
    if constexpr (std::is_floating_point_v<T>)
    {
        if (!std::isfinite(a) || !std::isfinite(b))
        {
            return false;
        }
    }
    return (loLE ? lo <= a : lo < a) && (valLE ? a <= b : a < b) && (hiLE ? b <= hi : b < hi);
}

// the complete state of a parameter as text (name, kind, value bits, domain)
std::string canon(const parameter_t& p)
{
    std::ostringstream o;
    o << p.name() << "#";
    const auto& st = p.storage();
    if (const auto* e = std::get_if<parameter_t::enum_t>(&st))
    {
        o << "E|" << e->m_value << "|";
        for (const auto& n : e->m_domain)
        {
            o << n << ",";
        }
    }
    else if (const auto* i = std::get_if<parameter_t::irange_t>(&st))
    {
        o << "I|" << i->m_value << "|" << i->m_min << (le_of(i->m_mincomp) ? "<=" : "<") << (le_of(i->m_maxcomp) ? "<=" : "<")
          << i->m_max;
    }
    else if (const auto* f = std::get_if<parameter_t::frange_t>(&st))
    {
        o << "F|" << bits(f->m_value) << "|" << bits(f->m_min) << (le_of(f->m_mincomp) ? "<=" : "<")
          << (le_of(f->m_maxcomp) ? "<=" : "<") << bits(f->m_max);
    }
    else if (const auto* ip = std::get_if<parameter_t::iprange_t>(&st))
    {
        o << "IP|" << ip->m_value1 << "," << ip->m_value2 << "|" << ip->m_min << (le_of(ip->m_mincomp) ? "<=" : "<")
          << (le_of(ip->m_valcomp) ? "<=" : "<") << (le_of(ip->m_maxcomp) ? "<=" : "<") << ip->m_max;
    }
    else if (const auto* fp = std::get_if<parameter_t::fprange_t>(&st))
    {
        o << "FP|" << bits(fp->m_value1) << "," << bits(fp->m_value2) << "|" << bits(fp->m_min)
          << (le_of(fp->m_mincomp) ? "<=" : "<") << (le_of(fp->m_valcomp) ? "<=" : "<") << (le_of(fp->m_maxcomp) ? "<=" : "<")
          << bits(fp->m_max);
    }
    else if (const auto* s = std::get_if<string_t>(&st))
    {
        o << "S|" << *s;
    }
    else
    {
        o << "N/A";
    }
    return o.str();
}

std::string canon(const parameters_t& ps)
{
    std::string o;
    for (const auto& p : ps)
    {
        o += canon(p) + "\n";
    }
    return o;
}

// default inside the declared domain (recomputed from the stored bounds and strictness flags)
bool default_inside(const parameter_t& p)
{
    const auto& st = p.storage();
    if (const auto* e = std::get_if<parameter_t::enum_t>(&st))
    {
        return std::find(e->m_domain.begin(), e->m_domain.end(), e->m_value) != e->m_domain.end();
    }
    if (const auto* i = std::get_if<parameter_t::irange_t>(&st))
    {
        return inside(i->m_min, le_of(i->m_mincomp), i->m_value, le_of(i->m_maxcomp), i->m_max);
    }
    if (const auto* f = std::get_if<parameter_t::frange_t>(&st))
    {
        return inside(f->m_min, le_of(f->m_mincomp), f->m_value, le_of(f->m_maxcomp), f->m_max);
    }
    if (const auto* ip = std::get_if<parameter_t::iprange_t>(&st))
    {
        return inside2(ip->m_min, le_of(ip->m_mincomp), ip->m_value1, le_of(ip->m_valcomp), ip->m_value2, le_of(ip->m_maxcomp),
                       ip->m_max);
    }
    if (const auto* fp = std::get_if<parameter_t::fprange_t>(&st))
    {
        return inside2(fp->m_min, le_of(fp->m_mincomp), fp->m_value1, le_of(fp->m_valcomp), fp->m_value2, le_of(fp->m_maxcomp),
                       fp->m_max);
    }
    return std::get_if<string_t>(&st) != nullptr;
}

// assign the parameter's own current value through the typed assignment of its kind
void assign_self(parameter_t& p)
{
    const auto st = p.storage(); // copy: the assignment below writes into the storage
    if (const auto* e = std::get_if<parameter_t::enum_t>(&st))
    {
        p = e->m_value;
    }
    else if (const auto* i = std::get_if<parameter_t::irange_t>(&st))
    {
        p = i->m_value;
    }
    else if (const auto* f = std::get_if<parameter_t::frange_t>(&st))
    {
        p = f->m_value;
    }
    else if (const auto* ip = std::get_if<parameter_t::iprange_t>(&st))
    {
        p = std::make_tuple(ip->m_value1, ip->m_value2);
    }
    else if (const auto* fp = std::get_if<parameter_t::fprange_t>(&st))
    {
        p = std::make_tuple(fp->m_value1, fp->m_value2);
    }
    else if (const auto* s = std::get_if<string_t>(&st))
    {
        p = *s;
    }
}

// move the parameter to another value inside its domain, derived from the domain; false: the domain has one point
bool assign_other(parameter_t& p, std::string& chosen)
{
    const auto st = p.storage();
    if (const auto* e = std::get_if<parameter_t::enum_t>(&st))
    {
        for (const auto& n : e->m_domain)
        {
            if (n != e->m_value)
            {
                chosen = n;
                p      = n;
                return true;
            }
        }
        return false;
    }
    if (const auto* i = std::get_if<parameter_t::irange_t>(&st))
    {
        const auto v = i->m_value;
        for (const int64_t c : {v + 1, v - 1, i->m_min, i->m_max, i->m_min + 1, i->m_max - 1})
        {
            if (c != v && inside(i->m_min, le_of(i->m_mincomp), c, le_of(i->m_maxcomp), i->m_max))
            {
                chosen = std::to_string(c);
                p      = c;
                return true;
            }
        }
        return false;
    }
    if (const auto* f = std::get_if<parameter_t::frange_t>(&st))
    {
        const auto v = f->m_value;
        for (const double c : {0.5 * v + 0.5 * f->m_max, 0.5 * v + 0.5 * f->m_min, 0.5 * v, 2.0 * v, v + 1.0, v - 1.0, f->m_min, f->m_max})
        {
            if (c != v && inside(f->m_min, le_of(f->m_mincomp), c, le_of(f->m_maxcomp), f->m_max))
            {
                chosen = jnum(c);
                p      = c;
                return true;
            }
        }
        return false;
    }
    if (const auto* ip = std::get_if<parameter_t::iprange_t>(&st))
    {
        const auto a = ip->m_value1, b = ip->m_value2;
        const std::pair<int64_t, int64_t> cands[] = {{a, b + 1}, {a - 1, b}, {a + 1, b}, {a, b - 1}, {a + 1, b + 1}, {a - 1, b - 1}};
        for (const auto& [x, y] : cands)
        {
            if ((x != a || y != b) &&
                inside2(ip->m_min, le_of(ip->m_mincomp), x, le_of(ip->m_valcomp), y, le_of(ip->m_maxcomp), ip->m_max))
            {
                chosen = std::to_string(x) + "," + std::to_string(y);
                p      = std::make_tuple(x, y);
                return true;
            }
        }
        return false;
    }
    if (const auto* fp = std::get_if<parameter_t::fprange_t>(&st))
    {
        const auto a = fp->m_value1, b = fp->m_value2;
        const std::pair<double, double> cands[] = {{a, 0.5 * b + 0.5 * fp->m_max}, {0.5 * a + 0.5 * fp->m_min, b}, {0.5 * a + 0.5 * b, b},
                                                   {a, 0.5 * a + 0.5 * b},          {a, b + 1.0},                 {a - 1.0, b}};
        for (const auto& [x, y] : cands)
        {
            if ((x != a || y != b) &&
                inside2(fp->m_min, le_of(fp->m_mincomp), x, le_of(fp->m_valcomp), y, le_of(fp->m_maxcomp), fp->m_max))
            {
                chosen = jnum(x) + "," + jnum(y);
                p      = std::make_tuple(x, y);
                return true;
            }
        }
        return false;
    }
    if (const auto* s = std::get_if<string_t>(&st))
    {
        chosen = *s + "_x";
        p      = chosen;
        return true;
    }
    return false;
}

template <class F>
std::string guarded(const F& f)
{
    try
    {
        return f();
    }
    catch (const std::exception& e)
    {
        return std::string("exception: ") + e.what();
    }
}

template <class tobject>
std::string bytes_of(const tobject& o)
{
    return guarded(
        [&]
        {
            std::ostringstream os;
            o.write(os);
            return os ? os.str() : std::string("stream failed");
        });
}

// ---------------------------------------------------------------------------------------------
// behaviour probes: a cheap deterministic use of the object, written out bit-exactly
std::string probe_on(const solver_t& s, const char* function_id, const tensor_size_t dims)
{
    detrand_reset(0xC19);
    const auto f  = function_t::all().get(function_id)->make(dims, 1);
    const auto x0 = make_full_vector<scalar_t>(dims, 1.0);
    const auto st = s.minimize(*f, x0, make_null_logger());
    return std::string(function_id) + ": x=" + vbits(st.x()) + "fx=" + bits(st.fx()) + " gx=" + vbits(st.gx()) + "status=" +
           std::to_string(static_cast<int>(st.status())) + " calls=" + std::to_string(st.fcalls()) + "/" +
           std::to_string(st.gcalls()) + "; ";
}
std::string probe(const solver_t& s)
{
    // the sphere from (1,1) as stated, plus a smooth and a non-smooth function on which the parameters matter
    return probe_on(s, "sphere", 2) + probe_on(s, "zakharov", 3) + probe_on(s, "maxq", 3) + "ls=" + s.lsearch0().type_id() + "/" +
           s.lsearchk().type_id() + " type=" + std::to_string(static_cast<int>(s.type()));
}
std::string probe(const lsearch0_t& l)
{
    detrand_reset(0xC19);
    const auto     f = function_t::all().get("sphere")->make(2, 1);
    solver_state_t state(*f, make_full_vector<scalar_t>(2, 1.0));
    const vector_t descent = -state.gx();
    const auto     c       = l.clone(); // get() is not const: use a private copy
    const auto     t1      = c->get(state, descent, 1.0);
    const auto     t2      = c->get(state, descent, t1);
    return bits(t1) + " " + bits(t2);
}
std::string probe(const lsearchk_t& l)
{
    detrand_reset(0xC19);
    const auto     f = function_t::all().get("zakharov")->make(3, 1);
    solver_state_t state(*f, make_full_vector<scalar_t>(3, 1.0));
    const vector_t descent = -state.gx();
    const auto [ok, t]     = l.get(state, descent, 1.0, make_null_logger());
    return std::string(ok ? "ok " : "fail ") + bits(t) + " x=" + vbits(state.x()) + "fx=" + bits(state.fx()) +
           " type=" + std::to_string(static_cast<int>(l.type()));
}
std::string probe(const loss_t& l)
{
    tensor4d_t targets(3, 2, 1, 1), outputs(3, 2, 1, 1);
    const double t[] = {+1, -1, -1, +1, -1, -1};
    const double o[] = {0.75, -0.25, 0.5, 2.0, -1.5, 0.125};
    for (tensor_size_t i = 0; i < 6; ++i)
    {
        targets.data()[i] = t[i];
        outputs.data()[i] = o[i];
    }
    tensor1d_t values, errors;
    tensor4d_t vgrads;
    l.value(targets, outputs, values);
    l.error(targets, outputs, errors);
    l.vgrad(targets, outputs, vgrads);
    return "v=" + vbits(values) + "e=" + vbits(errors) + "g=" + vbits(vgrads) + (l.convex() ? "convex " : "") +
           (l.smooth() ? "smooth" : "");
}
std::string probe(const splitter_t& s)
{
    detrand_reset(0xC19);
    const auto  splits = s.split(arange(0, 10));
    std::string o;
    for (const auto& [train, valid] : splits)
    {
        o += "[";
        for (tensor_size_t i = 0; i < train.size(); ++i)
        {
            o += std::to_string(train(i)) + " ";
        }
        o += "|";
        for (tensor_size_t i = 0; i < valid.size(); ++i)
        {
            o += std::to_string(valid(i)) + " ";
        }
        o += "]";
    }
    return o;
}
std::string probe(const tuner_t& t)
{
    detrand_reset(0xC19);
    const auto spaces = param_spaces_t{
        make_param_space("p1", param_space_t::type::linear, 0.0, 0.25, 0.5, 0.75, 1.0),
        make_param_space("p2", param_space_t::type::log10, 1e-2, 1e-1, 1e+0, 1e+1)};
    const auto callback = [](const tensor2d_t& params)
    {
        tensor1d_t values(params.size<0>());
        for (tensor_size_t i = 0; i < values.size(); ++i)
        {
            const auto x = params(i, 0) - 0.75, y = std::log10(params(i, 1)) - 0.0;
            values(i)    = x * x + y * y + 0.5;
        }
        return values;
    };
    const auto  steps = t.optimize(spaces, callback, make_null_logger());
    std::string o;
    for (const auto& s : steps)
    {
        o += vbits(s.m_param) + "=" + bits(s.m_value) + ";";
    }
    return o;
}
std::string probe(const function_t& f)
{
    const auto x = make_full_vector<scalar_t>(f.size(), 1.0);
    vector_t   g(f.size());
    const auto fx = f.vgrad(x, g);
    return f.name() + " n=" + std::to_string(f.size()) + " f=" + bits(fx) + " g=" + vbits(g) + (f.convex() ? " convex" : "") +
           (f.smooth() ? " smooth" : "") + " sc=" + bits(f.strong_convexity()) + " constraints=" +
           std::to_string(f.constraints().size());
}
std::string probe(const linear_t& l)
{
    std::string o;
    for (const auto& s : l.make_param_spaces())
    {
        o += s.name() + ":" + vbits(s.values()) + ";";
    }
    return o + " bias=" + std::to_string(l.bias().size()) + " weights=" + std::to_string(l.weights().size());
}
std::string probe(const datasource_t& d)
{
    // never load(): only what construction and configuration determine
    return "samples=" + std::to_string(d.samples()) + " features=" + std::to_string(d.features());
}
std::string probe(const generator_t&)
{
    return "unfitted"; // a generator has no behaviour before fit(datasource); id and clone only
}
std::string probe(const wlearner_t&)
{
    return "unfitted"; // serialisation bytes stand in for the behaviour of an unfitted weak learner
}

struct case_t
{
    std::string factory;
    std::string id;
};

struct ctx_t
{
    report_t&   r;
    std::string one;
    std::string factory;
    std::string id;
    uint64_t    params{0};
    uint64_t    moved{0};
    uint64_t    onepoint{0};
    std::string probe_text;

    void bad(const std::string& clause, const std::string& detail_json)
    {
        r.violation("factory:" + factory + ":" + clause, one,
                    jobj({{"factory", jstr(factory)}, {"id", jstr(id)}, {"what", detail_json}}));
    }
};

// parameter clauses on one configurable (also used for the line-search objects inside a solver)
template <class tconf>
void check_parameters(ctx_t& c, tconf& obj, const std::string& where)
{
    std::vector<std::string> seen;
    for (const auto& p0 : obj.parameters())
    {
        const auto name = p0.name();
        ++c.params;
        if (std::find(seen.begin(), seen.end(), name) != seen.end())
        {
            c.bad("duplicate-parameter-name", jstr(where + name));
        }
        seen.push_back(name);
        if (!default_inside(p0))
        {
            c.bad("default-outside-domain", jstr(where + canon(p0)));
        }
        // lookup by name finds exactly this parameter; neighbours of the name are unknown
        const auto* found = obj.parameter_if(name);
        if (found != &p0 || &obj.parameter(name) != &p0)
        {
            c.bad("lookup-by-name-finds-another-parameter", jstr(where + name));
        }
        for (const auto& near : {name + "?", name.substr(0, name.size() - 1)})
        {
            if (const auto* q = obj.parameter_if(near); q != nullptr && q->name() != near)
            {
                c.bad("unknown-name-found", jstr(where + near));
            }
        }
        // re-assigning the current value is accepted and changes nothing
        const auto before = canon(p0);
        const auto res    = guarded(
            [&]
            {
                assign_self(obj.parameter(name));
                return std::string();
            });
        if (!res.empty())
        {
            c.bad("own-value-rejected", jstr(where + before + " -> " + res));
        }
        else if (canon(obj.parameter(name)) != before)
        {
            c.bad("own-value-changed-the-parameter", jstr(where + before + " -> " + canon(obj.parameter(name))));
        }
    }
    // unknown names
    const configurable_t& cobj = obj;
    for (const std::string unknown : {"", "no::such::parameter", " "})
    {
        bool threw = false, cthrew = false;
        try
        {
            (void)obj.parameter(unknown);
        }
        catch (const std::exception&)
        {
            threw = true;
        }
        try
        {
            (void)cobj.parameter(unknown);
        }
        catch (const std::exception&)
        {
            cthrew = true;
        }
        if (!threw || !cthrew || obj.parameter_if(unknown) != nullptr || cobj.parameter_if(unknown) != nullptr)
        {
            c.bad("unknown-parameter-name-did-not-throw", jstr(where + "'" + unknown + "'"));
        }
    }
}

// move every parameter of `target` to another in-domain value; `witness` must not change
template <class tconf>
void check_independent(ctx_t& c, tconf& target, const tconf& witness, const std::string& where)
{
    const auto wparams = canon(witness.parameters());
    const auto wbytes  = bytes_of(witness);
    for (const auto& p0 : target.parameters())
    {
        const auto  name   = p0.name();
        const auto  before = canon(p0);
        std::string chosen;
        bool        has = false;
        const auto  res = guarded(
            [&]
            {
                has = assign_other(target.parameter(name), chosen);
                return std::string();
            });
        if (!res.empty())
        {
            c.bad("in-domain-value-rejected", jstr(where + before + " <- " + chosen + ": " + res));
            continue;
        }
        if (!has)
        {
            ++c.onepoint;
            continue;
        }
        ++c.moved;
        if (canon(target.parameter(name)) == before)
        {
            c.bad("accepted-value-not-stored", jstr(where + before + " <- " + chosen));
        }
        if (!default_inside(target.parameter(name)))
        {
            c.bad("stored-value-outside-domain", jstr(where + canon(target.parameter(name))));
        }
        if (canon(witness.parameters()) != wparams)
        {
            c.bad("not-independent", jstr(where + "changing " + name + " changed the other object: " + canon(witness.parameters())));
            return;
        }
    }
    if (bytes_of(witness) != wbytes)
    {
        c.bad("not-independent", jstr(where + "serialisation of the other object changed"));
    }
}

template <class tconf>
void check_equal_config(ctx_t& c, const tconf& a, const tconf& b, const std::string& where)
{
    const auto& pa = a.parameters();
    const auto& pb = b.parameters();
    bool        eq = pa.size() == pb.size();
    for (size_t i = 0; eq && i < pa.size(); ++i)
    {
        eq = pa[i] == pb[i] && !(pa[i] != pb[i]);
    }
    const bool ceq = canon(pa) == canon(pb);
    if (!ceq)
    {
        c.bad("clone-parameters-differ", jstr(where + canon(pa) + " vs " + canon(pb)));
    }
    else if (!eq)
    {
        c.bad("operator==-disagrees-with-state", jstr(where + canon(pa)));
    }
    if (bytes_of(a) != bytes_of(b))
    {
        c.bad("clone-serialisation-differs", jstr(where));
    }
}

template <class tobject>
void check_object(ctx_t& c, const factory_t<tobject>& factory)
{
    constexpr bool configurable = std::is_base_of_v<configurable_t, tobject>;

    auto obj = factory.get(c.id);
    if (!obj || !factory.has(c.id))
    {
        c.bad("id-gives-no-object", jstr(c.id));
        return;
    }
    if (obj->type_id() != c.id)
    {
        c.bad("reported-id-differs-from-registered", jstr(obj->type_id()));
    }
    if (factory.get(c.id + "?") != nullptr || factory.has(c.id + "?") || factory.get("") != nullptr)
    {
        c.bad("unknown-id-gives-an-object", jstr(c.id + "?"));
    }
    if (factory.description(c.id).empty())
    {
        c.r.outcome("empty-description");
    }

    auto clone = obj->clone();
    if (!clone || clone.get() == obj.get() || clone->type_id() != c.id)
    {
        c.bad("clone-id-differs", jstr(clone ? clone->type_id() : "null"));
        return;
    }
    const auto pobj = guarded([&] { return probe(*obj); });
    const auto pcln = guarded([&] { return probe(*clone); });
    if (pobj != pcln)
    {
        c.bad("clone-behaves-differently", jstr("defaults: " + pobj + " vs " + pcln));
    }
    c.r.outcome(pobj.rfind("exception", 0) == 0 ? "probe-threw-identically" : "probe-ran");
    c.probe_text = pobj.substr(0, 400);

    if constexpr (configurable)
    {
        check_parameters(c, *obj, "");
        check_equal_config(c, *obj, *clone, "defaults: ");

        // independence, both directions
        const auto defaults = canon(obj->parameters());
        check_independent(c, *clone, *obj, "clone moved: ");
        if (canon(obj->parameters()) != defaults)
        {
            c.bad("not-independent", jstr("original changed after the clone was modified"));
        }
        auto clone2 = obj->clone();
        check_independent(c, *obj, *clone2, "original moved: ");
        if (canon(clone2->parameters()) != defaults)
        {
            c.bad("not-independent", jstr("clone changed after the original was modified"));
        }
        // the clone of a re-configured object carries the new configuration and behaves like it
        auto clone3 = obj->clone();
        check_equal_config(c, *obj, *clone3, "reconfigured: ");
        if (!obj->parameters().empty() && c.moved > 0 && canon(clone3->parameters()) == defaults)
        {
            c.bad("clone-parameters-differ", jstr("clone of a re-configured object has the defaults"));
        }
        const auto qobj = guarded([&] { return probe(*obj); });
        const auto qcln = guarded([&] { return probe(*clone3); });
        if (qobj != qcln)
        {
            c.bad("clone-behaves-differently", jstr("reconfigured: " + qobj + " vs " + qcln));
        }
        // a second factory object is untouched by all of this (the prototype is not shared)
        auto fresh = factory.get(c.id);
        if (canon(fresh->parameters()) != defaults)
        {
            c.bad("not-independent", jstr("a new object from the factory carries modifications made to an earlier one"));
        }
    }
    else
    {
        auto fresh = factory.get(c.id);
        if (guarded([&] { return probe(*fresh); }) != pobj)
        {
            c.bad("clone-behaves-differently", jstr("second factory object differs"));
        }
    }
}

// solvers: the line-search objects are configuration too
void check_solver_lsearch(ctx_t& c)
{
    const auto& l0ids = lsearch0_t::all().ids();
    const auto& lkids = lsearchk_t::all().ids();
    for (const auto& kid : lkids)
    {
        for (const auto& zid : l0ids)
        {
            auto s = solver_t::all().get(c.id);
            s->lsearch0(zid);
            s->lsearchk(kid);
            auto cl = s->clone();
            if (cl->lsearch0().type_id() != zid || cl->lsearchk().type_id() != kid || &cl->lsearch0() == &s->lsearch0() ||
                &cl->lsearchk() == &s->lsearchk())
            {
                c.bad("clone-loses-line-search", jstr(zid + "/" + kid + " -> " + cl->lsearch0().type_id() + "/" + cl->lsearchk().type_id()));
                return;
            }
            if (canon(cl->lsearch0().parameters()) != canon(s->lsearch0().parameters()) ||
                canon(cl->lsearchk().parameters()) != canon(s->lsearchk().parameters()))
            {
                c.bad("clone-line-search-parameters-differ", jstr(zid + "/" + kid));
            }
            // changing the original's line-search afterwards does not reach the clone
            s->lsearchk(lkids[0] == kid ? lkids.back() : lkids[0]);
            s->lsearch0(l0ids[0] == zid ? l0ids.back() : l0ids[0]);
            if (cl->lsearch0().type_id() != zid || cl->lsearchk().type_id() != kid)
            {
                c.bad("not-independent", jstr("line-search of the clone follows the original"));
            }
        }
    }
    // a configured line-search object handed to the solver is copied, and the clone carries the copy
    for (const auto& kid : lkids)
    {
        auto        s  = solver_t::all().get(c.id);
        auto        lk = lsearchk_t::all().get(kid);
        std::string chosen;
        bool        any = false;
        for (const auto& p : lk->parameters())
        {
            any = assign_other(lk->parameter(p.name()), chosen) || any;
        }
        const auto configured = canon(lk->parameters());
        s->lsearchk(*lk);
        auto cl = s->clone();
        for (const auto& p : lk->parameters())
        {
            assign_self(lk->parameter(p.name()));
            assign_other(lk->parameter(p.name()), chosen);
        }
        if (canon(s->lsearchk().parameters()) != configured || canon(cl->lsearchk().parameters()) != configured)
        {
            c.bad("clone-line-search-parameters-differ", jstr("configured " + kid + ": " + configured + " vs " +
                                                              canon(cl->lsearchk().parameters())));
        }
        const auto ps = guarded([&] { return probe(*s); });
        const auto pc = guarded([&] { return probe(*cl); });
        if (ps != pc)
        {
            c.bad("clone-behaves-differently", jstr("line-search " + kid + ": " + ps + " vs " + pc));
        }
        (void)any;
    }
    // the line-search objects inside satisfy the parameter clauses as well
    auto s   = solver_t::all().get(c.id);
    auto l0  = s->lsearch0().clone();
    auto lk  = s->lsearchk().clone();
    check_parameters(c, *l0, "lsearch0: ");
    check_parameters(c, *lk, "lsearchk: ");
}

template <class tobject>
void add_cases(std::vector<case_t>& cases, const char* name, std::string& summary)
{
    const auto ids = tobject::all().ids();
    for (const auto& id : ids)
    {
        cases.push_back({name, id});
    }
    summary += (summary.empty() ? "" : ",") + jstr(name) + ":" + jarr_str(ids);
}
} // namespace

namespace c19
{
int stage_factory(const args_t& args, report_t& r)
{
    std::vector<case_t> cases;
    std::string         summary;
    add_cases<solver_t>(cases, "solver", summary);
    add_cases<lsearch0_t>(cases, "lsearch0", summary);
    add_cases<lsearchk_t>(cases, "lsearchk", summary);
    add_cases<loss_t>(cases, "loss", summary);
    add_cases<splitter_t>(cases, "splitter", summary);
    add_cases<tuner_t>(cases, "tuner", summary);
    add_cases<generator_t>(cases, "generator", summary);
    add_cases<wlearner_t>(cases, "wlearner", summary);
    add_cases<linear_t>(cases, "linear", summary);
    add_cases<datasource_t>(cases, "datasource", summary);
    add_cases<function_t>(cases, "function", summary);

    // oracle self-test: the domain membership must reject hand-made wrong answers
    if (inside(0.0, false, 0.0, true, 1.0) || !inside(0.0, true, 0.0, true, 1.0) || inside(0.0, true, std::nan(""), true, 1.0) ||
        inside2<int64_t>(0, true, 3, false, 3, true, 10) || !inside2<int64_t>(0, true, 3, true, 3, true, 10) ||
        default_inside(parameter_t{}))
    {
        std::fprintf(stderr, "oracle self-test failed\n");
        return 2;
    }
    {
        // ids of a factory are unique
        for (size_t i = 0; i < cases.size(); ++i)
        {
            for (size_t j = i + 1; j < cases.size(); ++j)
            {
                if (cases[i].factory == cases[j].factory && cases[i].id == cases[j].id && args.shard == 0 && args.one.empty())
                {
                    r.violation("factory:" + cases[i].factory + ":duplicate-id", "fac:" + std::to_string(i), jobj({{"id", jstr(cases[i].id)}}));
                }
            }
        }
    }

    lattice_t lat;
    lat.axis("object", cases.size(), "{" + summary + "}");
    lat.describe(r, "factory.");
    r.assume("data sources are only constructed, cloned and configured, never load()ed; generators and weak learners "
             "are unfitted, so their behaviour probe is the id (and the serialisation bytes for weak learners)");
    r.assume("every parameter of the real objects is probed at its default, re-assigned to itself and moved to one "
             "other in-domain value derived from its bounds; full assignment histories are run on the 9 model shapes "
             "of stage bfs only");

    uint64_t nparams = 0, nmoved = 0, nonepoint = 0;
    for_each_case(lat, r, "fac",
                  [&](const uint64_t index, const std::vector<uint64_t>&)
                  {
                      const auto& cs = cases[index];
                      ctx_t       c{r, "fac:" + std::to_string(index), cs.factory, cs.id};
                      try
                      {
                          if (cs.factory == "solver")
                          {
                              check_object(c, solver_t::all());
                              check_solver_lsearch(c);
                          }
                          else if (cs.factory == "lsearch0") check_object(c, lsearch0_t::all());
                          else if (cs.factory == "lsearchk") check_object(c, lsearchk_t::all());
                          else if (cs.factory == "loss") check_object(c, loss_t::all());
                          else if (cs.factory == "splitter") check_object(c, splitter_t::all());
                          else if (cs.factory == "tuner") check_object(c, tuner_t::all());
                          else if (cs.factory == "generator") check_object(c, generator_t::all());
                          else if (cs.factory == "wlearner") check_object(c, wlearner_t::all());
                          else if (cs.factory == "linear") check_object(c, linear_t::all());
                          else if (cs.factory == "datasource") check_object(c, datasource_t::all());
                          else check_object(c, function_t::all());
                      }
                      catch (const std::exception& e)
                      {
                          c.bad("unexpected-exception", jstr(e.what()));
                      }
                      r.evaluations += 1;
                      r.outcome("factory:" + cs.factory);
                      if (c.moved > 0)
                      {
                          ++r.nontrivial; // at least one parameter was moved inside its domain and the clauses were judged
                      }
                      nparams += c.params;
                      nmoved += c.moved;
                      nonepoint += c.onepoint;
                      if (index % 7 == 0)
                      {
                          r.sample(jobj({{"factory", jstr(cs.factory)}, {"id", jstr(cs.id)}, {"parameters", jint(c.params)},
                                        {"probe", jstr(c.probe_text)}}));
                      }
                  });
    r.note("parameters_checked", jint(nparams));
    r.note("parameters_moved", jint(nmoved));
    r.note("parameters_with_one_point_domain", jint(nonepoint));
    return r.finish();
}
} // namespace c19
