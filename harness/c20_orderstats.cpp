// C20 — order statistics and histograms against a sorted-array reference (E3, bounded exhaustive).
//
// stages (selected with --stage):
//   pct   : every list of length 1..L over an 8-value alphabet (doubles) and over a 6-value integer alphabet,
//           every percentage on the 0.25 grid, sorted and unsorted variants, median, ml::store_stats
//   hist  : every such list x every threshold multiset of size 1..3 over an 8-value alphabet: partition, counts,
//           means, medians; derived constructors (ratios, percentiles, exponents)
//   bin   : every threshold multiset x query values on/between/beyond the thresholds, integers and non-integers
#include "verif.h"
#include <nano/core/histogram.h>
#include <nano/core/stats.h>
#include <nano/machine/stats.h>

using namespace nano;
using namespace verif;

namespace
{
const std::vector<double> VALS = {-2, -1, -0.5, 0, 0.5, 1, 1.5, 3};
const std::vector<int>    IVALS = {-2, -1, 0, 1, 2, 3};
const std::vector<double> THRS = {-3, -1, -0.5, 0, 0.5, 1, 1.5, 4};

// index -> list over an alphabet of size A: lengths 1..L, shorter first
template <class T>
std::vector<T> list_of(uint64_t index, const std::vector<T>& alpha, const int maxlen)
{
    const auto A     = static_cast<uint64_t>(alpha.size());
    uint64_t   block = A;
    for (int len = 1; len <= maxlen; ++len, block *= A)
    {
        if (index < block)
        {
            std::vector<T> out(static_cast<size_t>(len));
            for (int i = len; i-- > 0;)
            {
                out[static_cast<size_t>(i)] = alpha[index % A];
                index /= A;
            }
            return out;
        }
        index -= block;
    }
    return {};
}
uint64_t lists_count(const uint64_t A, const int maxlen)
{
    uint64_t total = 0, block = A;
    for (int len = 1; len <= maxlen; ++len, block *= A)
    {
        total += block;
    }
    return total;
}

// all sorted multisets of size 1..3 over THRS
std::vector<std::vector<double>> threshold_sets()
{
    std::vector<std::vector<double>> out;
    const auto                       n = THRS.size();
    for (size_t a = 0; a < n; ++a)
    {
        out.push_back({THRS[a]});
    }
    for (size_t a = 0; a < n; ++a)
    {
        for (size_t b = a; b < n; ++b)
        {
            out.push_back({THRS[a], THRS[b]});
        }
    }
    for (size_t a = 0; a < n; ++a)
    {
        for (size_t b = a; b < n; ++b)
        {
            for (size_t c = b; c < n; ++c)
            {
                out.push_back({THRS[a], THRS[b], THRS[c]});
            }
        }
    }
    return out;
}

template <class T>
std::string show(const std::vector<T>& v)
{
    return jarr_num(v);
}

// reference percentile: position = j*(n-1)/400 as an exact rational (percentage = j/4)
template <class T>
double ref_percentile(const std::vector<T>& sorted, const int j)
{
    const auto n   = static_cast<long>(sorted.size());
    const long num = static_cast<long>(j) * (n - 1);
    const long l   = num / 400;
    const long r   = (num % 400 == 0) ? l : l + 1;
    const auto lv  = static_cast<double>(sorted[static_cast<size_t>(l)]);
    const auto rv  = static_cast<double>(sorted[static_cast<size_t>(r)]);
    return l == r ? lv : (lv + rv) / 2;
}

bool same(const double a, const double b)
{
    return (std::isnan(a) && std::isnan(b)) || std::fabs(a - b) <= 1e-12 * (1.0 + std::fabs(b));
}

template <class T>
void check_percentiles(report_t& r, const std::string& tag, const uint64_t index, const std::vector<T>& list)
{
    auto sorted = list;
    std::sort(sorted.begin(), sorted.end());
    bool nontrivial = false;
    for (int j = 0; j <= 400; ++j)
    {
        const auto p        = 0.25 * j;
        const auto expected = ref_percentile(sorted, j);
        auto       copy     = list;
        const auto got_u    = percentile(copy.begin(), copy.end(), p);
        const auto got_s    = percentile_sorted(sorted.begin(), sorted.end(), p);
        r.evaluations += 2;
        const long num = static_cast<long>(j) * static_cast<long>(list.size() - 1);
        if (num % 400 != 0 && sorted[static_cast<size_t>(num / 400)] != sorted[static_cast<size_t>(num / 400 + 1)])
        {
            nontrivial = true;
        }
        if (!same(got_u, expected))
        {
            r.violation("percentile:unsorted", tag + ":" + std::to_string(index),
                        jobj({{"list", show(list)}, {"p", jnum(p)}, {"got", jnum(got_u)}, {"expected", jnum(expected)}}));
        }
        if (!same(got_s, expected))
        {
            r.violation("percentile:sorted", tag + ":" + std::to_string(index),
                        jobj({{"list", show(list)}, {"p", jnum(p)}, {"got", jnum(got_s)}, {"expected", jnum(expected)}}));
        }
        // the unsorted variant must keep the multiset of values
        std::sort(copy.begin(), copy.end());
        if (copy != sorted)
        {
            r.violation("percentile:unsorted-loses-values", tag + ":" + std::to_string(index),
                        jobj({{"list", show(list)}, {"p", jnum(p)}}));
        }
    }
    {
        auto       copy = list;
        const auto m    = median(copy.begin(), copy.end());
        const auto ms   = median_sorted(sorted.begin(), sorted.end());
        const auto e    = ref_percentile(sorted, 200);
        r.evaluations += 2;
        if (!same(m, e) || !same(ms, e))
        {
            r.violation("median", tag + ":" + std::to_string(index),
                        jobj({{"list", show(list)}, {"got", jnum(m)}, {"got_sorted", jnum(ms)}, {"expected", jnum(e)}}));
        }
    }
    if (nontrivial)
    {
        ++r.nontrivial;
    }
    r.outcome(nontrivial ? "midpoint-of-distinct-neighbours" : "exact-position-or-tie");
}

void check_store_stats(report_t& r, const uint64_t index, const std::vector<double>& list)
{
    auto sorted = list;
    std::sort(sorted.begin(), sorted.end());
    tensor1d_t values(static_cast<tensor_size_t>(list.size()));
    for (size_t i = 0; i < list.size(); ++i)
    {
        values(static_cast<tensor_size_t>(i)) = list[i];
    }
    tensor1d_t stats(12);
    ml::store_stats(values.tensor(), stats.tensor());
    r.evaluations += 1;
    const int  js[]  = {4, 20, 40, 80, 200, 320, 360, 380, 396};
    long double sum = 0;
    for (const auto v : list)
    {
        sum += v;
    }
    const auto mean = static_cast<double>(sum / static_cast<long double>(list.size()));
    bool       ok   = same(stats(0), mean) && stats(2) == static_cast<double>(list.size());
    for (int k = 0; k < 9; ++k)
    {
        ok = ok && same(stats(3 + k), ref_percentile(sorted, js[k]));
    }
    if (!ok)
    {
        std::vector<double> got(stats.data(), stats.data() + 12);
        r.violation("store_stats", "pct:" + std::to_string(index), jobj({{"list", show(list)}, {"stats", show(got)}}));
    }
    const auto st = ml::load_stats(stats.tensor());
    if (!(same(st.m_mean, stats(0)) && same(st.m_per50, stats(7)) && same(st.m_per99, stats(11)) &&
          st.m_count == stats(2)))
    {
        r.violation("load_stats", "pct:" + std::to_string(index), jobj({{"list", show(list)}}));
    }
}

// the counting rule of the histogram: a value goes right of every threshold it is >= to
tensor_size_t ref_bin(const std::vector<double>& thresholds, const double v)
{
    tensor_size_t bin = 0;
    for (const auto t : thresholds)
    {
        if (v >= t)
        {
            ++bin;
        }
    }
    return bin;
}

template <class T>
bool check_histogram(report_t& r, const std::string& one, const histogram_t& h, const std::vector<T>& list,
                     const std::string& ctor)
{
    std::vector<double> thresholds(h.thresholds().data(), h.thresholds().data() + h.thresholds().size());
    bool                ok    = true;
    const auto          nbins = static_cast<tensor_size_t>(thresholds.size()) + 1;
    if (!std::is_sorted(thresholds.begin(), thresholds.end()) || h.bins() != nbins || h.counts().size() != nbins ||
        h.means().size() != nbins || h.medians().size() != nbins)
    {
        r.violation("histogram:shape:" + ctor, one, jobj({{"list", show(list)}, {"thresholds", show(thresholds)}}));
        return false;
    }
    std::vector<std::vector<double>> parts(static_cast<size_t>(nbins));
    auto                             sorted = list;
    std::sort(sorted.begin(), sorted.end());
    for (const auto v : sorted)
    {
        parts[static_cast<size_t>(ref_bin(thresholds, static_cast<double>(v)))].push_back(static_cast<double>(v));
    }
    tensor_size_t total = 0;
    for (tensor_size_t b = 0; b < nbins; ++b)
    {
        const auto& part = parts[static_cast<size_t>(b)];
        total += h.count(b);
        double emean = std::numeric_limits<double>::quiet_NaN(), emed = emean;
        if (!part.empty())
        {
            long double s = 0;
            for (const auto v : part)
            {
                s += v;
            }
            emean = static_cast<double>(s / static_cast<long double>(part.size()));
            emed  = ref_percentile(part, 200);
        }
        if (h.count(b) != static_cast<tensor_size_t>(part.size()) || h.counts()(b) != h.count(b))
        {
            ok = false;
            r.violation("histogram:count:" + ctor, one,
                        jobj({{"list", show(list)}, {"thresholds", show(thresholds)}, {"bin", jint(b)},
                              {"got", jint(h.count(b))}, {"expected", jint(part.size())}}));
        }
        else if (!same(h.mean(b), emean) || !same(h.means()(b), emean))
        {
            ok = false;
            r.violation("histogram:mean:" + ctor, one,
                        jobj({{"list", show(list)}, {"thresholds", show(thresholds)}, {"bin", jint(b)},
                              {"got", jnum(h.mean(b))}, {"expected", jnum(emean)}}));
        }
        else if (!same(h.median(b), emed) || !same(h.medians()(b), emed))
        {
            ok = false;
            r.violation("histogram:median:" + ctor, one,
                        jobj({{"list", show(list)}, {"thresholds", show(thresholds)}, {"bin", jint(b)},
                              {"got", jnum(h.median(b))}, {"expected", jnum(emed)}}));
        }
    }
    if (total != static_cast<tensor_size_t>(list.size()))
    {
        ok = false;
        r.violation("histogram:partition:" + ctor, one, jobj({{"list", show(list)}, {"thresholds", show(thresholds)}}));
    }
    // every stored value must be assigned by bin() to the bin it was counted in
    for (const auto v : sorted)
    {
        const auto e = ref_bin(thresholds, static_cast<double>(v));
        const auto g = h.bin(v);
        if (g != e)
        {
            ok            = false;
            const auto dv = static_cast<double>(v);
            r.violation(dv != std::floor(dv) ? "bin:noninteger-query" : "bin:integer-query", one,
                        jobj({{"list", show(list)}, {"thresholds", show(thresholds)}, {"query", jnum(dv)},
                              {"got", jint(g)}, {"expected", jint(e)}}));
            break;
        }
    }
    return ok;
}

tensor_mem_t<scalar_t, 1> to_tensor(const std::vector<double>& v)
{
    tensor_mem_t<scalar_t, 1> t(static_cast<tensor_size_t>(v.size()));
    for (size_t i = 0; i < v.size(); ++i)
    {
        t(static_cast<tensor_size_t>(i)) = v[i];
    }
    return t;
}

template <class T>
void check_derived(report_t& r, const std::string& one, const std::vector<T>& list)
{
    auto sorted = list;
    std::sort(sorted.begin(), sorted.end());
    const auto lo = static_cast<double>(sorted.front()), hi = static_cast<double>(sorted.back());
    // ratios
    const std::vector<std::vector<double>> ratio_sets = {{0.5}, {0.25, 0.5}, {0.1, 0.9}, {0.75, 0.25, 0.5}};
    for (const auto& ratios : ratio_sets)
    {
        auto       data = list;
        const auto h    = histogram_t::make_from_ratios(data.begin(), data.end(), to_tensor(ratios));
        r.evaluations += 1;
        auto sr = ratios;
        std::sort(sr.begin(), sr.end());
        bool ok = h.thresholds().size() == static_cast<tensor_size_t>(sr.size());
        for (size_t i = 0; ok && i < sr.size(); ++i)
        {
            ok = same(h.thresholds()(static_cast<tensor_size_t>(i)), lo + sr[i] * (hi - lo));
        }
        if (!ok)
        {
            r.violation("histogram:thresholds:ratios", one, jobj({{"list", show(list)}, {"ratios", show(ratios)}}));
        }
        check_histogram(r, one, h, list, "ratios");
    }
    for (tensor_size_t bins = 2; bins <= 4; ++bins)
    {
        auto       data = list;
        const auto h    = histogram_t::make_from_ratios(data.begin(), data.end(), bins);
        r.evaluations += 1;
        bool ok = h.thresholds().size() == bins - 1;
        for (tensor_size_t i = 0; ok && i + 1 < bins; ++i)
        {
            ok = std::fabs(h.thresholds()(i) - (lo + static_cast<double>(i + 1) / static_cast<double>(bins) * (hi - lo))) <=
                 1e-12 * (1.0 + std::fabs(lo) + std::fabs(hi));
        }
        if (!ok)
        {
            r.violation("histogram:thresholds:equidistant-ratios", one, jobj({{"list", show(list)}, {"bins", jint(bins)}}));
        }
        check_histogram(r, one, h, list, "ratios");
    }
    // percentiles (on the exact grid)
    const std::vector<std::vector<double>> pct_sets = {{50}, {25, 75}, {10, 50, 90}, {99.75, 0.25}};
    for (const auto& pcts : pct_sets)
    {
        auto       data = list;
        const auto h    = histogram_t::make_from_percentiles(data.begin(), data.end(), to_tensor(pcts));
        r.evaluations += 1;
        auto sp = pcts;
        std::sort(sp.begin(), sp.end());
        bool ok = h.thresholds().size() == static_cast<tensor_size_t>(sp.size());
        for (size_t i = 0; ok && i < sp.size(); ++i)
        {
            ok = same(h.thresholds()(static_cast<tensor_size_t>(i)), ref_percentile(sorted, static_cast<int>(sp[i] * 4)));
        }
        if (!ok)
        {
            r.violation("histogram:thresholds:percentiles", one, jobj({{"list", show(list)}, {"percentiles", show(pcts)}}));
        }
        check_histogram(r, one, h, list, "percentiles");
    }
    for (tensor_size_t bins : {2, 4, 5})
    {
        auto       data = list;
        const auto h    = histogram_t::make_from_percentiles(data.begin(), data.end(), bins);
        r.evaluations += 1;
        // NB: the equidistant percentages come out of lin_spaced and need not be exact grid values, so only
        //     the number of thresholds and the consistency of the bins are demanded here
        if (h.thresholds().size() != bins - 1)
        {
            r.violation("histogram:thresholds:equidistant-percentiles", one,
                        jobj({{"list", show(list)}, {"bins", jint(bins)}}));
        }
        check_histogram(r, one, h, list, "percentiles");
    }
    for (const double base : {2.0, 10.0})
    {
        auto       data = list;
        const auto h    = histogram_t::make_from_exponents(data.begin(), data.end(), base);
        r.evaluations += 1;
        // thresholds are +-base^k, strictly increasing
        bool ok = h.thresholds().size() > 0;
        for (tensor_size_t i = 0; ok && i < h.thresholds().size(); ++i)
        {
            const auto t = std::fabs(h.thresholds()(i));
            const auto k = std::round(std::log(t) / std::log(base));
            ok           = same(t, std::pow(base, k)) && (i == 0 || h.thresholds()(i - 1) < h.thresholds()(i));
        }
        if (!ok)
        {
            r.violation("histogram:thresholds:exponents", one, jobj({{"list", show(list)}, {"base", jnum(base)}}));
        }
        check_histogram(r, one, h, list, "exponents");
    }
}

std::vector<double> queries_of(const std::vector<double>& thresholds)
{
    std::vector<double> q;
    for (size_t i = 0; i < thresholds.size(); ++i)
    {
        const auto t = thresholds[i];
        for (const double d : {-0.25, 0.0, 0.25, -1.0, 1.0, -0.75, 0.75})
        {
            q.push_back(t + d);
        }
        if (i + 1 < thresholds.size())
        {
            q.push_back((t + thresholds[i + 1]) / 2);
        }
    }
    q.push_back(thresholds.front() - 10);
    q.push_back(thresholds.back() + 10);
    q.push_back(-0.0);
    std::sort(q.begin(), q.end());
    q.erase(std::unique(q.begin(), q.end()), q.end());
    return q;
}
} // namespace

int main(int argc, char** argv)
{
    const auto  args  = parse_args(argc, argv);
    const auto  stage = args.stage.empty() ? "pct" : args.stage;
    report_t    r("c20/" + stage, args);
    const int   L     = static_cast<int>(args.geti("maxlen", args.thorough() ? 6 : 4));
    const int   LI    = static_cast<int>(args.geti("maxlen_int", args.thorough() ? 5 : 4));
    const auto  tsets = threshold_sets();

    r.axis("value_alphabet", show(VALS));
    r.axis("integer_alphabet", show(IVALS));

    // oracle self-test: the reference must reject a deliberately wrong answer
    if (same(ref_percentile(std::vector<double>{0, 1, 3}, 300), 1.0) || ref_bin({0.5, 1.5}, 1.5) != 2 ||
        ref_bin({0.5, 1.5}, 1.4) != 1 || !same(ref_percentile(std::vector<double>{0, 1, 3}, 300), 2.0))
    {
        std::fprintf(stderr, "oracle self-test failed\n");
        return 2;
    }

    if (stage == "pct")
    {
        lattice_t lat;
        lat.axis("list(double)", lists_count(VALS.size(), L), jobj({{"lengths", jstr("1.." + std::to_string(L))}}));
        lat.describe(r, "pct.");
        r.axis("percentages", jstr("0,0.25,...,100 (401 values; p*(n-1)/100 has an exact floor/ceil)"));
        for_each_case(lat, r, "pct", [&](const uint64_t index, const std::vector<uint64_t>&) {
            const auto list = list_of(index, VALS, L);
            check_percentiles(r, "pct", index, list);
            check_store_stats(r, index, list);
            if (index % 997 == 0)
            {
                r.sample(jobj({{"list", show(list)}, {"percentages", jstr("all 401")}}));
            }
        });
        lattice_t lati;
        lati.axis("list(int)", lists_count(IVALS.size(), LI), jobj({{"lengths", jstr("1.." + std::to_string(LI))}}));
        lati.describe(r, "pcti.");
        for_each_case(lati, r, "pcti", [&](const uint64_t index, const std::vector<uint64_t>&) {
            check_percentiles(r, "pcti", index, list_of(index, IVALS, LI));
        });
        // every length 1..500 (the quantifier's range) with pairwise distinct values in a scrambled order: for distinct
        // neighbours every rounding mistake in the position p*(n-1)/100 changes the answer (all 401 percentages each)
        lattice_t latr;
        latr.axis("ramp_length", 500, jstr("1..500, values 0.5*k-60 scrambled (doubles) and k-120 scrambled (ints)"));
        latr.describe(r, "ramp.");
        for_each_case(latr, r, "ramp", [&](const uint64_t index, const std::vector<uint64_t>&) {
            const auto          n = static_cast<size_t>(index) + 1;
            std::vector<double> vals(n);
            std::vector<int>    ivals(n);
            for (size_t i = 0; i < n; ++i)
            {
                const auto k = (i * 7919U + 13U) % n; // a bijection of 0..n-1: 7919 is prime and larger than n
                vals[i]      = 0.5 * static_cast<double>(k) - 60.0;
                ivals[i]     = static_cast<int>(k) - 120;
            }
            check_percentiles(r, "ramp", index, vals);
            check_percentiles(r, "ramp", index, ivals);
        });
        // a finite list of structured longer lists (not exhaustive, stated as such)
        if (args.one.empty() && args.shard == 0)
        {
            std::vector<std::vector<double>> longer;
            longer.emplace_back(500, 1.5);
            std::vector<double> ramp(257), two(101);
            for (size_t i = 0; i < ramp.size(); ++i)
            {
                ramp[i] = 0.5 * static_cast<double>((i * 37) % ramp.size()) - 30;
            }
            for (size_t i = 0; i < two.size(); ++i)
            {
                two[i] = (i % 3 == 0) ? -2.0 : 3.0;
            }
            longer.push_back(ramp);
            longer.push_back(two);
            for (size_t i = 0; i < longer.size(); ++i)
            {
                check_percentiles(r, "long", i, longer[i]);
            }
        }
    }
    else if (stage == "hist")
    {
        const int LH = static_cast<int>(args.geti("maxlen", args.thorough() ? 5 : 4));
        lattice_t lat;
        lat.axis("list(double)", lists_count(VALS.size(), LH), jobj({{"lengths", jstr("1.." + std::to_string(LH))}}));
        lat.axis("thresholds", tsets.size(), jobj({{"multisets of size 1..3 over", show(THRS)}}));
        lat.describe(r, "hist.");
        for_each_case(lat, r, "hist", [&](const uint64_t index, const std::vector<uint64_t>& d) {
            const auto  list = list_of(d[0], VALS, LH);
            const auto& thr  = tsets[d[1]];
            auto        data = list;
            // thresholds are handed over in reverse order: the constructor must sort them
            auto rev = thr;
            std::reverse(rev.begin(), rev.end());
            const auto h = histogram_t::make_from_thresholds(data.begin(), data.end(), to_tensor(rev));
            r.evaluations += 1;
            const auto one = "hist:" + std::to_string(index);
            check_histogram(r, one, h, list, "thresholds");
            bool on_threshold = false;
            for (const auto v : list)
            {
                on_threshold = on_threshold || std::find(thr.begin(), thr.end(), v) != thr.end();
            }
            if (on_threshold)
            {
                ++r.nontrivial;
            }
            r.outcome(on_threshold ? "value-on-threshold" : "values-off-thresholds");
            if (index % 99991 == 0)
            {
                r.sample(jobj({{"list", show(list)}, {"thresholds", show(thr)}}));
            }
        });
        // derived constructors on every list (doubles) and on integer lists
        lattice_t latd;
        latd.axis("list(double)", lists_count(VALS.size(), LH), "");
        latd.describe(r, "derived.");
        for_each_case(latd, r, "derived", [&](const uint64_t index, const std::vector<uint64_t>&) {
            check_derived(r, "derived:" + std::to_string(index), list_of(index, VALS, LH));
            ++r.nontrivial;
        });
        lattice_t lati;
        lati.axis("list(int)", lists_count(IVALS.size(), LI), "");
        lati.axis("thresholds", tsets.size(), "");
        lati.describe(r, "histi.");
        for_each_case(lati, r, "histi", [&](const uint64_t index, const std::vector<uint64_t>& d) {
            const auto list = list_of(d[0], IVALS, LI);
            auto       data = list;
            const auto h    = histogram_t::make_from_thresholds(data.begin(), data.end(), to_tensor(tsets[d[1]]));
            r.evaluations += 1;
            check_histogram(r, "histi:" + std::to_string(index), h, list, "thresholds");
        });
    }
    else if (stage == "bin")
    {
        lattice_t lat;
        lat.axis("thresholds", tsets.size(), jobj({{"multisets of size 1..3 over", show(THRS)}}));
        lat.describe(r, "bin.");
        r.axis("queries", jstr("every threshold t, t+-0.25, t+-0.75, t+-1, midpoints, min-10, max+10, -0.0; as double, "
                               "and the integral ones also as int / long"));
        for_each_case(lat, r, "bin", [&](const uint64_t index, const std::vector<uint64_t>& d) {
            const auto&         thr  = tsets[d[0]];
            std::vector<double> data = {-2, 0, 0.5, 3};
            const auto          h    = histogram_t::make_from_thresholds(data.begin(), data.end(), to_tensor(thr));
            const auto          one  = "bin:" + std::to_string(index);
            for (const auto q : queries_of(thr))
            {
                const auto e = ref_bin(thr, q);
                const auto g = h.bin(q);
                r.evaluations += 1;
                const bool integral = q == std::floor(q);
                if (!integral || std::find(thr.begin(), thr.end(), q) != thr.end())
                {
                    ++r.nontrivial;
                }
                r.outcome(integral ? "integer-query" : "noninteger-query");
                if (g != e)
                {
                    r.violation(integral ? "bin:integer-query" : "bin:noninteger-query", one,
                                jobj({{"thresholds", show(thr)}, {"query", jnum(q)}, {"got", jint(g)}, {"expected", jint(e)}}));
                }
                if (integral)
                {
                    const auto gi = h.bin(static_cast<int>(q));
                    const auto gl = h.bin(static_cast<int64_t>(q));
                    const auto gf = h.bin(static_cast<float>(q));
                    r.evaluations += 3;
                    if (gi != e || gl != e || gf != e)
                    {
                        r.violation("bin:integer-typed-query", one,
                                    jobj({{"thresholds", show(thr)}, {"query", jnum(q)}, {"got", jint(gi)}, {"expected", jint(e)}}));
                    }
                }
            }
            if (index % 17 == 0)
            {
                r.sample(jobj({{"thresholds", show(thr)}, {"queries", show(queries_of(thr))}}));
            }
        });
    }
    else
    {
        std::fprintf(stderr, "unknown stage %s\n", stage.c_str());
        return 2;
    }
    return r.finish();
}
