// C16: the checks of c16_impl.cpp instantiated for one scalar type
#define C16_TYPE uint32_t
#define C16_NAME uint32
#define C16_ASAN 0
#include "c16_impl.cpp"
