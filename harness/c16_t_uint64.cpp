// C16: the checks of c16_impl.cpp instantiated for one scalar type
#define C16_TYPE uint64_t
#define C16_NAME uint64
#define C16_ASAN 1
#include "c16_impl.cpp"
