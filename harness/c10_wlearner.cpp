// C10 — weak learners fit residuals optimally in their class and predict consistently (E3 lattice).
//
// One case = one tiny dataset (schema x n samples x outputs x one value per sample and feature), enumerated
// completely; inside a case every gradient tensor over {0,-1,2} (per output), every sample list of a stated
// set and every learner is evaluated.
//
//   --stage optimal      criterion rss: fitted score of stump / hinge / affine / dense table / dstep table ==
//                        brute-force minimum RSS over the documented hypothesis class; RSS recomputed from
//                        predict() == reported score.
//   --stage consistency  all 4 criteria, all learners incl. k-best / k-split tables and decision trees:
//                        predict adds, zero for missing selected feature, depends only on the sample, equals
//                        the table of the split() group, scale, merge, depth-1 tree == stump, threads.
//
// The oracle never calls libnano: it works on the plain table of optional values the dataset was built from
// (two-pass means / least squares in long double).
#include "table_ds.h"
#include "verif.h"
#include <algorithm>
#include <limits>
#include <nano/wlearner/affine.h>
#include <nano/wlearner/criterion.h>
#include <nano/wlearner/dtree.h>
#include <nano/wlearner/hinge.h>
#include <nano/wlearner/stump.h>
#include <nano/wlearner/table.h>
#include <nano/wlearner/util.h>
#include <set>
#include <sys/resource.h>
#include <sys/wait.h>
#include <unistd.h>

using namespace nano;
using namespace verif;
using ld = long double;

namespace
{
// ---------------------------------------------------------------------------------------------
// the enumerated space
enum class ft
{
    scalar,  // {0, 1, 2, missing}
    scalar4, // {0, 1, 2, 3, missing}: four levels, so that both children of a tree root can be split again
    sclass2, // {0, 1, missing}
    sclass3, // {0, 1, 2, missing}
    mclass2, // {00, 10, 01, 11, missing}
};

int alphabet(const ft t)
{
    switch (t)
    {
    case ft::scalar: return 4;
    case ft::scalar4: return 5;
    case ft::sclass2: return 3;
    case ft::sclass3: return 4;
    default: return 5;
    }
}

bool is_scalar(const ft t)
{
    return t == ft::scalar || t == ft::scalar4;
}

struct schema_t
{
    std::string     name;
    std::vector<ft> feats;
    int             ncap = 99; // never more samples than this
};

const std::vector<schema_t>& schemas()
{
    static const std::vector<schema_t> all = {
        {"x", {ft::scalar}},
        {"c2", {ft::sclass2}},
        {"c3", {ft::sclass3}},
        {"m2", {ft::mclass2}},
        {"x+c2", {ft::scalar, ft::sclass2}},
        {"x+x", {ft::scalar, ft::scalar}},
        {"c2+m2", {ft::sclass2, ft::mclass2}},
        {"c2+c2", {ft::sclass2, ft::sclass2}},
        {"x4", {ft::scalar4}, 5},
    };
    return all;
}

struct cell_t
{
    bool   given = false;
    double x     = 0.0; // scalar value
    int    key   = -1;  // single-label: the label; multi-label: bit mask of the labels that are set
};

struct problem_t
{
    const schema_t*                  schema = nullptr;
    int                              n      = 0;
    int                              O      = 1;
    std::vector<std::vector<cell_t>> cells; // [feature][sample]

    int  F() const { return static_cast<int>(schema->feats.size()); }
    bool scalar(const int f) const { return is_scalar(schema->feats[static_cast<size_t>(f)]); }
    const cell_t& at(const int f, const int i) const { return cells[static_cast<size_t>(f)][static_cast<size_t>(i)]; }
};

cell_t make_cell(const ft t, const int digit)
{
    cell_t c;
    if (digit + 1 == alphabet(t))
    {
        return c; // missing
    }
    c.given = true;
    if (is_scalar(t))
    {
        c.x = static_cast<double>(digit);
    }
    else
    {
        c.key = digit;
    }
    return c;
}

const double GA[3] = {0.0, -1.0, 2.0}; // gradient alphabet, simplest first

lattice_t make_lattice(const schema_t& s, const int n)
{
    lattice_t lat;
    for (int i = 0; i < n; ++i)
    {
        for (size_t f = 0; f < s.feats.size(); ++f)
        {
            lat.axis("s" + std::to_string(i) + "f" + std::to_string(f), static_cast<uint64_t>(alphabet(s.feats[f])));
        }
    }
    return lat;
}

problem_t make_problem(const schema_t& s, const int n, const int O, const std::vector<uint64_t>& d)
{
    problem_t p;
    p.schema = &s;
    p.n      = n;
    p.O      = O;
    p.cells.assign(s.feats.size(), std::vector<cell_t>(static_cast<size_t>(n)));
    size_t k = 0;
    for (int i = 0; i < n; ++i)
    {
        for (size_t f = 0; f < s.feats.size(); ++f)
        {
            p.cells[f][static_cast<size_t>(i)] = make_cell(s.feats[f], static_cast<int>(d[k++]));
        }
    }
    return p;
}

std::string show_problem(const problem_t& p)
{
    std::string o = "{\"schema\":" + jstr(p.schema->name) + ",\"n\":" + jint(p.n) + ",\"outputs\":" + jint(p.O) +
                    ",\"features\":[";
    for (int f = 0; f < p.F(); ++f)
    {
        o += f ? ",[" : "[";
        for (int i = 0; i < p.n; ++i)
        {
            const auto& c = p.at(f, i);
            o += i ? "," : "";
            if (!c.given)
            {
                o += "null";
            }
            else if (p.scalar(f))
            {
                o += jnum(c.x);
            }
            else if (p.schema->feats[static_cast<size_t>(f)] == ft::mclass2)
            {
                o += "\"" + std::to_string(c.key & 1) + std::to_string((c.key >> 1) & 1) + "\"";
            }
            else
            {
                o += jint(c.key);
            }
        }
        o += "]";
    }
    return o + "]}";
}

// ---------------------------------------------------------------------------------------------
// the real objects
struct built_t
{
    std::unique_ptr<vt::table_datasource_t> source;
    std::unique_ptr<dataset_t>              dataset;
    std::vector<int>                        column; // dataset feature index -> column of the table (the generators
                                                    // group the features by kind, so the order may differ)

    int col(const tensor_size_t feature) const
    {
        return feature >= 0 && feature < static_cast<tensor_size_t>(column.size()) ? column[static_cast<size_t>(feature)] : -1;
    }
};

built_t build(const problem_t& p, const size_t threads)
{
    std::vector<vt::column_t> cols;
    for (int f = 0; f < p.F(); ++f)
    {
        const auto t    = p.schema->feats[static_cast<size_t>(f)];
        const auto name = "f" + std::to_string(f);
        auto col = is_scalar(t)       ? vt::make_scalar(name)
                   : t == ft::sclass2 ? vt::make_sclass(name, 2)
                   : t == ft::sclass3 ? vt::make_sclass(name, 3)
                                      : vt::make_mclass(name, 2);
        for (int i = 0; i < p.n; ++i)
        {
            const auto& c = p.at(f, i);
            if (!c.given)
            {
                col.values.emplace_back(std::nullopt);
            }
            else if (is_scalar(t))
            {
                col.values.emplace_back(std::vector<double>{c.x});
            }
            else if (t == ft::mclass2)
            {
                col.values.emplace_back(std::vector<double>{static_cast<double>(c.key & 1), static_cast<double>((c.key >> 1) & 1)});
            }
            else
            {
                col.values.emplace_back(std::vector<double>{static_cast<double>(c.key)});
            }
        }
        cols.push_back(std::move(col));
    }
    auto target = p.O == 1 ? vt::make_scalar("y") : vt::make_struct("y", feature_type::float64, make_dims(p.O, 1, 1));
    for (int i = 0; i < p.n; ++i)
    {
        target.values.emplace_back(std::vector<double>(static_cast<size_t>(p.O), 0.0));
    }
    cols.push_back(std::move(target));

    built_t b;
    b.source = std::make_unique<vt::table_datasource_t>(p.n, std::move(cols), static_cast<size_t>(p.F()));
    b.source->load();
    b.dataset = std::make_unique<dataset_t>(*b.source, threads);
    vt::add_identity_generators(*b.dataset);
    for (tensor_size_t j = 0; j < b.dataset->features(); ++j)
    {
        const auto name = b.dataset->feature(j).name();
        b.column.push_back(name.size() == 2 && name[0] == 'f' ? name[1] - '0' : -1);
    }
    return b;
}

/// the dataset layer is trusted (property C08) but a wrong harness set-up must not go unnoticed
bool dataset_as_expected(const problem_t& p, const built_t& b)
{
    const auto& ds = *b.dataset;
    if (ds.samples() != p.n || ds.features() != p.F() || ds.target_dims() != make_dims(p.O, 1, 1))
    {
        return false;
    }
    std::set<int> seen;
    for (int j = 0; j < p.F(); ++j)
    {
        const auto f = b.col(j);
        if (f < 0 || f >= p.F() || !seen.insert(f).second)
        {
            return false;
        }
        const auto t    = p.schema->feats[static_cast<size_t>(f)];
        const auto type = ds.feature(j).type();
        const auto ok   = is_scalar(t)       ? (type != feature_type::sclass && type != feature_type::mclass)
                          : t == ft::mclass2 ? type == feature_type::mclass
                                             : type == feature_type::sclass;
        if (!ok)
        {
            return false;
        }
    }
    return true;
}

indices_t make_indices(const std::vector<int>& v)
{
    indices_t idx(static_cast<tensor_size_t>(v.size()));
    for (size_t i = 0; i < v.size(); ++i)
    {
        idx(static_cast<tensor_size_t>(i)) = v[i];
    }
    return idx;
}

std::vector<int> iota_list(const int n)
{
    std::vector<int> v(static_cast<size_t>(n));
    for (int i = 0; i < n; ++i)
    {
        v[static_cast<size_t>(i)] = i;
    }
    return v;
}

// ---------------------------------------------------------------------------------------------
// gradients: digits (index into GA) per (sample, output)
struct gradients_t
{
    int              n = 0, O = 1;
    std::vector<int> digit; // [i * O + o]

    double g(const int i, const int o) const { return GA[digit[static_cast<size_t>(i * O + o)]]; }
    ld     r(const int i, const int o) const { return -static_cast<ld>(g(i, o)); } // residual = negative gradient

    tensor4d_t tensor() const
    {
        tensor4d_t t(make_dims(n, O, 1, 1));
        for (int i = 0; i < n; ++i)
        {
            for (int o = 0; o < O; ++o)
            {
                t(i, o, 0, 0) = g(i, o);
            }
        }
        return t;
    }
    gradients_t rotated() const
    {
        auto c = *this;
        for (auto& d : c.digit)
        {
            d = (d + 1) % 3;
        }
        return c;
    }
    gradients_t reversed() const // the gradients of the samples in reversed order
    {
        auto c = *this;
        for (int i = 0; i < n; ++i)
        {
            for (int o = 0; o < O; ++o)
            {
                c.digit[static_cast<size_t>(i * O + o)] = digit[static_cast<size_t>((n - 1 - i) * O + o)];
            }
        }
        return c;
    }
    std::string show() const
    {
        std::vector<double> v;
        for (int i = 0; i < n; ++i)
        {
            for (int o = 0; o < O; ++o)
            {
                v.push_back(g(i, o));
            }
        }
        return jarr_num(v);
    }
};

/// number of gradient tensors enumerated for (n, O): complete for one output and for two outputs with n <= full2;
/// otherwise output 0 ranges over all {0,-1,2}^n and output 1 over three derived vectors (rotated alphabet,
/// reversed order, fixed alternating pattern).
uint64_t gradient_count(const int n, const int O, const int full2)
{
    uint64_t p = 1;
    for (int i = 0; i < n; ++i)
    {
        p *= 3;
    }
    if (O == 1)
    {
        return p;
    }
    return n <= full2 ? p * p : 3 * p;
}

gradients_t make_gradients(const int n, const int O, const int full2, uint64_t index)
{
    gradients_t G;
    G.n = n;
    G.O = O;
    G.digit.assign(static_cast<size_t>(n * O), 0);
    if (O == 1 || n <= full2)
    {
        for (int k = n * O; k-- > 0;)
        {
            G.digit[static_cast<size_t>(k)] = static_cast<int>(index % 3);
            index /= 3;
        }
        return G;
    }
    const auto variant = static_cast<int>(index % 3);
    index /= 3;
    std::vector<int> g0(static_cast<size_t>(n));
    for (int i = n; i-- > 0;)
    {
        g0[static_cast<size_t>(i)] = static_cast<int>(index % 3);
        index /= 3;
    }
    for (int i = 0; i < n; ++i)
    {
        G.digit[static_cast<size_t>(i * 2)] = g0[static_cast<size_t>(i)];
        G.digit[static_cast<size_t>(i * 2 + 1)] = variant == 0   ? (g0[static_cast<size_t>(i)] + 1) % 3
                                                  : variant == 1 ? g0[static_cast<size_t>(n - 1 - i)]
                                                                 : (i + 1) % 3;
    }
    return G;
}

// ---------------------------------------------------------------------------------------------
// the oracle: brute force over the documented hypothesis classes on the plain table
constexpr ld INF = std::numeric_limits<ld>::infinity();

/// how a sample list (repetitions count) is partitioned by each feature: independent of the gradients
struct plan_t
{
    struct split_t
    {
        double           t = 0; // mid-point between two distinct consecutive given values
        std::vector<int> lo, hi;
    };
    struct feature_t
    {
        std::vector<int>              given, missing;
        std::vector<split_t>          splits; // scalar features
        std::vector<std::vector<int>> labels; // categorical features: one list per observed label (combination)
    };
    std::vector<feature_t> feats;

    plan_t(const problem_t& p, const std::vector<int>& S)
        : feats(static_cast<size_t>(p.F()))
    {
        for (int f = 0; f < p.F(); ++f)
        {
            auto&                           pf = feats[static_cast<size_t>(f)];
            std::set<double>                values;
            std::map<int, std::vector<int>> groups;
            for (const int i : S)
            {
                const auto& c = p.at(f, i);
                (c.given ? pf.given : pf.missing).push_back(i);
                if (c.given && p.scalar(f))
                {
                    values.insert(c.x);
                }
                else if (c.given)
                {
                    groups[c.key].push_back(i);
                }
            }
            const std::vector<double> v(values.begin(), values.end());
            for (size_t k = 0; k + 1 < v.size(); ++k)
            {
                split_t sp;
                sp.t = 0.5 * (v[k] + v[k + 1]);
                for (const int i : pf.given)
                {
                    (p.at(f, i).x < sp.t ? sp.lo : sp.hi).push_back(i);
                }
                pf.splits.push_back(std::move(sp));
            }
            for (auto& [key, L] : groups)
            {
                pf.labels.push_back(std::move(L));
            }
        }
    }
};

struct oracle_t
{
    const problem_t&   p;
    const plan_t&      plan;
    const gradients_t& G;

    ld rss_zero(const std::vector<int>& L) const
    {
        ld s = 0;
        for (const int i : L)
        {
            for (int o = 0; o < p.O; ++o)
            {
                s += G.r(i, o) * G.r(i, o);
            }
        }
        return s;
    }
    ld rss_mean(const std::vector<int>& L) const
    {
        if (L.empty())
        {
            return 0;
        }
        ld s = 0;
        for (int o = 0; o < p.O; ++o)
        {
            ld m = 0;
            for (const int i : L)
            {
                m += G.r(i, o);
            }
            m /= static_cast<ld>(L.size());
            for (const int i : L)
            {
                s += (G.r(i, o) - m) * (G.r(i, o) - m);
            }
        }
        return s;
    }
    /// least squares for beta * (x - t) on the list (t is never a feature value => sum z^2 > 0)
    ld rss_hinge(const std::vector<int>& L, const int f, const ld t) const
    {
        if (L.empty())
        {
            return 0;
        }
        ld s = 0;
        for (int o = 0; o < p.O; ++o)
        {
            ld zz = 0, rz = 0;
            for (const int i : L)
            {
                const ld z = static_cast<ld>(p.at(f, i).x) - t;
                zz += z * z;
                rz += G.r(i, o) * z;
            }
            const ld beta = rz / zz;
            for (const int i : L)
            {
                const ld z = static_cast<ld>(p.at(f, i).x) - t;
                s += (G.r(i, o) - beta * z) * (G.r(i, o) - beta * z);
            }
        }
        return s;
    }
    /// least squares for w * x + b on the list (needs two distinct values)
    ld rss_affine(const std::vector<int>& L, const int f) const
    {
        ld s = 0;
        for (int o = 0; o < p.O; ++o)
        {
            ld xm = 0, rm = 0;
            for (const int i : L)
            {
                xm += static_cast<ld>(p.at(f, i).x);
                rm += G.r(i, o);
            }
            xm /= static_cast<ld>(L.size());
            rm /= static_cast<ld>(L.size());
            ld sxx = 0, sxr = 0;
            for (const int i : L)
            {
                const ld dx = static_cast<ld>(p.at(f, i).x) - xm;
                sxx += dx * dx;
                sxr += dx * (G.r(i, o) - rm);
            }
            const ld w = sxr / sxx;
            const ld b = rm - w * xm;
            for (const int i : L)
            {
                const ld e = G.r(i, o) - w * static_cast<ld>(p.at(f, i).x) - b;
                s += e * e;
            }
        }
        return s;
    }

    /// minimum RSS of the learner class on feature f (INF: the class is empty on this feature)
    ld stump(const int f) const
    {
        ld          best = INF;
        const auto& pf   = plan.feats[static_cast<size_t>(f)];
        for (const auto& sp : pf.splits)
        {
            best = std::min(best, rss_mean(sp.lo) + rss_mean(sp.hi) + rss_zero(pf.missing));
        }
        return best;
    }
    ld hinge(const int f) const
    {
        ld          best = INF;
        const auto& pf   = plan.feats[static_cast<size_t>(f)];
        for (const auto& sp : pf.splits)
        {
            const ld miss = rss_zero(pf.missing);
            best          = std::min(best, rss_hinge(sp.lo, f, sp.t) + rss_zero(sp.hi) + miss); // beta * (t - x)+
            best          = std::min(best, rss_zero(sp.lo) + rss_hinge(sp.hi, f, sp.t) + miss); // beta * (x - t)+
        }
        return best;
    }
    ld affine(const int f) const
    {
        const auto& pf = plan.feats[static_cast<size_t>(f)];
        if (pf.splits.empty())
        {
            return INF; // fewer than two distinct given values: singular normal equations, no unique least-squares line
        }
        return rss_affine(pf.given, f) + rss_zero(pf.missing);
    }
    ld dense(const int f) const
    {
        const auto& pf = plan.feats[static_cast<size_t>(f)];
        ld          s  = rss_zero(pf.missing);
        for (const auto& L : pf.labels)
        {
            s += rss_mean(L);
        }
        return s;
    }
    ld dstep(const int f) const
    {
        const auto& pf   = plan.feats[static_cast<size_t>(f)];
        ld          best = INF;
        for (size_t k = 0; k < pf.labels.size(); ++k)
        {
            ld s = rss_zero(pf.missing) + rss_mean(pf.labels[k]);
            for (size_t k2 = 0; k2 < pf.labels.size(); ++k2)
            {
                if (k2 != k)
                {
                    s += rss_zero(pf.labels[k2]);
                }
            }
            best = std::min(best, s);
        }
        return best;
    }

    /// per-feature minima of the class of learner `kind` (index into specs(): 0 stump, 1 hinge, 2 affine, 3 dense
    /// table, 4 dstep table); INF where the feature is not usable
    std::vector<ld> per_feature(const int kind) const
    {
        std::vector<ld> v(static_cast<size_t>(p.F()), INF);
        for (int f = 0; f < p.F(); ++f)
        {
            auto& x = v[static_cast<size_t>(f)];
            if (p.scalar(f))
            {
                x = kind == 0 ? stump(f) : kind == 1 ? hinge(f) : kind == 2 ? affine(f) : INF;
            }
            else
            {
                x = kind == 3 ? dense(f) : kind == 4 ? dstep(f) : INF;
            }
        }
        return v;
    }
};

constexpr ld SCORE_FLOOR = 1e3L * static_cast<ld>(std::numeric_limits<double>::epsilon()); // make_score()

ld floored(const ld v)
{
    return std::max(v, SCORE_FLOOR);
}

/// the comparison of the statement: |score - best| <= 1e-9 (1 + best), the library's floor applied to both sides
bool close_score(const ld score, const ld best)
{
    const ld a = floored(score), b = floored(best);
    return std::isfinite(static_cast<double>(a)) && fabsl(a - b) <= 1e-9L * (1 + b);
}

// ---------------------------------------------------------------------------------------------
// helpers around the learners
const std::vector<std::string>& criteria()
{
    static const std::vector<std::string> c = {"rss", "aic", "aicc", "bic"};
    return c;
}

wlearner_criterion criterion_of(const std::string& name)
{
    return name == "rss" ? wlearner_criterion::rss
           : name == "aic" ? wlearner_criterion::aic
           : name == "aicc" ? wlearner_criterion::aicc
                            : wlearner_criterion::bic;
}

struct spec_t
{
    std::string name;   // our name
    bool        scalar; // needs scalar features (else categorical)
    int         depth;  // dtree max_depth (0: not a tree)
    int         kind;   // oracle class (see oracle_t::per_feature), -1: none
};

const std::vector<spec_t>& specs()
{
    static const std::vector<spec_t> s = {
        {"stump", true, 0, 0},         {"hinge", true, 0, 1},        {"affine", true, 0, 2},
        {"dense-table", false, 0, 3},  {"dstep-table", false, 0, 4}, {"kbest-table", false, 0, -1},
        {"ksplit-table", false, 0, -1}, {"dtree1", true, 1, 0},       {"dtree2", true, 2, -1},
    };
    return s;
}

rwlearner_t make_learner(const spec_t& s, const std::string& criterion)
{
    rwlearner_t w;
    if (s.name == "stump") w = std::make_unique<stump_wlearner_t>();
    else if (s.name == "hinge") w = std::make_unique<hinge_wlearner_t>();
    else if (s.name == "affine") w = std::make_unique<affine_wlearner_t>();
    else if (s.name == "dense-table") w = std::make_unique<dense_table_wlearner_t>();
    else if (s.name == "dstep-table") w = std::make_unique<dstep_table_wlearner_t>();
    else if (s.name == "kbest-table") w = std::make_unique<kbest_table_wlearner_t>();
    else if (s.name == "ksplit-table") w = std::make_unique<ksplit_table_wlearner_t>();
    else
    {
        w                                            = std::make_unique<dtree_wlearner_t>();
        w->parameter("wlearner::dtree::max_depth") = s.depth;
    }
    w->parameter("wlearner::criterion") = criterion_of(criterion);
    return w;
}

bool applicable(const spec_t& s, const problem_t& p)
{
    for (int f = 0; f < p.F(); ++f)
    {
        if (p.scalar(f) == s.scalar)
        {
            return true;
        }
    }
    return false;
}

/// predictions as plain rows [k][o]
using rows_t = std::vector<std::vector<double>>;

rows_t to_rows(const tensor4d_t& t)
{
    rows_t r(static_cast<size_t>(t.size<0>()), std::vector<double>(static_cast<size_t>(t.size<1>())));
    for (tensor_size_t i = 0; i < t.size<0>(); ++i)
    {
        for (tensor_size_t o = 0; o < t.size<1>(); ++o)
        {
            r[static_cast<size_t>(i)][static_cast<size_t>(o)] = t(i, o, 0, 0);
        }
    }
    return r;
}

rows_t predict_rows(const wlearner_t& w, const dataset_t& ds, const indices_t& idx)
{
    return to_rows(w.predict(ds, idx));
}

std::string show_rows(const rows_t& r)
{
    return jarr(r.begin(), r.end(), [](const std::vector<double>& v) { return jarr_num(v); });
}

bool same_rows(const rows_t& a, const rows_t& b, const double tol = 1e-12)
{
    if (a.size() != b.size())
    {
        return false;
    }
    for (size_t i = 0; i < a.size(); ++i)
    {
        if (a[i].size() != b[i].size())
        {
            return false;
        }
        for (size_t o = 0; o < a[i].size(); ++o)
        {
            if (!(std::fabs(a[i][o] - b[i][o]) <= tol * (1.0 + std::fabs(a[i][o]) + std::fabs(b[i][o]))))
            {
                return false;
            }
        }
    }
    return true;
}

bool all_zero(const std::vector<double>& v)
{
    return std::all_of(v.begin(), v.end(), [](const double x) { return x == 0.0; });
}

std::vector<double> table_row(const tensor4d_t& tables, const tensor_size_t g)
{
    std::vector<double> v(static_cast<size_t>(tables.size<1>()));
    for (tensor_size_t o = 0; o < tables.size<1>(); ++o)
    {
        v[static_cast<size_t>(o)] = tables(g, o, 0, 0);
    }
    return v;
}

std::string case_json(const problem_t& p, const gradients_t& G, const std::vector<int>& S, const std::string& learner,
                      const std::string& criterion)
{
    return jobj({{"dataset", show_problem(p)},
                 {"gradients[sample][output]", G.show()},
                 {"samples", jarr_num(S)},
                 {"learner", jstr(learner)},
                 {"criterion", jstr(criterion)}});
}

std::string merge_json(const std::string& a, const std::string& b)
{
    return a.substr(0, a.size() - 1) + "," + b.substr(1);
}

/// run the call in a forked child and report whether it died from a signal (used only where the table says that
/// the code under test is about to index an empty container; everything else runs in-process)
template <class tcall>
bool dies(const tcall& call)
{
    std::fflush(stdout);
    std::fflush(stderr);
    const pid_t pid = fork();
    if (pid < 0)
    {
        std::fprintf(stderr, "fork failed\n");
        std::exit(2);
    }
    if (pid == 0)
    {
        const rlimit none{0, 0};
        setrlimit(RLIMIT_CORE, &none);
        try
        {
            call();
        }
        catch (...)
        {
        }
        _exit(0);
    }
    int status = 0;
    waitpid(pid, &status, 0);
    return WIFSIGNALED(status);
}

/// some categorical feature has no given value among the listed samples
bool has_empty_categorical(const problem_t& p, const std::vector<int>& S)
{
    for (int f = 0; f < p.F(); ++f)
    {
        if (!p.scalar(f) && std::none_of(S.begin(), S.end(), [&](const int i) { return p.at(f, i).given; }))
        {
            return true;
        }
    }
    return false;
}

/// the bound on the number of samples per (number of features, outputs); schema "x4" may go further with one output
struct tiers_t
{
    int n1[2] = {4, 4}; // one feature: [one output, two outputs]
    int n2[2] = {3, 3}; // two features
    int nx    = 0;      // schema "x4", one output
    int full2 = 3;      // two outputs: complete gradient enumeration up to this n, thinned above

    int nmax(const schema_t& s, const int O) const
    {
        const int base = (s.feats.size() == 1 ? n1 : n2)[O - 1];
        return std::min(s.ncap, (O == 1 && s.name == "x4") ? std::max(base, nx) : base);
    }
    std::string json() const
    {
        return "{\"one feature\":{\"one output\":\"2.." + std::to_string(n1[0]) + "\",\"two outputs\":\"2.." +
               std::to_string(n1[1]) + "\"},\"two features\":{\"one output\":\"2.." + std::to_string(n2[0]) +
               "\",\"two outputs\":\"2.." + std::to_string(n2[1]) + "\"},\"schema x, one output\":\"2.." +
               std::to_string(std::max(nx, n1[0])) + "\"}";
    }
};

// =============================================================================================
// stage "optimal"
void stage_optimal(report_t& r, const args_t& args)
{
    tiers_t T;
    T.n1[0] = static_cast<int>(args.geti("n1-o1", args.thorough() ? 6 : 4));
    T.n1[1] = static_cast<int>(args.geti("n1-o2", args.thorough() ? 5 : 4));
    T.n2[0] = static_cast<int>(args.geti("n2-o1", args.thorough() ? 4 : 3));
    T.n2[1] = static_cast<int>(args.geti("n2-o2", 3));
    T.full2 = static_cast<int>(args.geti("full2", args.thorough() ? 3 : 2));

    r.axis("schema", "{\"size\":9,\"alphabet\":[\"x\",\"c2\",\"c3\",\"m2\",\"x+c2\",\"x+x\",\"c2+m2\",\"c2+c2\",\"x4\"],\"legend\":"
                     "\"x scalar over {0,1,2,missing}; c2/c3 single-label over {0,1[,2],missing}; m2 multi-label over "
                     "{00,10,01,11,missing}; x4 scalar over {0,1,2,3,missing}\"}");
    r.axis("n", T.json());
    r.axis("outputs", "{\"size\":2,\"alphabet\":[1,2]}");
    r.axis("gradient", "{\"alphabet\":[0,-1,2],\"rule\":\"all 3^n per output; two outputs: all 9^n for n<=" +
                           std::to_string(T.full2) +
                           ", above: output 0 over all 3^n x output 1 in {rotated alphabet, reversed order, fixed "
                           "alternating pattern}\"}");
    r.axis("samples", "{\"size\":4,\"alphabet\":[\"all\",\"all-but-last\",\"(0,0,1)\",\"(n-1,...,1,0,0)\"]}");
    r.axis("learner", "{\"size\":5,\"alphabet\":[\"stump\",\"hinge\",\"affine\",\"dense-table\",\"dstep-table\"]}");
    r.axis("criterion", "{\"size\":1,\"alphabet\":[\"rss\"]}");
    r.assume("affine: a feature with fewer than two distinct given values among the fitted samples has singular "
             "normal equations and is not part of the class (no unique least-squares line)");
    r.assume("dense table on a feature with no given value among the fitted samples: the class is the zero predictor");

    uint64_t datasets = 0;
    for (const auto& s : schemas())
    {
        for (int n = 2; n <= T.nmax(s, 1); ++n)
        {
            for (int O = 1; O <= 2; ++O)
            {
                if (n > T.nmax(s, O))
                {
                    continue;
                }
                const auto lat = make_lattice(s, n);
                const auto tag = s.name + "/n" + std::to_string(n) + "/o" + std::to_string(O);
                datasets += lat.size();
                const auto ngrad = gradient_count(n, O, T.full2);

                std::vector<std::vector<int>> lists;
                lists.push_back(iota_list(n));
                lists.push_back(iota_list(n - 1));
                lists.push_back({0, 0, 1});
                {
                    std::vector<int> rev;
                    for (int i = n; i-- > 0;)
                    {
                        rev.push_back(i);
                    }
                    rev.push_back(0);
                    lists.push_back(rev);
                }
                std::vector<indices_t> idxs;
                for (const auto& L : lists)
                {
                    idxs.push_back(make_indices(L));
                }

                for_each_case(
                    lat, r, tag,
                    [&](const uint64_t index, const std::vector<uint64_t>& d)
                    {
                        const auto p    = make_problem(s, n, O, d);
                        const auto one  = tag + ":" + std::to_string(index);
                        const auto b    = build(p, 1);
                        const auto& ds  = *b.dataset;
                        if (!dataset_as_expected(p, b))
                        {
                            std::fprintf(stderr, "harness set-up: dataset differs from the table (%s)\n", one.c_str());
                            std::exit(2);
                        }
                        std::vector<std::pair<const spec_t*, rwlearner_t>> learners;
                        for (size_t k = 0; k < 5; ++k)
                        {
                            if (applicable(specs()[k], p))
                            {
                                learners.emplace_back(&specs()[k], make_learner(specs()[k], "rss"));
                            }
                        }
                        // dstep on a categorical feature without a given value among the listed samples: probed in a
                        // child process once per (dataset, list); if the child dies the fit is not repeated in-process
                        std::vector<bool> dstep_dies(lists.size(), false);
                        for (size_t li = 0; li < lists.size(); ++li)
                        {
                            if (has_empty_categorical(p, lists[li]))
                            {
                                const auto G  = make_gradients(n, O, T.full2, ngrad - 1);
                                const auto GT = G.tensor();
                                dstep_dies[li] = dies([&]() { make_learner(specs()[4], "rss")->fit(ds, idxs[li], GT); });
                                if (dstep_dies[li])
                                {
                                    r.violation("optimal/dstep-table/crash_on_feature_without_given_values", one,
                                                merge_json(case_json(p, G, lists[li], "dstep-table", "rss"),
                                                           jobj({{"expected", jstr("a score (no_fit_score if no label is observed at all)")},
                                                                 {"observed", jstr("fit() dies from a signal (child process)")}})));
                                }
                            }
                        }
                        std::vector<plan_t> plans;
                        for (const auto& L : lists)
                        {
                            plans.emplace_back(p, L);
                        }
                        for (uint64_t gi = 0; gi < ngrad; ++gi)
                        {
                            const auto G  = make_gradients(n, O, T.full2, gi);
                            const auto GT = G.tensor();
                            for (size_t li = 0; li < lists.size(); ++li)
                            {
                                const auto&    S = lists[li];
                                const oracle_t oracle{p, plans[li], G};
                                const ld       zero = oracle.rss_zero(S);
                                for (auto& [spec, w] : learners)
                                {
                                    r.evaluations += 1;
                                    if (dstep_dies[li] && spec->name == "dstep-table")
                                    {
                                        r.outcome("dstep-table:crash(feature without given values)");
                                        continue;
                                    }
                                    const auto  pf   = oracle.per_feature(spec->kind);
                                    const ld    best = *std::min_element(pf.begin(), pf.end());
                                    const auto  what = [&]() { return case_json(p, G, S, spec->name, "rss"); };
                                    double      score = 0;
                                    try
                                    {
                                        score = w->fit(ds, idxs[li], GT);
                                    }
                                    catch (const std::exception& e)
                                    {
                                        r.violation("optimal/" + spec->name + "/fit_throws", one,
                                                    merge_json(what(), jobj({{"what", jstr(e.what())}})));
                                        continue;
                                    }
                                    if (score == wlearner_t::no_fit_score())
                                    {
                                        if (best != INF)
                                        {
                                            r.violation("optimal/" + spec->name + "/no_fit_but_class_not_empty", one,
                                                        merge_json(what(), jobj({{"expected_min_rss", jnum(static_cast<double>(best))},
                                                                                 {"observed", jstr("no_fit_score")}})));
                                        }
                                        r.outcome(spec->name + ":no_fit(class empty)");
                                        continue;
                                    }
                                    if (best == INF)
                                    {
                                        r.violation("optimal/" + spec->name + "/fit_but_class_empty", one,
                                                    merge_json(what(), jobj({{"expected", jstr("no_fit_score")},
                                                                             {"observed_score", jnum(score)}})));
                                        continue;
                                    }
                                    if (!close_score(score, best))
                                    {
                                        const auto key = floored(score) > floored(best) ? "/score_above_class_minimum"
                                                                                        : "/score_below_class_minimum";
                                        r.violation("optimal/" + spec->name + key, one,
                                                    merge_json(what(), jobj({{"expected_min_rss", jnum(static_cast<double>(best))},
                                                                             {"observed_score", jnum(score)}})));
                                    }
                                    // the fitted learner reproduces its score
                                    const auto P   = predict_rows(*w, ds, idxs[li]);
                                    ld         rss = 0;
                                    for (size_t k = 0; k < S.size(); ++k)
                                    {
                                        for (int o = 0; o < O; ++o)
                                        {
                                            const ld e = G.r(S[k], o) - static_cast<ld>(P[k][static_cast<size_t>(o)]);
                                            rss += e * e;
                                        }
                                    }
                                    if (!close_score(rss, score))
                                    {
                                        r.violation("optimal/" + spec->name + "/predictions_do_not_reproduce_score", one,
                                                    merge_json(what(), jobj({{"reported_score", jnum(score)},
                                                                             {"rss_of_predictions", jnum(static_cast<double>(rss))},
                                                                             {"predictions", show_rows(P)}})));
                                    }
                                    const bool gain = floored(best) < zero - 1e-12L;
                                    r.outcome(spec->name + (gain ? ":fit_reduces_rss" : ":fit_no_gain"));
                                    if (gain)
                                    {
                                        ++r.nontrivial;
                                    }
                                    if ((r.evaluations % 200003) == 0)
                                    {
                                        r.sample(merge_json(what(), jobj({{"score", jnum(score)},
                                                                          {"oracle_min_rss", jnum(static_cast<double>(best))}})));
                                    }
                                }
                            }
                        }
                    });
            }
        }
    }
    r.note("datasets", jint(datasets));
}

// =============================================================================================
// stage "consistency"
struct fitted_t
{
    const spec_t* spec = nullptr;
    wlearner_t*   w     = nullptr; // owned by the per-case pool (a fit overwrites every fitted parameter)
    double        score = 0;
    bool          ok    = false;
};

void stage_consistency(report_t& r, const args_t& args)
{
    tiers_t T;
    T.n1[0] = static_cast<int>(args.geti("n1-o1", args.thorough() ? 4 : 3));
    T.n1[1] = static_cast<int>(args.geti("n1-o2", args.thorough() ? 4 : 3));
    T.n2[0] = static_cast<int>(args.geti("n2-o1", 3));
    T.n2[1] = static_cast<int>(args.geti("n2-o2", 2));
    T.nx    = static_cast<int>(args.geti("nx-o1", 4)); // trees of depth 2 need >= 4 samples with 4 distinct values
    T.full2 = static_cast<int>(args.geti("full2", 0));
    // two features, n >= this: only the criteria rss and aicc (the default)
    const int crit2_n = static_cast<int>(args.geti("crit2-n", args.thorough() ? 99 : 3));
    const std::vector<size_t> threads = {2, 16};
    const int threads_nmax = static_cast<int>(args.geti("threads-nmax", args.thorough() ? 3 : 2));

    r.axis("schema", "{\"size\":9,\"alphabet\":[\"x\",\"c2\",\"c3\",\"m2\",\"x+c2\",\"x+x\",\"c2+m2\",\"c2+c2\",\"x4\"],\"legend\":"
                     "\"as in stage optimal; x4 = scalar over {0,1,2,3,missing} so that trees of depth 2 can fit\"}");
    r.axis("n", T.json());
    r.axis("outputs", "{\"size\":2,\"alphabet\":[1,2]}");
    r.axis("gradient", "{\"alphabet\":[0,-1,2],\"rule\":\"one output: all 3^n; two outputs: output 0 over all 3^n x output 1 in "
                       "{rotated alphabet, reversed order, fixed alternating pattern}\"}");
    r.axis("fit samples", "{\"size\":2,\"alphabet\":[\"all\",\"all-but-last\"]}");
    r.axis("criterion", "{\"size\":4,\"alphabet\":[\"rss\",\"aic\",\"aicc\",\"bic\"]" +
                            (crit2_n < 99 ? ",\"note\":\"two features and n>=" + std::to_string(crit2_n) + ": rss and aicc only\"" : std::string()) + "}");
    r.axis("learner", "{\"size\":9,\"alphabet\":[\"stump\",\"hinge\",\"affine\",\"dense-table\",\"dstep-table\","
                      "\"kbest-table\",\"ksplit-table\",\"dtree(max_depth=1)\",\"dtree(max_depth=2)\"]}");
    r.axis("threads", "{\"size\":3,\"alphabet\":[1,2,16],\"note\":\"2 and 16 on the schemas with two features of the same "
                      "kind (x+x, c2+c2; one feature of a kind is looped inline whatever the pool size), one output, fit list 'all', n<=" +
                          std::to_string(threads_nmax) + "\"}");
    r.assume("threads: the selected feature is compared only for criterion rss, the five learners with an oracle (and "
             "the depth-1 tree) and a unique best feature; with tied features any of them is a correct answer; "
             "trees of depth 2 are excluded from the thread comparison (a tie at the root legitimately changes the "
             "children)");
    r.assume("scale per group is exercised where the number of tables equals the number of split groups (stump, "
             "tables, trees); affine and hinge have one group and are scaled by a single factor");

    for (const auto& s : schemas())
    {
        for (int n = 2; n <= T.nmax(s, 1); ++n)
        {
            for (int O = 1; O <= 2; ++O)
            {
                if (n > T.nmax(s, O))
                {
                    continue;
                }
                const auto lat   = make_lattice(s, n);
                const auto tag   = s.name + "/n" + std::to_string(n) + "/o" + std::to_string(O);
                const auto ngrad = gradient_count(n, O, T.full2);

                const auto all  = iota_list(n);
                const auto iall = make_indices(all);
                std::vector<std::vector<int>> fits = {all, iota_list(n - 1)};
                std::vector<int> perm; // reversed with the first sample repeated
                for (int i = n; i-- > 0;)
                {
                    perm.push_back(i);
                }
                perm.push_back(0);
                const auto iperm = make_indices(perm);
                const auto isub  = make_indices({n - 1}); // split() of a sub-list

                for_each_case(
                    lat, r, tag,
                    [&](const uint64_t index, const std::vector<uint64_t>& d)
                    {
                        const auto p   = make_problem(s, n, O, d);
                        const auto one = tag + ":" + std::to_string(index);
                        const auto b1  = build(p, 1);
                        const auto& ds = *b1.dataset;
                        if (!dataset_as_expected(p, b1))
                        {
                            std::fprintf(stderr, "harness set-up: dataset differs from the table (%s)\n", one.c_str());
                            std::exit(2);
                        }
                        std::map<std::string, std::vector<rwlearner_t>> pool; // learners: A, B, one per thread count
                        std::vector<built_t> bT;
                        if (O == 1 && n <= threads_nmax && p.F() > 1 && p.schema->feats[0] == p.schema->feats[1])
                        {
                            for (const auto t : threads)
                            {
                                bT.push_back(build(p, t));
                                if (bT.back().dataset->concurrency() != t)
                                {
                                    std::fprintf(stderr, "harness set-up: thread count not honoured\n");
                                    std::exit(2);
                                }
                            }
                        }

                        std::vector<bool> dstep_dies(fits.size(), false);
                        for (size_t li = 0; li < fits.size(); ++li)
                        {
                            if (has_empty_categorical(p, fits[li]))
                            {
                                const auto G   = make_gradients(n, O, T.full2, ngrad - 1);
                                const auto GT  = G.tensor();
                                const auto idx = make_indices(fits[li]);
                                dstep_dies[li] = dies([&]() { make_learner(specs()[4], "rss")->fit(ds, idx, GT); });
                                if (dstep_dies[li])
                                {
                                    r.violation("consistency/dstep-table/crash_on_feature_without_given_values", one,
                                                merge_json(case_json(p, G, fits[li], "dstep-table", "rss"),
                                                           jobj({{"observed", jstr("fit() dies from a signal (child process)")}})));
                                }
                            }
                        }
                        for (uint64_t gi = 0; gi < ngrad; ++gi)
                        {
                            const auto G   = make_gradients(n, O, T.full2, gi);
                            const auto GT  = G.tensor();
                            const auto G2  = G.rotated();
                            const auto GT2 = G2.tensor();
                            const auto GT3 = G.reversed().tensor();
                            for (const auto& crit : criteria())
                            {
                                if (p.F() == 2 && n >= crit2_n && crit != "rss" && crit != "aicc")
                                {
                                    continue;
                                }
                                for (size_t li = 0; li < fits.size(); ++li)
                                {
                                    const auto& S   = fits[li];
                                    const auto  idx = make_indices(S);
                                    std::vector<fitted_t> fitted;  // on G
                                    std::vector<fitted_t> fitted2; // on the rotated gradients (merge partners)
                                    rwlearners_t          mixed;
                                    rows_t                mixed_sum(static_cast<size_t>(n), std::vector<double>(static_cast<size_t>(O), 0.0));

                                    for (const auto& spec : specs())
                                    {
                                        if (!applicable(spec, p))
                                        {
                                            continue;
                                        }
                                        r.evaluations += 1;
                                        if (dstep_dies[li] && spec.name == "dstep-table")
                                        {
                                            r.outcome("dstep-table:crash(feature without given values)");
                                            continue;
                                        }
                                        const auto what = [&]() { return case_json(p, G, S, spec.name, crit); };
                                        const auto bad  = [&](const std::string& key, const std::string& detail)
                                        { r.violation("consistency/" + spec.name + "/" + key, one, merge_json(what(), detail)); };

                                        fitted_t A, B, C; // C, B: merge partners fitted on other gradient tensors
                                        A.spec = B.spec = C.spec = &spec;
                                        auto& mine      = pool[crit + "/" + spec.name];
                                        if (mine.empty())
                                        {
                                            for (int k = 0; k < 5; ++k)
                                            {
                                                mine.push_back(make_learner(spec, crit));
                                            }
                                        }
                                        A.w = mine[0].get();
                                        B.w = mine[1].get();
                                        C.w = mine[4].get();
                                        try
                                        {
                                            A.score = A.w->fit(ds, idx, GT);
                                            B.score = B.w->fit(ds, idx, GT2);
                                            C.score = C.w->fit(ds, idx, GT3);
                                        }
                                        catch (const std::exception& e)
                                        {
                                            bad("fit_throws", jobj({{"what", jstr(e.what())}}));
                                            continue;
                                        }
                                        A.ok = A.score != wlearner_t::no_fit_score();
                                        B.ok = B.score != wlearner_t::no_fit_score();
                                        C.ok = C.score != wlearner_t::no_fit_score();

                                        // ---- threads: same score (and the same feature when it is the unique optimum)
                                        if (!bT.empty() && li == 0 && spec.depth != 2)
                                        {
                                            for (size_t it = 0; it < bT.size(); ++it)
                                            {
                                                auto*        wt = mine[2 + it].get();
                                                const double st = wt->fit(*bT[it].dataset, idx, GT);
                                                const bool   same =
                                                    (st == A.score) || (std::isfinite(st) && std::isfinite(A.score) &&
                                                                        std::fabs(st - A.score) <= 1e-12 * (1 + std::fabs(A.score)));
                                                if (!same)
                                                {
                                                    bad("score_depends_on_threads",
                                                        jobj({{"threads", jint(threads[it])},
                                                              {"score_1_thread", jnum(A.score)},
                                                              {"score", jnum(st)}}));
                                                }
                                                else if (A.ok && crit == "rss" && spec.kind >= 0)
                                                {
                                                    const plan_t   plan(p, S);
                                                    const oracle_t oracle{p, plan, G};
                                                    const auto     pf = oracle.per_feature(spec.kind);
                                                    std::vector<ld> fl;
                                                    for (const auto v : pf)
                                                    {
                                                        fl.push_back(v == INF ? INF : floored(v));
                                                    }
                                                    const auto ibest = std::min_element(fl.begin(), fl.end()) - fl.begin();
                                                    bool       unique = fl[static_cast<size_t>(ibest)] != INF;
                                                    for (size_t f = 0; f < fl.size(); ++f)
                                                    {
                                                        if (static_cast<long>(f) != ibest &&
                                                            !(fl[f] > fl[static_cast<size_t>(ibest)] + 1e-9L * (1 + fl[static_cast<size_t>(ibest)])))
                                                        {
                                                            unique = false;
                                                        }
                                                    }
                                                    if (unique)
                                                    {
                                                        const auto f1 = A.w->features();
                                                        const auto ft = wt->features();
                                                        if (f1.size() != 1 || ft.size() != 1 || b1.col(f1(0)) != ibest || bT[it].col(ft(0)) != ibest)
                                                        {
                                                            bad("feature_depends_on_threads",
                                                                jobj({{"threads", jint(threads[it])},
                                                                      {"unique_best_feature", jint(ibest)},
                                                                      {"feature_1_thread", jint(f1.size() ? b1.col(f1(0)) : -1)},
                                                                      {"feature", jint(ft.size() ? bT[it].col(ft(0)) : -1)}}));
                                                        }
                                                        r.outcome("threads:unique_best_feature_compared");
                                                    }
                                                    else
                                                    {
                                                        r.outcome("threads:tied_features(score only)");
                                                    }
                                                }
                                            }
                                        }

                                        if (!A.ok)
                                        {
                                            r.outcome(spec.name + ":no_fit");
                                            fitted.push_back(std::move(A));
                                            fitted2.push_back(std::move(B));
                                            continue;
                                        }

                                        try
                                        {
                                            const auto& w  = *A.w;
                                            const auto  P0 = predict_rows(w, ds, iall);

                                            // ---- predict ADDS to the given outputs (two different pre-fills)
                                            for (int fill = 0; fill < 2; ++fill)
                                            {
                                                tensor4d_t buf(make_dims(n, O, 1, 1));
                                                for (int i = 0; i < n; ++i)
                                                {
                                                    for (int o = 0; o < O; ++o)
                                                    {
                                                        buf(i, o, 0, 0) = fill == 0 ? 0.5 : (0.25 * i - 1.0 + 3.0 * o);
                                                    }
                                                }
                                                const auto before = to_rows(buf);
                                                w.predict(ds, iall, buf);
                                                auto after = to_rows(buf);
                                                for (size_t i = 0; i < after.size(); ++i)
                                                {
                                                    for (size_t o = 0; o < after[i].size(); ++o)
                                                    {
                                                        after[i][o] -= before[i][o];
                                                    }
                                                }
                                                if (!same_rows(after, P0, 1e-12 * 8))
                                                {
                                                    bad("predict_does_not_add",
                                                        jobj({{"prefill", show_rows(before)},
                                                              {"increment", show_rows(after)},
                                                              {"prediction_on_zero", show_rows(P0)}}));
                                                }
                                            }

                                            // ---- zero where the selected feature is missing
                                            const auto feats = w.features();
                                            for (int i = 0; i < n; ++i)
                                            {
                                                bool all_missing = feats.size() > 0;
                                                for (tensor_size_t k = 0; k < feats.size(); ++k)
                                                {
                                                    if (b1.col(feats(k)) < 0 || p.at(b1.col(feats(k)), i).given)
                                                    {
                                                        all_missing = false;
                                                    }
                                                }
                                                if (all_missing && !all_zero(P0[static_cast<size_t>(i)]))
                                                {
                                                    bad("nonzero_prediction_for_missing_feature",
                                                        jobj({{"sample", jint(i)}, {"predictions", show_rows(P0)}}));
                                                }
                                            }
                                            if (spec.depth > 0)
                                            {
                                                const auto& tree = dynamic_cast<const dtree_wlearner_t&>(w);
                                                const auto  root = tree.nodes().empty() ? -1 : b1.col(tree.nodes()[0].m_feature);
                                                for (int i = 0; i < n && root >= 0; ++i)
                                                {
                                                    if (!p.at(root, i).given && !all_zero(P0[static_cast<size_t>(i)]))
                                                    {
                                                        bad("nonzero_prediction_for_missing_feature",
                                                            jobj({{"sample", jint(i)}, {"root_feature", jint(root)},
                                                                  {"predictions", show_rows(P0)}}));
                                                    }
                                                }
                                            }

                                            // ---- depends only on the sample
                                            {
                                                const auto Pp = predict_rows(w, ds, iperm);
                                                rows_t     expect;
                                                for (const int i : perm)
                                                {
                                                    expect.push_back(P0[static_cast<size_t>(i)]);
                                                }
                                                if (!same_rows(Pp, expect, 0.0))
                                                {
                                                    bad("prediction_depends_on_list_position",
                                                        jobj({{"list", jarr_num(perm)}, {"observed", show_rows(Pp)},
                                                              {"expected", show_rows(expect)}}));
                                                }
                                            }

                                            // ---- equals the table of the group reported by split()
                                            const auto cluster = w.split(ds, iall);
                                            const tensor4d_t* tables = nullptr;
                                            if (spec.depth > 0)
                                            {
                                                tables = &dynamic_cast<const dtree_wlearner_t&>(w).tables();
                                            }
                                            else
                                            {
                                                tables = &dynamic_cast<const single_feature_wlearner_t&>(w).tables();
                                            }
                                            const bool linear = spec.name == "affine" || spec.name == "hinge";
                                            if (cluster.samples() != n)
                                            {
                                                bad("split_wrong_size", jobj({{"samples", jint(cluster.samples())}}));
                                            }
                                            else
                                            {
                                                for (int i = 0; i < n; ++i)
                                                {
                                                    const auto          g = cluster.group(i);
                                                    std::vector<double> expect(static_cast<size_t>(O), 0.0);
                                                    bool                valid = true;
                                                    if (g >= 0 && !linear)
                                                    {
                                                        valid = g < tables->size<0>();
                                                        if (valid)
                                                        {
                                                            expect = table_row(*tables, g);
                                                        }
                                                    }
                                                    else if (g >= 0)
                                                    {
                                                        const auto f = b1.col(feats(0));
                                                        valid        = g == 0 && f >= 0 && p.at(f, i).given;
                                                        for (int o = 0; o < O && valid; ++o)
                                                        {
                                                            expect[static_cast<size_t>(o)] =
                                                                (*tables)(0, o, 0, 0) * p.at(f, i).x + (*tables)(1, o, 0, 0);
                                                        }
                                                    }
                                                    if (!valid || !same_rows({P0[static_cast<size_t>(i)]}, {expect}, 1e-14))
                                                    {
                                                        bad("prediction_differs_from_split_group_table",
                                                            jobj({{"sample", jint(i)}, {"group", jint(g)},
                                                                  {"expected", jarr_num(expect)},
                                                                  {"predictions", show_rows(P0)}}));
                                                    }
                                                }
                                                // split() of a sub-list assigns only the listed samples, to the same groups
                                                const auto sub = w.split(ds, isub);
                                                for (int i = 0; i < n && sub.samples() == n; ++i)
                                                {
                                                    const auto expect = i == n - 1 ? cluster.group(i) : tensor_size_t{-1};
                                                    if (sub.group(i) != expect)
                                                    {
                                                        bad("split_of_sublist_differs",
                                                            jobj({{"sample", jint(i)}, {"group", jint(sub.group(i))},
                                                                  {"expected", jint(expect)}}));
                                                    }
                                                }
                                            }

                                            // ---- scale
                                            {
                                                auto c = w.clone();
                                                c->scale(make_full_vector<scalar_t>(1, 0.5));
                                                const auto Ps = predict_rows(*c, ds, iall);
                                                rows_t     expect = P0;
                                                for (auto& row : expect)
                                                {
                                                    for (auto& v : row)
                                                    {
                                                        v *= 0.5;
                                                    }
                                                }
                                                if (!same_rows(Ps, expect, 1e-14))
                                                {
                                                    bad("scale_by_one_factor", jobj({{"factor", jnum(0.5)}, {"observed", show_rows(Ps)},
                                                                                     {"expected", show_rows(expect)}}));
                                                }
                                            }
                                            if (!linear && tables->size<0>() > 0 && cluster.samples() == n)
                                            {
                                                auto     c = w.clone();
                                                vector_t sc(tables->size<0>());
                                                for (tensor_size_t g = 0; g < sc.size(); ++g)
                                                {
                                                    sc(g) = g % 3 == 0 ? 0.5 : g % 3 == 1 ? 3.0 : 0.0;
                                                }
                                                c->scale(sc);
                                                const auto Ps = predict_rows(*c, ds, iall);
                                                rows_t     expect = P0;
                                                for (int i = 0; i < n; ++i)
                                                {
                                                    const auto g = cluster.group(i);
                                                    for (auto& v : expect[static_cast<size_t>(i)])
                                                    {
                                                        v *= (g >= 0 && g < sc.size()) ? sc(g) : 1.0;
                                                    }
                                                }
                                                if (!same_rows(Ps, expect, 1e-14))
                                                {
                                                    bad("scale_per_group", jobj({{"observed", show_rows(Ps)},
                                                                                 {"expected", show_rows(expect)}}));
                                                }
                                            }

                                            // ---- merge [A, B, C, A] (B: rotated gradient alphabet, C: gradients in reversed sample order): the sum stays
                                            {
                                                rwlearners_t list;
                                                list.emplace_back(w.clone());
                                                if (B.ok)
                                                {
                                                    list.emplace_back(B.w->clone());
                                                }
                                                if (C.ok)
                                                {
                                                    list.emplace_back(C.w->clone());
                                                }
                                                list.emplace_back(w.clone());
                                                rows_t sum(static_cast<size_t>(n), std::vector<double>(static_cast<size_t>(O), 0.0));
                                                for (const auto& l : list)
                                                {
                                                    const auto P = predict_rows(*l, ds, iall);
                                                    for (size_t i = 0; i < P.size(); ++i)
                                                    {
                                                        for (size_t o = 0; o < P[i].size(); ++o)
                                                        {
                                                            sum[i][o] += P[i][o];
                                                        }
                                                    }
                                                }
                                                const auto before = list.size();
                                                ::nano::wlearner::merge(list);
                                                rows_t sum2(static_cast<size_t>(n), std::vector<double>(static_cast<size_t>(O), 0.0));
                                                for (const auto& l : list)
                                                {
                                                    const auto P = predict_rows(*l, ds, iall);
                                                    for (size_t i = 0; i < P.size(); ++i)
                                                    {
                                                        for (size_t o = 0; o < P[i].size(); ++o)
                                                        {
                                                            sum2[i][o] += P[i][o];
                                                        }
                                                    }
                                                }
                                                if (!same_rows(sum2, sum, 1e-12))
                                                {
                                                    bad("merge_changes_sum", jobj({{"learners_before", jint(before)},
                                                                                   {"learners_after", jint(list.size())},
                                                                                   {"sum_before", show_rows(sum)},
                                                                                   {"sum_after", show_rows(sum2)}}));
                                                }
                                                r.outcome(list.size() < before ? "merge:merged" : "merge:kept");
                                            }

                                            // for the mixed merge below
                                            mixed.emplace_back(w.clone());
                                            if (B.ok)
                                            {
                                                mixed.emplace_back(B.w->clone());
                                            }
                                            if (C.ok)
                                            {
                                                mixed.emplace_back(C.w->clone());
                                            }

                                            bool nonzero = false;
                                            for (const auto& row : P0)
                                            {
                                                nonzero = nonzero || !all_zero(row);
                                            }
                                            r.outcome(spec.name + (nonzero ? ":fit_nonzero" : ":fit_zero_predictions"));
                                            if (nonzero)
                                            {
                                                ++r.nontrivial;
                                            }
                                            if ((r.evaluations % 100003) == 0)
                                            {
                                                r.sample(merge_json(what(), jobj({{"score", jnum(A.score)}, {"predictions", show_rows(P0)}})));
                                            }
                                        }
                                        catch (const std::exception& e)
                                        {
                                            bad("throws", jobj({{"what", jstr(e.what())}}));
                                        }
                                        fitted.push_back(std::move(A));
                                        fitted2.push_back(std::move(B));
                                    }

                                    // ---- a tree of depth 1 equals a stump
                                    const fitted_t* stump = nullptr;
                                    const fitted_t* tree1 = nullptr;
                                    for (const auto& f : fitted)
                                    {
                                        stump = f.spec->name == "stump" ? &f : stump;
                                        tree1 = f.spec->name == "dtree1" ? &f : tree1;
                                    }
                                    if (stump != nullptr && tree1 != nullptr)
                                    {
                                        const auto what = case_json(p, G, S, "dtree1 vs stump", crit);
                                        if (stump->ok != tree1->ok)
                                        {
                                            r.violation("consistency/dtree1/fits_iff_stump_fits", one,
                                                        merge_json(what, jobj({{"stump_score", jnum(stump->score)},
                                                                               {"tree_score", jnum(tree1->score)}})));
                                        }
                                        else if (stump->ok)
                                        {
                                            const auto& st = dynamic_cast<const stump_wlearner_t&>(*stump->w);
                                            const auto& tr = dynamic_cast<const dtree_wlearner_t&>(*tree1->w);
                                            bool        eq = tr.nodes().size() == 2 && tr.tables().dims() == st.tables().dims() &&
                                                      tr.features().size() == 1 && tr.features()(0) == st.feature() &&
                                                      std::fabs(stump->score - tree1->score) <= 1e-12 * (1 + std::fabs(stump->score));
                                            for (size_t k = 0; eq && k < 2; ++k)
                                            {
                                                const auto& node = tr.nodes()[k];
                                                eq = node.m_feature == st.feature() && node.m_threshold == st.threshold() &&
                                                     node.m_table == static_cast<tensor_size_t>(k) && node.m_next == 0U;
                                            }
                                            for (tensor_size_t k = 0; eq && k < st.tables().size(); ++k)
                                            {
                                                eq = tr.tables()(k) == st.tables()(k);
                                            }
                                            eq = eq && same_rows(predict_rows(tr, ds, iall), predict_rows(st, ds, iall), 0.0);
                                            if (!eq)
                                            {
                                                r.violation("consistency/dtree1/differs_from_stump", one,
                                                            merge_json(what, jobj({{"stump_score", jnum(stump->score)},
                                                                                   {"tree_score", jnum(tree1->score)},
                                                                                   {"stump_feature", jint(st.feature())},
                                                                                   {"stump_threshold", jnum(st.threshold())},
                                                                                   {"tree_nodes", jint(tr.nodes().size())}})));
                                            }
                                            r.outcome("dtree1:compared_with_stump");
                                        }
                                    }

                                    // ---- merging the mixed list of all fitted learners keeps the sum
                                    if (mixed.size() >= 2)
                                    {
                                        rows_t sum(static_cast<size_t>(n), std::vector<double>(static_cast<size_t>(O), 0.0));
                                        auto   sum2 = sum;
                                        for (const auto& l : mixed)
                                        {
                                            const auto P = predict_rows(*l, ds, iall);
                                            for (size_t i = 0; i < P.size(); ++i)
                                            {
                                                for (size_t o = 0; o < P[i].size(); ++o)
                                                {
                                                    sum[i][o] += P[i][o];
                                                }
                                            }
                                        }
                                        const auto before = mixed.size();
                                        ::nano::wlearner::merge(mixed);
                                        for (const auto& l : mixed)
                                        {
                                            const auto P = predict_rows(*l, ds, iall);
                                            for (size_t i = 0; i < P.size(); ++i)
                                            {
                                                for (size_t o = 0; o < P[i].size(); ++o)
                                                {
                                                    sum2[i][o] += P[i][o];
                                                }
                                            }
                                        }
                                        if (!same_rows(sum2, sum, 1e-12))
                                        {
                                            r.violation("consistency/mixed/merge_changes_sum", one,
                                                        merge_json(case_json(p, G, S, "all fitted learners, three gradient tensors each", crit),
                                                                   jobj({{"learners_before", jint(before)},
                                                                         {"learners_after", jint(mixed.size())},
                                                                         {"sum_before", show_rows(sum)},
                                                                         {"sum_after", show_rows(sum2)}})));
                                        }
                                        r.outcome(mixed.size() < before ? "merge_mixed:merged" : "merge_mixed:kept");
                                    }
                                }
                            }
                        }
                    });
            }
        }
    }
}

// =============================================================================================
/// the oracle and the comparison must reject hand-made wrong answers
int self_test()
{
    const auto& s = schemas()[0];
    // x = (0, 1, 2, missing), g = (-1, -1, 2, 2) => residuals (1, 1, -2, -2)
    const auto        p = make_problem(s, 4, 1, {0, 1, 2, 3});
    gradients_t       G;
    G.n     = 4;
    G.O     = 1;
    G.digit = {1, 1, 2, 2};
    const std::vector<int> S = {0, 1, 2, 3};
    const plan_t           plan(p, S);
    const oracle_t         o{p, plan, G};
    // stump: split at 1.5 -> lo mean 1 (rss 0), hi -2 (rss 0), missing 4  => 4; split at 0.5 -> 0 + 4.5 + 4
    // affine: x=(0,1,2), r=(1,1,-2): w=-1.5, b=1.5 -> residuals (-.5, 1, -.5) => 1.5 + 4 = 5.5
    // hinge right at 1.5: z=.5, beta=-4 -> rss lo 2, hi 0, missing 4 => 6 ; left at 1.5: z=(-1.5,-.5): beta = -2/2.5=-.8 ...
    const ld stump = o.stump(0), affine = o.affine(0);
    if (fabsl(stump - 4) > 1e-15L || fabsl(affine - 5.5L) > 1e-15L || fabsl(o.hinge(0) - 6) > 1e-15L)
    {
        std::fprintf(stderr, "oracle self-test: wrong reference values %Lg %Lg %Lg\n", stump, affine, o.hinge(0));
        return 2;
    }
    const auto pc = make_problem(schemas()[1], 4, 1, {0, 1, 1, 2});
    const plan_t   planc(pc, S);
    const oracle_t oc{pc, planc, G};
    // c2 = (0, 1, 1, missing), r = (1, 1, -2, -2): dense = 0 + 4.5 + 4; dstep = min(0 + 1 + 4 + 4, 4.5 + 1 + 4) = 9 ... label 0 alone: 0 + (1+4) + 4 = 9
    if (fabsl(oc.dense(0) - 8.5L) > 1e-15L || fabsl(oc.dstep(0) - 9) > 1e-15L)
    {
        std::fprintf(stderr, "oracle self-test: wrong table reference values %Lg %Lg\n", oc.dense(0), oc.dstep(0));
        return 2;
    }
    if (close_score(4.0 + 1e-6, 4.0L) || close_score(4.0 - 1e-6, 4.0L) || close_score(0.1, 0.0L) ||
        !close_score(1e-14, 0.0L) || !close_score(4.0, 4.0L) ||
        close_score(std::numeric_limits<double>::quiet_NaN(), 4.0L) || same_rows({{1.0}}, {{1.0 + 1e-9}}) ||
        !same_rows({{1.0}}, {{1.0}}))
    {
        std::fprintf(stderr, "oracle self-test: a wrong answer was accepted\n");
        return 2;
    }
    return 0;
}
} // namespace

int main(int argc, char** argv)
{
    const auto args  = parse_args(argc, argv);
    const auto stage = args.stage.empty() ? std::string("optimal") : args.stage;
    if (const auto rc = self_test(); rc != 0)
    {
        return rc;
    }
    report_t r("c10/" + stage, args);
    if (stage == "optimal")
    {
        stage_optimal(r, args);
    }
    else if (stage == "consistency")
    {
        stage_consistency(r, args);
    }
    else
    {
        std::fprintf(stderr, "unknown stage %s\n", stage.c_str());
        return 2;
    }
    return r.finish();
}
