// C13 (large grids, evaluation budget) — the exhaustive landscape enumeration of c13_tuner.cpp is limited to grids of at
// most 12 cells, where the coarse initialisation already visits most of the grid. The clauses "only grid points, never
// twice, at most max_evals + 3^d evaluations, sorted, first = minimum" also quantify over large grids and small budgets,
// where the coarse stage alone can overshoot max_evals. This stage enumerates a stated lattice
//   tuner x scale x grid shape (1..3 spaces, 5..31 values) x max_evals x landscape
// of structured landscapes (bowls with the minimum at every combination of {first, last, middle, one third} per space,
// constant, ramps, needles) completely.
//
// case encoding: "budget:<index>"
#include "verif.h"
#include <nano/tuner.h>
#include <set>

using namespace nano;
using namespace verif;

namespace
{
struct grid_t
{
    std::string      name;
    std::vector<int> sizes;
};

const std::vector<grid_t>& grids()
{
    static const std::vector<grid_t> g = {{"5", {5}},         {"31", {31}},          {"5x5", {5, 5}},        {"7x7", {7, 7}},
                                          {"9x31", {9, 31}},  {"5x5x5", {5, 5, 5}}, {"7x7x7", {7, 7, 7}},  {"9x11x31", {9, 11, 31}},
                                          {"31x31x31", {31, 31, 31}}};
    return g;
}

const std::vector<int> EVALS = {10, 11, 12, 16, 20, 25, 26, 27, 28, 40, 100};

param_spaces_t make_spaces(const int scale, const grid_t& g)
{
    param_spaces_t spaces;
    for (size_t i = 0; i < g.sizes.size(); ++i)
    {
        tensor1d_t values(g.sizes[i]);
        for (tensor_size_t j = 0; j < values.size(); ++j)
        {
            values(j) = scale == 1 ? std::pow(10.0, 0.25 * static_cast<double>(j) - 3.0 + static_cast<double>(i))
                                   : 0.25 * static_cast<double>(j) + static_cast<double>(i);
        }
        spaces.emplace_back("p" + std::to_string(i), scale == 1 ? param_space_t::type::log10 : param_space_t::type::linear, values);
    }
    return spaces;
}

/// landscapes: 0..4^d-1 bowls, then constant, ramp up, ramp down, needle at the middle, needle at the last corner
int landscapes_of(const size_t d)
{
    int n = 1;
    for (size_t i = 0; i < d; ++i)
    {
        n *= 4;
    }
    return n + 5;
}

double landscape(const int id, const std::vector<int>& idx, const std::vector<int>& sizes)
{
    const auto d = sizes.size();
    int        bowls = 1;
    for (size_t i = 0; i < d; ++i)
    {
        bowls *= 4;
    }
    const auto pos = [&](const int which, const int size)
    { return which == 0 ? 0 : which == 1 ? size - 1 : which == 2 ? size / 2 : size / 3; };
    if (id < bowls)
    {
        double v   = 0;
        int    rem = id;
        for (size_t i = 0; i < d; ++i)
        {
            const int m = pos(rem % 4, sizes[i]);
            rem /= 4;
            v += (1.0 + 0.125 * static_cast<double>(i)) * std::fabs(static_cast<double>(idx[i] - m));
        }
        return v;
    }
    switch (id - bowls)
    {
    case 0: return 1.0;
    case 1:
    {
        double v = 0;
        for (size_t i = 0; i < d; ++i)
        {
            v += static_cast<double>(idx[i]) * (1.0 + 0.5 * static_cast<double>(i));
        }
        return v;
    }
    case 2:
    {
        double v = 0;
        for (size_t i = 0; i < d; ++i)
        {
            v -= static_cast<double>(idx[i]) * (1.0 + 0.5 * static_cast<double>(i));
        }
        return v;
    }
    default:
    {
        bool hit = true;
        for (size_t i = 0; i < d; ++i)
        {
            hit = hit && idx[i] == (id - bowls == 3 ? sizes[i] / 2 : sizes[i] - 1);
        }
        return hit ? -1.0 : 1.0;
    }
    }
}

struct run_t
{
    std::vector<std::vector<int>> evaluated;
    std::vector<double>           answers;
    std::set<std::vector<int>>    seen;
    bool                          off_grid = false, repeated = false, thrown = false, bad_shape = false;
    std::string                   what;
    tuner_steps_t                 steps;
};

std::string judge(const grid_t& g, const param_spaces_t& spaces, const int max_evals, const run_t& run)
{
    if (run.thrown)
    {
        return "unexpected-exception";
    }
    if (run.bad_shape)
    {
        return "callback-shape";
    }
    if (run.off_grid)
    {
        return "off-grid";
    }
    if (run.repeated)
    {
        return "point-evaluated-twice";
    }
    size_t pow3 = 1;
    for (size_t i = 0; i < g.sizes.size(); ++i)
    {
        pow3 *= 3;
    }
    if (run.evaluated.size() > static_cast<size_t>(max_evals) + pow3)
    {
        return "too-many-evaluations";
    }
    if (run.evaluated.empty())
    {
        return "nothing-evaluated";
    }
    if (run.steps.size() != run.evaluated.size())
    {
        return "steps-count";
    }
    const double minv = *std::min_element(run.answers.begin(), run.answers.end());
    if (run.steps.front().m_value != minv)
    {
        return "first-not-minimum";
    }
    std::multiset<std::pair<std::vector<int>, double>> expected, got;
    for (size_t i = 0; i < run.evaluated.size(); ++i)
    {
        expected.insert({run.evaluated[i], run.answers[i]});
    }
    for (size_t i = 0; i < run.steps.size(); ++i)
    {
        const auto& s = run.steps[i];
        if (i > 0 && run.steps[i - 1].m_value > s.m_value)
        {
            return "steps-not-sorted";
        }
        if (s.m_igrid.size() != static_cast<tensor_size_t>(g.sizes.size()) || s.m_param.size() != s.m_igrid.size())
        {
            return "step-shape";
        }
        std::vector<int> idx;
        for (tensor_size_t p = 0; p < s.m_igrid.size(); ++p)
        {
            const auto j = s.m_igrid(p);
            if (j < 0 || j >= g.sizes[static_cast<size_t>(p)] || spaces[static_cast<size_t>(p)].values()(j) != s.m_param(p))
            {
                return "step-param-not-grid-value";
            }
            idx.push_back(static_cast<int>(j));
        }
        got.insert({idx, s.m_value});
    }
    return got == expected ? "" : "steps-differ-from-evaluations";
}
} // namespace

int main(int argc, char** argv)
{
    const auto args = parse_args(argc, argv);
    report_t   r("c13/budget", args);
    (void)tuner_t::all().ids();
    const std::vector<std::string> tuners = {"local-search", "surrogate"};

    // oracle self-test: a run with one evaluation too many / a repeated point must be rejected
    {
        const auto& g      = grids()[0];
        const auto  spaces = make_spaces(0, g);
        run_t       fake;
        for (int i = 0; i < 10 + 3 + 1; ++i)
        {
            fake.evaluated.push_back({i % 5});
            fake.answers.push_back(1.0);
        }
        if (judge(g, spaces, 10, fake) != "too-many-evaluations")
        {
            std::fprintf(stderr, "oracle self-test failed\n");
            return 2;
        }
    }

    int maxl = 0;
    for (const auto& g : grids())
    {
        maxl = std::max(maxl, landscapes_of(g.sizes.size()));
    }
    lattice_t lat;
    lat.axis("tuner", tuners.size(), jarr_str(tuners));
    lat.axis("scale", 2, jstr("linear, log10"));
    lat.axis("grid", grids().size(), jarr(grids().begin(), grids().end(), [](const grid_t& g) { return jstr(g.name); }));
    lat.axis("max_evals", EVALS.size(), jarr_num(EVALS));
    lat.axis("landscape", static_cast<uint64_t>(maxl),
             jstr("4^d bowls (minimum at first / last / middle / one-third index per space), constant, ramp up, ramp down, needle "
                  "at the middle, needle at the last corner (ids beyond a grid's own count are skipped)"));
    lat.describe(r);

    for_each_case(lat, r, "budget",
                  [&](const uint64_t index, const std::vector<uint64_t>& d)
                  {
                      const auto& g = grids()[d[2]];
                      if (static_cast<int>(d[4]) >= landscapes_of(g.sizes.size()))
                      {
                          return;
                      }
                      const int  scale     = static_cast<int>(d[1]);
                      const int  max_evals = EVALS[d[3]];
                      const int  lid       = static_cast<int>(d[4]);
                      const auto spaces    = make_spaces(scale, g);
                      auto       tuner     = tuner_t::all().get(tuners[d[0]]);
                      tuner->parameter("tuner::max_evals") = max_evals;
                      run_t      run;
                      const auto callback = [&](const tensor2d_t& params)
                      {
                          tensor1d_t values(params.size<0>());
                          if (params.size<1>() != static_cast<tensor_size_t>(g.sizes.size()))
                          {
                              run.bad_shape = true;
                          }
                          for (tensor_size_t t = 0; t < params.size<0>(); ++t)
                          {
                              std::vector<int> idx;
                              for (tensor_size_t p = 0; p < params.size<1>() && p < static_cast<tensor_size_t>(spaces.size()); ++p)
                              {
                                  const auto& gv    = spaces[static_cast<size_t>(p)].values();
                                  int         found = -1;
                                  for (tensor_size_t j = 0; j < gv.size(); ++j)
                                  {
                                      if (std::memcmp(&gv(j), &params(t, p), sizeof(scalar_t)) == 0)
                                      {
                                          found = static_cast<int>(j);
                                      }
                                  }
                                  run.off_grid = run.off_grid || found < 0;
                                  idx.push_back(std::max(found, 0));
                              }
                              run.repeated = !run.seen.insert(idx).second || run.repeated;
                              const double v = landscape(lid, idx, g.sizes);
                              run.evaluated.push_back(idx);
                              run.answers.push_back(v);
                              values(t) = v;
                          }
                          return values;
                      };
                      try
                      {
                          run.steps = tuner->optimize(spaces, callback, make_null_logger());
                      }
                      catch (const std::exception& e)
                      {
                          run.thrown = true;
                          run.what   = e.what();
                      }
                      r.evaluations += 1;
                      size_t pow3 = 1;
                      for (size_t i = 0; i < g.sizes.size(); ++i)
                      {
                          pow3 *= 3;
                      }
                      // non-trivial: the budget was actually exhausted (the run did not simply run out of grid)
                      r.nontrivial += run.evaluated.size() >= static_cast<size_t>(max_evals) ? 1 : 0;
                      r.outcome(run.evaluated.size() > static_cast<size_t>(max_evals) ? "evaluations above max_evals (within the 3^d allowance)"
                                                                                       : "evaluations within max_evals");
                      const auto v = judge(g, spaces, max_evals, run);
                      if (!v.empty())
                      {
                          r.violation("budget:" + v + ":" + tuners[d[0]], "budget:" + std::to_string(index),
                                      jobj({{"tuner", jstr(tuners[d[0]])}, {"scale", jint(scale)}, {"grid", jstr(g.name)},
                                            {"max_evals", jint(max_evals)}, {"landscape", jint(lid)}, {"evaluations", jint(run.evaluated.size())},
                                            {"allowed", jint(static_cast<size_t>(max_evals) + pow3)}, {"what", jstr(run.what)}}));
                      }
                      if (index % 499 == 0)
                      {
                          r.sample(jobj({{"tuner", jstr(tuners[d[0]])}, {"grid", jstr(g.name)}, {"max_evals", jint(max_evals)},
                                         {"landscape", jint(lid)}, {"evaluations", jint(run.evaluated.size())}}));
                      }
                  });
    r.assume("landscapes outside the listed families are covered only on the small grids of the landscape stage");
    return r.finish();
}
