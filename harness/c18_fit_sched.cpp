// C18 (schedules of a whole fit) — linear / gboost fit with 2-worker pools everywhere under the controlled scheduler,
// deviation-bounded: every non-default scheduling choice (a preemption, but also a free switch after a thread
// blocked, or the choice of the waiter a signal wakes) costs one unit of the budget; an optional horizon restricts
// branching to the first H decisions (the tiny fits used here have 200-500 decisions, so no horizon is needed). Oracle on every explored schedule: same selected features, predictions within 1e-5
// relative of the default schedule's, nothing hangs.
//
// case encoding: "F:<model>:<horizon>:<budget>|c0,c1,..."
#include "models.h"
#include "verif.h"
#include "vsched.h"
#include <nano/solver.h>
#include <sched.h>
#include <unistd.h>

using namespace nano;
using namespace verif;

namespace
{
struct config_t
{
    int model = 0; ///< 0 ridge, 1 gboost{stump,dense-table}
    int horizon = 300, budget = 1;
    std::string str() const { return "F:" + std::to_string(model) + ":" + std::to_string(horizon) + ":" + std::to_string(budget); }
};

struct context_t
{
    config_t                                cfg;
    report_t*                               r = nullptr;
    std::unique_ptr<vt::table_datasource_t> source;
    rloss_t                                 loss;
    tensor4d_t                              predictions, reference;
    indices_t                               features, ref_features;
    bool                                    have_ref = false;
    tensor_size_t                           samples = 16;
    int                                     violations_here = 0;
    uint64_t                                preempted = 0;
};

void body(void* p)
{
    auto&      c       = *static_cast<context_t*>(p);
    const auto dataset = vt::make_model_dataset(*c.source, 2);
    const auto all     = arange(0, dataset.samples());
    const auto params  = vt::make_fit_params(2, "local-search", 60, 1e-6);
    if (c.cfg.model == 0)
    {
        auto model = linear_t::all().get("ridge");
        model->parameter("linear::batch") = 10;
        model->fit(dataset, all, *c.loss, params);
        c.predictions = model->predict(dataset, all);
        c.features    = indices_t{};
    }
    else
    {
        auto model = vt::make_gboost(1);
        model.fit(dataset, all, *c.loss, params);
        c.predictions = model.predict(dataset, all);
        c.features    = model.features();
    }
}

std::string choices_str(const int* ch, const int n)
{
    std::string s;
    for (int i = 0; i < n; ++i)
    {
        s += (i ? "," : "") + std::to_string(ch[i]);
    }
    return s;
}

void violation(context_t& c, const std::string& what, const int* ch, const int n, const std::string& detail)
{
    ++c.violations_here;
    // only the decisions inside the horizon matter for the replay
    const int m = std::min(n, c.cfg.horizon);
    c.r->violation("fit-sched:" + what, c.cfg.str() + "|" + choices_str(ch, m),
                   jobj({{"config", jstr(c.cfg.str())}, {"what", jstr(what)}, {"detail", jstr(detail)}}));
}

bool after(void* p, const int* ch, const int n)
{
    static uint64_t runs = 0;
    if ((++runs & 15U) == 0U)
    {
        purge_tmpdir(); // one log file per (trial, fold) and fit
    }
    auto& c = *static_cast<context_t*>(p);
    if (!c.have_ref)
    {
        c.have_ref     = true;
        c.reference    = c.predictions;
        c.ref_features = c.features;
        return true;
    }
    bool   same = c.features.size() == c.ref_features.size() && c.predictions.size() == c.reference.size();
    double err  = 0;
    for (tensor_size_t i = 0; same && i < c.features.size(); ++i)
    {
        same = c.features(i) == c.ref_features(i);
    }
    for (tensor_size_t i = 0; same && i < c.predictions.size(); ++i)
    {
        err = std::max(err, std::fabs(c.predictions(i) - c.reference(i)) / (1.0 + std::fabs(c.reference(i))));
    }
    if (!same || !(err <= 1e-5))
    {
        violation(c, "model-depends-on-schedule", ch, n, "max relative prediction error " + std::to_string(err));
    }
    if (sched::last_preemptions() > 0)
    {
        ++c.preempted;
    }
    return c.violations_here < 2;
}

[[noreturn]] void fatal(void* p, const sched::status_t why, const int* ch, const int n)
{
    auto& c = *static_cast<context_t*>(p);
    if (why == sched::ST_DIVERGED)
    {
        std::fprintf(stderr, "replay diverged for %s\n", c.cfg.str().c_str());
        _exit(2);
    }
    violation(c, why == sched::ST_DEADLOCK ? "deadlock" : why == sched::ST_HANG ? "hang" : "thread-leak", ch, n,
              "no execution of this schedule can complete");
    c.r->cap("exploration stopped at the first fatal schedule");
    c.r->finish();
    _exit(1);
}

void setup(context_t& c)
{
    sched::set_hw_threads(2);
    c.source   = vt::make_model_source(c.samples, 0, true);
    c.loss     = loss_t::all().get("mse");
    c.have_ref = false;
    c.violations_here = 0;
}

bool parse_case(const std::string& s, config_t& k, std::vector<int>& choices)
{
    const auto bar = s.find('|');
    if (std::sscanf(s.c_str(), "F:%d:%d:%d", &k.model, &k.horizon, &k.budget) != 3)
    {
        return false;
    }
    choices.clear();
    if (bar != std::string::npos)
    {
        const char* q = s.c_str() + bar + 1;
        while (*q)
        {
            choices.push_back(static_cast<int>(std::strtol(q, const_cast<char**>(&q), 10)));
            if (*q == ',')
            {
                ++q;
            }
        }
    }
    return true;
}
} // namespace

int main(int argc, char** argv)
{
    const auto args = parse_args(argc, argv);
    report_t   r("c18/fit-sched", args);
    context_t  c;
    c.r = &r;
    {
        cpu_set_t set;
        CPU_ZERO(&set);
        const long ncpu = sysconf(_SC_NPROCESSORS_ONLN);
        CPU_SET(static_cast<int>(args.shard % (ncpu > 0 ? ncpu : 1)), &set);
        sched_setaffinity(0, sizeof(set), &set);
    }
    // every lazily built factory must exist before controlled threads do
    (void)tuner_t::all().ids();
    (void)splitter_t::all().ids();
    (void)solver_t::all().ids();
    (void)loss_t::all().ids();
    (void)lsearch0_t::all().ids();
    (void)lsearchk_t::all().ids();
    (void)wlearner_t::all().ids();
    (void)linear_t::all().ids();
    (void)generator_t::all().ids();
    (void)datasource_t::all().ids();
    (void)function_t::all().ids();

    if (!args.one.empty())
    {
        std::vector<int> choices;
        if (!parse_case(args.one, c.cfg, choices))
        {
            return 2;
        }
        c.samples = static_cast<tensor_size_t>(args.geti("samples", 16));
        setup(c);
        sched::config_t sc;
        sc.budget    = c.cfg.budget;
        sc.horizon   = c.cfg.horizon;
        sc.max_steps = 200000000;
        sc.count_all = 1;
        sched::replay(sc, body, after, fatal, &c, nullptr, 0); // reference = default schedule
        sched::replay(sc, body, after, fatal, &c, choices.data(), static_cast<int>(choices.size()));
        r.evaluations = 1;
        r.traces      = 1;
        return r.finish();
    }
    c.samples         = static_cast<tensor_size_t>(args.geti("samples", 16));
    const int horizon = static_cast<int>(args.geti("horizon", 1000000));
    const int budget  = static_cast<int>(args.geti("budget", 1));
    r.axis("models", jstr("ridge (local-search tuner, 2 folds), gboost{stump,dense-table} (10 rounds)"));
    r.axis("pools", jstr("dataset pool 2 workers, ml::tune pool 2 workers (hardware_concurrency interposed)"));
    r.axis("horizon_decisions", jint(horizon));
    r.axis("deviation_budget", jint(budget));
    r.axis("samples", jint(c.samples));
    for (int model = 0; model < 2; ++model)
    {
        c.cfg.model   = model;
        c.cfg.horizon = horizon;
        c.cfg.budget  = budget;
        setup(c);
        sched::config_t sc;
        sc.budget    = budget;
        sc.horizon   = horizon;
        sc.prune     = 1;
        sc.max_steps = 200000000;
        sc.count_all = 1;
        // the reference comes from the default schedule (every shard runs it once, uncounted)
        sched::replay(sc, body, after, fatal, &c, nullptr, 0);
        sched::stats_t st;
        const double   left = args.deadline - r.elapsed();
        if (left <= 0)
        {
            r.cap("deadline: " + c.cfg.str() + " not explored");
            break;
        }
        sched::explore(sc, body, after, fatal, &c, args.shard, args.shards, left, &st);
        r.traces += st.executions;
        r.evaluations += st.executions;
        r.transitions += st.transitions;
        r.states += st.states;
        r.nontrivial += c.preempted;
        c.preempted = 0;
        r.outcome("config " + c.cfg.str() + " executions", st.executions);
        if (st.capped)
        {
            r.cap("deadline hit inside " + c.cfg.str());
        }
        if (args.shard == 0)
        {
            r.sample(jobj({{"config", jstr(c.cfg.str())}, {"executions_shard0", jint(st.executions)}, {"decisions_per_run", jint(st.max_depth)}}));
        }
    }
    r.assume("only the first `horizon` scheduling decisions of a fit are branched on (exhaustive schedules of a whole fit are out "
             "of reach); beyond the horizon the default schedule runs to completion");
    return r.finish();
}
