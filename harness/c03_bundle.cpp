// C03 — bundle / ellipsoid solvers: a reported `converged` certifies eps-optimality (E3, bounded exhaustive).
//
// Every case minimises a harness-made convex, non-smooth function with an analytically known sharp minimum
//      f(x) = ||A (x - x*)||_p + (mu/2) ||x - x*||_2^2,   p in {1, inf},   f* = f(x*) = 0,   f(x) >= ||x - x*||_2
// with the REAL solver_t::minimize of "rqb", "fpba1", "fpba2" (stage `bundle`) or "ellipsoid" (stage `ellipsoid`)
// and judges the returned state against (x*, f*):
//      bundle solver reports converged  =>  f(x) - f* <= 2 eps sqrt(n) (1 + ||x - x*||_2)
//      ellipsoid reports converged      =>  f(x) - f* <= 10 eps
//      ellipsoid, n <= 6, max_evals = 20000  =>  reports converged
// f(x) is recomputed here in long double from the definition (state.fx() is not trusted).
//
// NB (sharpness): sigma_min(A) >= 1 gives ||Az||_1 >= ||Az||_2 >= ||z||_2, but only ||Az||_inf >= ||z||_2 / sqrt(n).
//     The inf-norm family therefore uses sqrt(n) * A (still "A with smallest singular value >= 1"), which makes
//     f(x) - f* >= ||x - x*||_2 hold; the self-test checks sigma_min with an SVD and the inequality on a point set.
#include "verif.h"
#include <Eigen/Dense>
#include <algorithm>
#include <csignal>
#include <malloc.h>
#include <ctime>
#include <nano/function.h>
#include <nano/logger.h>
#include <nano/solver.h>
#include <sys/time.h>
#include <sys/wait.h>
#include <unistd.h>

using namespace nano;
using namespace verif;

namespace
{
// ---------------------------------------------------------------------------------------------
// watchdog: CPU-time timer (robust on a loaded machine). First expiry: the next function evaluation throws
// (clean unwinding through the solver). Second expiry (the solver spins without evaluating): give up loudly.
struct watchdog_abort_t
{
};
volatile sig_atomic_t g_expired    = 0;
char                  g_case[64]   = "";
constexpr double      GRACE_CPU_S  = 60.0;

void arm_timer(const double cpu_s)
{
    itimerval it{};
    it.it_value.tv_sec  = static_cast<time_t>(cpu_s);
    it.it_value.tv_usec = static_cast<suseconds_t>((cpu_s - std::floor(cpu_s)) * 1e6);
    setitimer(ITIMER_VIRTUAL, &it, nullptr);
}

void on_timer(int)
{
    if (g_expired == 0)
    {
        g_expired = 1;
        arm_timer(GRACE_CPU_S);
    }
    else
    {
        const char msg[] = "HANG: no function evaluation within the grace period after the watchdog fired, case ";
        (void)!write(2, msg, sizeof(msg) - 1);
        (void)!write(2, g_case, std::strlen(g_case));
        (void)!write(2, "\n", 1);
        _exit(2);
    }
}

double cpu_now()
{
    timespec ts{};
    clock_gettime(CLOCK_PROCESS_CPUTIME_ID, &ts);
    return static_cast<double>(ts.tv_sec) + 1e-9 * static_cast<double>(ts.tv_nsec);
}

// ---------------------------------------------------------------------------------------------
// the axes (simplest values first)
const std::vector<std::string> KINDS   = {"l1", "linf"};
const std::vector<double>      MUS     = {0.0, 1.0};
const std::vector<std::string> ANAMES  = {"I", "2I", "diag(1..n)", "Givens(0.6,0.8)-chain*diag(1..n)"};
const std::vector<std::string> XSNAMES = {"0", "3*(+1,-1,+1,...)", "(1..n)*3/n"};
const std::vector<std::string> UNAMES  = {"e1", "-en", "ones/sqrt(n)", "(+1,-1,...)/sqrt(n)"};
const std::vector<double>      EPSS    = {1e-3, 1e-5, 1e-8};
const std::vector<std::string> BSOLVERS = {"rqb", "fpba1", "fpba2"};
const std::vector<std::string> PSETS    = {"default", "cutting-plane(m4=100: frequent cutting-plane steps)",
                                           "prox-small(miu0_range=(1e-3,2e-3): long first steps, many null steps, large bundles)",
                                           "csearch-alt(m1m2=(0.1,0.5),m3=0.5,m4=0.5,interpol=0.5,extrapol=2)",
                                           "prox-alt(miu0_range=(1,1e3),min_dot_nuv=1e-6)"};
constexpr double               RADIUS  = 4.0;  ///< ||x0 - x*||_2
constexpr double               ELL_R   = 10.0; ///< initial radius of the ellipsoid method (>= RADIUS)

std::vector<long> parse_list(const std::string& s)
{
    std::vector<long> out;
    std::stringstream ss(s);
    std::string       tok;
    while (std::getline(ss, tok, ','))
    {
        out.push_back(std::atol(tok.c_str()));
    }
    return out;
}

// A (row-major, n x n); for the inf-norm kind it is multiplied by sqrt(n) (see the header)
std::vector<double> make_A(const int n, const int a_i, const int kind)
{
    const auto          N = static_cast<size_t>(n);
    std::vector<double> A(N * N, 0.0);
    for (size_t i = 0; i < N; ++i)
    {
        A[i * N + i] = a_i == 0 ? 1.0 : (a_i == 1 ? 2.0 : static_cast<double>(i + 1));
    }
    if (a_i == 3)
    {
        // G = G(0,1) G(1,2) ... G(n-2,n-1), every plane rotation with cos = 0.6, sin = 0.8 (exactly orthogonal in
        // rationals); A = G * diag(1..n) has the singular values 1..n
        for (size_t k = N; k-- > 1;)
        {
            const size_t i = k - 1, j = k;
            for (size_t c = 0; c < N; ++c)
            {
                const auto ri = A[i * N + c], rj = A[j * N + c];
                A[i * N + c] = 0.6 * ri - 0.8 * rj;
                A[j * N + c] = 0.8 * ri + 0.6 * rj;
            }
        }
    }
    if (kind == 1)
    {
        const auto s = std::sqrt(static_cast<double>(n));
        for (auto& v : A)
        {
            v *= s;
        }
    }
    return A;
}

std::vector<double> make_xstar(const int n, const int xs_i)
{
    std::vector<double> x(static_cast<size_t>(n), 0.0);
    for (int i = 0; i < n; ++i)
    {
        x[static_cast<size_t>(i)] =
            xs_i == 0 ? 0.0 : (xs_i == 1 ? (i % 2 == 0 ? 3.0 : -3.0) : static_cast<double>(i + 1) * 3.0 / static_cast<double>(n));
    }
    return x;
}

std::vector<double> make_u(const int n, const int u_i)
{
    std::vector<double> u(static_cast<size_t>(n), 0.0);
    const auto          s = std::sqrt(static_cast<double>(n));
    for (int i = 0; i < n; ++i)
    {
        auto& v = u[static_cast<size_t>(i)];
        switch (u_i)
        {
        case 0: v = i == 0 ? 1.0 : 0.0; break;
        case 1: v = i == n - 1 ? -1.0 : 0.0; break;
        case 2: v = 1.0 / s; break;
        default: v = (i % 2 == 0 ? 1.0 : -1.0) / s; break;
        }
    }
    return u;
}

// ---------------------------------------------------------------------------------------------
// the function under minimisation (what the solver sees: doubles, one valid sub-gradient per point)
class sharp_t final : public function_t
{
public:
    sharp_t(const int n, const int kind, const double mu, std::vector<double> A, std::vector<double> xstar)
        : function_t(KINDS[static_cast<size_t>(kind)] + (mu > 0 ? "+quad" : ""), n)
        , m_kind(kind)
        , m_mu(mu)
        , m_A(std::move(A))
        , m_xstar(std::move(xstar))
    {
        convex(convexity::yes);
        smooth(smoothness::no);
        strong_convexity(mu);
    }

    rfunction_t clone() const override { return std::make_unique<sharp_t>(*this); }

    scalar_t do_vgrad(vector_cmap_t x, vector_map_t gx) const override
    {
        if (g_expired != 0)
        {
            throw watchdog_abort_t{};
        }
        ++m_evals;
        const auto          n = static_cast<size_t>(size());
        std::vector<double> z(n), r(n, 0.0);
        for (size_t i = 0; i < n; ++i)
        {
            z[i] = x(static_cast<tensor_size_t>(i)) - m_xstar[i];
        }
        for (size_t i = 0; i < n; ++i)
        {
            for (size_t j = 0; j < n; ++j)
            {
                r[i] += m_A[i * n + j] * z[j];
            }
        }
        const bool          grad = gx.size() == x.size();
        std::vector<double> g(n, 0.0);
        double              fx = 0.0;
        if (m_kind == 0)
        {
            // sum_i |r_i|; A' sign(r) with sign(0) = 0 is a sub-gradient (0 lies in [-1, +1])
            for (size_t i = 0; i < n; ++i)
            {
                fx += std::fabs(r[i]);
                const auto s = r[i] > 0 ? 1.0 : (r[i] < 0 ? -1.0 : 0.0);
                for (size_t j = 0; j < n; ++j)
                {
                    g[j] += s * m_A[i * n + j];
                }
            }
        }
        else
        {
            // max_i |r_i|; sign(r_k) * row k for the first arg-max k is a sub-gradient (0 when r = 0)
            size_t k = 0;
            for (size_t i = 1; i < n; ++i)
            {
                if (std::fabs(r[i]) > std::fabs(r[k]))
                {
                    k = i;
                }
            }
            fx           = std::fabs(r[k]);
            const auto s = r[k] > 0 ? 1.0 : (r[k] < 0 ? -1.0 : 0.0);
            for (size_t j = 0; j < n; ++j)
            {
                g[j] = s * m_A[k * n + j];
            }
        }
        if (m_mu > 0)
        {
            double q = 0;
            for (size_t i = 0; i < n; ++i)
            {
                q += z[i] * z[i];
                g[i] += m_mu * z[i];
            }
            fx += 0.5 * m_mu * q;
        }
        if (grad)
        {
            for (size_t i = 0; i < n; ++i)
            {
                gx(static_cast<tensor_size_t>(i)) = g[i];
            }
        }
        return fx;
    }

    uint64_t evals() const { return m_evals; }

private:
    int                 m_kind;
    double              m_mu;
    std::vector<double> m_A, m_xstar;
    mutable uint64_t    m_evals{0};
};

// the reference value f(x) - f* and ||x - x*||_2 (long double, written independently of do_vgrad)
struct truth_t
{
    long double gap{0}, dist{0};
};

truth_t reference(const int n, const int kind, const double mu, const std::vector<double>& A,
                  const std::vector<double>& xstar, const std::vector<double>& x)
{
    const auto  N = static_cast<size_t>(n);
    long double l1 = 0, linf = 0, d2 = 0;
    for (size_t i = 0; i < N; ++i)
    {
        long double ri = 0;
        for (size_t j = 0; j < N; ++j)
        {
            ri += static_cast<long double>(A[i * N + j]) * (static_cast<long double>(x[j]) - static_cast<long double>(xstar[j]));
        }
        l1 += std::fabs(ri);
        linf = std::max(linf, std::fabs(ri));
        const auto zi = static_cast<long double>(x[i]) - static_cast<long double>(xstar[i]);
        d2 += zi * zi;
    }
    truth_t t;
    t.gap  = (kind == 0 ? l1 : linf) + 0.5L * static_cast<long double>(mu) * d2;
    t.dist = std::sqrt(d2);
    if (std::isnan(l1) || std::isnan(d2))
    {
        t.gap = t.dist = std::numeric_limits<long double>::quiet_NaN();
    }
    return t;
}

// ---------------------------------------------------------------------------------------------
// the oracle on plain numbers (so that it can be fed wrong answers): "" or the kind of violation
struct verdict_t
{
    std::string what; ///< empty: the property holds for this run
    long double bound{0};
};

verdict_t judge(const bool ellipsoid, const bool converged, const int n, const double eps, const long max_evals,
                const long double gap, const long double dist)
{
    verdict_t v;
    if (converged)
    {
        v.bound = ellipsoid ? 10.0L * static_cast<long double>(eps)
                            : 2.0L * static_cast<long double>(eps) * std::sqrt(static_cast<long double>(n)) * (1.0L + dist);
        if (!(gap <= v.bound)) // NaN fails
        {
            v.what = "converged-gap-exceeds-bound";
        }
    }
    else if (ellipsoid && n <= 6 && max_evals >= 20000)
    {
        v.what = "not-converged-within-20000-evals";
    }
    return v;
}

std::string ratio_bucket(const long double gap, const long double bound)
{
    const auto q = gap / bound;
    if (!(q == q)) return "ratio=nan";
    if (gap == 0) return "gap=0";
    if (q <= 1e-6L) return "ratio<=1e-6";
    if (q <= 1e-3L) return "ratio<=1e-3";
    if (q <= 0.1L) return "ratio<=0.1";
    if (q <= 0.5L) return "ratio<=0.5";
    if (q <= 1.0L) return "ratio<=1";
    return "ratio>1";
}

// ---------------------------------------------------------------------------------------------
struct case_t
{
    int         n{1}, kind{0}, mu_i{0}, a_i{0}, xs_i{0}, u_i{0};
    double      eps{1e-3};
    long        max_evals{100};
    std::string solver{"ellipsoid"};
    long        bsize{0};
    int         pset{0};
};

struct result_t
{
    bool                aborted{false};
    bool                crashed{false}; ///< the isolated child died (signal / abnormal exit) instead of answering
    int                 wait_status{0};
    std::string         threw;
    solver_status       status{solver_status::max_iters};
    std::vector<double> x;
    double              fx{0};
    uint64_t            evals{0};
    double              cpu_s{0};
};

rsolver_t configure(const case_t& c)
{
    auto solver = solver_t::all().get(c.solver);
    if (!solver)
    {
        std::fprintf(stderr, "unknown solver %s\n", c.solver.c_str());
        std::exit(2);
    }
    try
    {
        solver->parameter("solver::epsilon")   = c.eps;
        solver->parameter("solver::max_evals") = static_cast<int64_t>(c.max_evals);
        if (c.solver == "ellipsoid")
        {
            solver->parameter("solver::ellipsoid::R") = ELL_R;
        }
        else
        {
            const auto p = "solver::" + c.solver;
            solver->parameter(p + "::bundle::max_size") = static_cast<int64_t>(c.bsize);
            if (c.pset == 1)
            {
                solver->parameter(p + "::csearch::m4") = 100.0;
            }
            else if (c.pset == 2)
            {
                solver->parameter(p + "::prox::miu0_range") = std::make_tuple(1e-3, 2e-3);
            }
            else if (c.pset == 3)
            {
                solver->parameter(p + "::csearch::m1m2")     = std::make_tuple(0.1, 0.5);
                solver->parameter(p + "::csearch::m3")       = 0.5;
                solver->parameter(p + "::csearch::m4")       = 0.5;
                solver->parameter(p + "::csearch::interpol") = 0.5;
                solver->parameter(p + "::csearch::extrapol") = 2.0;
            }
            else if (c.pset == 4)
            {
                solver->parameter(p + "::prox::miu0_range")  = std::make_tuple(1.0, 1e3);
                solver->parameter(p + "::prox::min_dot_nuv") = 1e-6;
            }
        }
    }
    catch (const std::exception& ex)
    {
        // a value outside a parameter's domain is a harness mistake, never a library defect
        std::fprintf(stderr, "cannot configure %s: %s\n", c.solver.c_str(), ex.what());
        std::exit(2);
    }
    return solver;
}

result_t run_here(const case_t& c, const std::vector<double>& A, const std::vector<double>& xstar,
                  const std::vector<double>& x0v, const double cpu_limit_s, const std::string& tag)
{
    result_t   res;
    const auto solver = configure(c);
    sharp_t    f(c.n, c.kind, MUS[static_cast<size_t>(c.mu_i)], A, xstar);
    vector_t   x0(c.n);
    for (int i = 0; i < c.n; ++i)
    {
        x0(i) = x0v[static_cast<size_t>(i)];
    }
    static const auto logger = std::getenv("C03_LOG") != nullptr ? make_stderr_logger() : make_null_logger();

    std::snprintf(g_case, sizeof(g_case), "%s", tag.c_str());
    g_expired      = 0;
    const auto t0  = cpu_now();
    arm_timer(cpu_limit_s);
    try
    {
        const auto state = solver->minimize(f, x0, logger);
        arm_timer(0.0);
        res.status = state.status();
        res.fx     = state.fx();
        res.x.assign(state.x().data(), state.x().data() + state.x().size());
    }
    catch (const watchdog_abort_t&)
    {
        arm_timer(0.0);
        res.aborted = true;
    }
    catch (const std::exception& ex)
    {
        arm_timer(0.0);
        res.threw = ex.what();
    }
    // NB: an expiry between the last evaluation and here only leaves the flag set
    g_expired = 0;
    res.cpu_s = cpu_now() - t0;
    res.evals = f.evals();
    return res;
}

// every run happens in a forked child: a solver that corrupts the heap or crashes cannot poison the other cases
std::string encode(const result_t& r)
{
    std::ostringstream o;
    if (!r.threw.empty())
    {
        o << "T " << r.evals << " " << r.cpu_s << " " << r.threw;
        return o.str();
    }
    char buf[64];
    o << (r.aborted ? "A " : "R ") << static_cast<int>(r.status) << " " << r.evals << " " << r.x.size();
    std::snprintf(buf, sizeof(buf), " %a %a", r.cpu_s, r.fx);
    o << buf;
    for (const auto v : r.x)
    {
        std::snprintf(buf, sizeof(buf), " %a", v);
        o << buf;
    }
    o << " .";
    return o.str();
}

bool decode_result(const std::string& text, result_t& r)
{
    std::istringstream in(text);
    std::string        kind;
    if (!(in >> kind))
    {
        return false;
    }
    if (kind == "T")
    {
        if (!(in >> r.evals >> r.cpu_s))
        {
            return false;
        }
        std::getline(in, r.threw);
        if (r.threw.empty())
        {
            r.threw = "?";
        }
        return true;
    }
    int         status = 0;
    size_t      n      = 0;
    std::string tok;
    if ((kind != "A" && kind != "R") || !(in >> status >> r.evals >> n) || n > 64)
    {
        return false;
    }
    r.aborted = kind == "A";
    r.status  = static_cast<solver_status>(status);
    const auto num = [&](double& v)
    {
        if (!(in >> tok))
        {
            return false;
        }
        v = std::strtod(tok.c_str(), nullptr); // handles hex floats, inf and nan
        return true;
    };
    if (!num(r.cpu_s) || !num(r.fx))
    {
        return false;
    }
    r.x.resize(n);
    for (auto& v : r.x)
    {
        if (!num(v))
        {
            return false;
        }
    }
    return static_cast<bool>(in >> tok) && tok == "."; // complete message
}

result_t run(const case_t& c, const std::vector<double>& A, const std::vector<double>& xstar,
             const std::vector<double>& x0v, const double cpu_limit_s, const std::string& tag)
{
    if (std::getenv("C03_NOFORK") != nullptr)
    {
        return run_here(c, A, xstar, x0v, cpu_limit_s, tag);
    }
    int fds[2];
    if (pipe(fds) != 0)
    {
        std::perror("pipe");
        std::exit(2);
    }
    std::fflush(nullptr);
    const auto pid = fork();
    if (pid < 0)
    {
        std::perror("fork");
        std::exit(2);
    }
    if (pid == 0)
    {
        close(fds[0]);
        const auto text = encode(run_here(c, A, xstar, x0v, cpu_limit_s, tag));
        size_t     off  = 0;
        while (off < text.size())
        {
            const auto k = write(fds[1], text.data() + off, text.size() - off);
            if (k <= 0)
            {
                break;
            }
            off += static_cast<size_t>(k);
        }
        _exit(0);
    }
    close(fds[1]);
    std::string text;
    char        buf[4096];
    for (;;)
    {
        const auto k = read(fds[0], buf, sizeof(buf));
        if (k > 0)
        {
            text.append(buf, static_cast<size_t>(k));
        }
        else if (k == 0 || errno != EINTR)
        {
            break;
        }
    }
    close(fds[0]);
    int st = 0;
    while (waitpid(pid, &st, 0) < 0 && errno == EINTR)
    {
    }
    result_t res;
    if (!(WIFEXITED(st) && WEXITSTATUS(st) == 0) || !decode_result(text, res))
    {
        res             = result_t{};
        res.crashed     = true;
        res.wait_status = st;
    }
    return res;
}

const char* status_name(const solver_status s)
{
    switch (s)
    {
    case solver_status::max_iters: return "max_iters";
    case solver_status::converged: return "converged";
    case solver_status::failed: return "failed";
    case solver_status::unfeasible: return "unfeasible";
    default: return "unbounded";
    }
}

// ---------------------------------------------------------------------------------------------
// self-test of the function family: f(x*) = 0, sigma_min, sharpness and validity of the returned sub-gradients
bool selftest_functions(const std::vector<long>& ns)
{
    for (const auto nl : ns)
    {
        const auto n = static_cast<int>(nl);
        const auto N = static_cast<size_t>(n);
        for (int kind = 0; kind < 2; ++kind)
        {
            for (int a_i = 0; a_i < 4; ++a_i)
            {
                const auto A = make_A(n, a_i, kind);
                Eigen::MatrixXd M(n, n);
                for (int i = 0; i < n; ++i)
                {
                    for (int j = 0; j < n; ++j)
                    {
                        M(i, j) = A[static_cast<size_t>(i) * N + static_cast<size_t>(j)];
                    }
                }
                const Eigen::JacobiSVD<Eigen::MatrixXd> svd(M, Eigen::ComputeFullV);
                const auto smin = svd.singularValues()(n - 1);
                const auto need = kind == 0 ? 1.0 : std::sqrt(static_cast<double>(n));
                if (!(smin >= need * (1.0 - 1e-12)))
                {
                    std::fprintf(stderr, "self-test: sigma_min(A) = %.17g < %.17g (n=%d kind=%d A=%d)\n", smin, need, n, kind, a_i);
                    return false;
                }
                for (size_t mu_i = 0; mu_i < MUS.size(); ++mu_i)
                {
                    for (int xs_i = 0; xs_i < 3; ++xs_i)
                    {
                        const auto xstar = make_xstar(n, xs_i);
                        const sharp_t f(n, kind, MUS[mu_i], A, xstar);
                        // point set: x*, x* + t d for d in {+-e_i, the u's, +-right singular vectors}
                        std::vector<std::vector<double>> dirs;
                        for (int i = 0; i < n; ++i)
                        {
                            std::vector<double> e(N, 0.0);
                            e[static_cast<size_t>(i)] = 1.0;
                            dirs.push_back(e);
                        }
                        for (int u_i = 0; u_i < 4; ++u_i)
                        {
                            dirs.push_back(make_u(n, u_i));
                        }
                        for (int k = 0; k < n; ++k)
                        {
                            std::vector<double> v(N);
                            for (int i = 0; i < n; ++i)
                            {
                                v[static_cast<size_t>(i)] = svd.matrixV()(i, k);
                            }
                            dirs.push_back(v);
                        }
                        std::vector<std::vector<double>> pts = {xstar};
                        for (const auto& d : dirs)
                        {
                            for (const double t : {1e-6, 1e-3, 0.5, 1.0, RADIUS, -1e-6, -1e-3, -0.5, -1.0, -RADIUS})
                            {
                                auto p = xstar;
                                for (size_t i = 0; i < N; ++i)
                                {
                                    p[i] += t * d[i];
                                }
                                pts.push_back(p);
                            }
                        }
                        std::vector<double>              fv(pts.size());
                        std::vector<std::vector<double>> gv(pts.size(), std::vector<double>(N));
                        for (size_t p = 0; p < pts.size(); ++p)
                        {
                            vector_t x(n), g(n);
                            for (int i = 0; i < n; ++i)
                            {
                                x(i) = pts[p][static_cast<size_t>(i)];
                            }
                            fv[p] = f.vgrad(x, g);
                            for (int i = 0; i < n; ++i)
                            {
                                gv[p][static_cast<size_t>(i)] = g(i);
                            }
                            const auto t = reference(n, kind, MUS[mu_i], A, xstar, pts[p]);
                            // the solver's function and the oracle's reference agree, and the minimum is sharp
                            if (std::fabs(static_cast<double>(t.gap) - fv[p]) > 1e-12 * (1.0 + fv[p]) ||
                                !(t.gap >= t.dist * (1.0L - 1e-12L)) || (p == 0 && (fv[p] != 0.0 || t.gap != 0.0L)))
                            {
                                std::fprintf(stderr, "self-test: not sharp / inconsistent: n=%d kind=%d A=%d mu=%zu xs=%d point %zu: f=%.17g ref=%.17Lg dist=%.17Lg\n",
                                             n, kind, a_i, mu_i, xs_i, p, fv[p], t.gap, t.dist);
                                return false;
                            }
                        }
                        // sub-gradient inequality f(y) >= f(x) + g(x).(y - x) on all pairs (kinks included)
                        for (size_t p = 0; p < pts.size(); ++p)
                        {
                            for (size_t q = 0; q < pts.size(); ++q)
                            {
                                long double lin = fv[p];
                                for (size_t i = 0; i < N; ++i)
                                {
                                    lin += static_cast<long double>(gv[p][i]) * (static_cast<long double>(pts[q][i]) - static_cast<long double>(pts[p][i]));
                                }
                                if (!(static_cast<long double>(fv[q]) >= lin - 1e-11L * (1.0L + std::fabs(lin))))
                                {
                                    std::fprintf(stderr, "self-test: invalid sub-gradient: n=%d kind=%d A=%d mu=%zu xs=%d at point %zu vs %zu: f(y)=%.17g < %.17Lg\n",
                                                 n, kind, a_i, mu_i, xs_i, p, q, fv[q], lin);
                                    return false;
                                }
                            }
                        }
                    }
                }
            }
        }
    }
    return true;
}

bool selftest_oracle()
{
    // wrong answers that must be rejected / right answers that must be accepted
    const auto bad1 = judge(false, true, 4, 1e-3, 2000, 1.0L, 1.0L);           // bundle: gap 1 > 2e-3*2*2
    const auto ok1  = judge(false, true, 4, 1e-3, 2000, 7.9e-3L, 1.0L);        // bound = 8e-3
    const auto bad2 = judge(false, true, 4, 1e-3, 2000, 8.1e-3L, 1.0L);
    const auto bad3 = judge(true, true, 2, 1e-5, 2000, 1.1e-4L, 0.0L);          // ellipsoid: 10 eps = 1e-4
    const auto ok3  = judge(true, true, 2, 1e-5, 2000, 0.9e-4L, 5.0L);
    const auto bad4 = judge(true, false, 6, 1e-8, 20000, 0.0L, 0.0L);           // must converge
    const auto ok4  = judge(true, false, 8, 1e-8, 20000, 1.0L, 1.0L);           // n > 6: not demanded
    const auto ok5  = judge(true, false, 6, 1e-8, 2000, 1.0L, 1.0L);            // budget < 20000: not demanded
    const auto ok6  = judge(false, false, 3, 1e-8, 20000, 1.0L, 1.0L);          // bundle, not converged: nothing claimed
    const auto bad7 = judge(false, true, 1, 1e-3, 100, std::numeric_limits<long double>::quiet_NaN(), 0.0L);
    return !bad1.what.empty() && ok1.what.empty() && !bad2.what.empty() && !bad3.what.empty() && ok3.what.empty() &&
           !bad4.what.empty() && ok4.what.empty() && ok5.what.empty() && ok6.what.empty() && !bad7.what.empty();
}
} // namespace

int main(int argc, char** argv)
{
    const auto args  = parse_args(argc, argv);
    const auto stage = args.stage.empty() ? "bundle" : args.stage;
    if (stage != "bundle" && stage != "ellipsoid")
    {
        std::fprintf(stderr, "unknown stage %s\n", stage.c_str());
        return 2;
    }
    const bool ell = stage == "ellipsoid";
    report_t   r("c03/" + stage, args);

    // Determinism: runs must not depend on what malloc happens to return (bundle_t::delete_largest used to read a slot that
    // was never written when bundle::max_size = 2, repaired in d147349). glibc's M_PERTURB gives fresh heap memory a fixed
    // content; C03_PERTURB selects another byte for experiments.
    const auto* const perturb_env = std::getenv("C03_PERTURB");
    const int         perturb     = perturb_env != nullptr ? std::atoi(perturb_env) : 0x55;
    mallopt(M_PERTURB, perturb);
    r.axis("heap.M_PERTURB", jint(perturb));

    // tier-dependent alphabets (overridable for experiments)
    const auto ns     = parse_list(args.get("ns", args.thorough() ? "1,2,3,4,6,8" : "1,2,3,6"));
    const auto bsizes = parse_list(args.get("bsizes", "2,3,4,5,20,100"));
    const auto mevals = parse_list(args.get("max_evals", ell ? "100,2000,20000" : (args.thorough() ? "100,2000,20000" : "100,2000")));
    // (epsilon, max_evals) pairs. Bundle stage: the 20000-evaluation budget is combined with epsilon = 1e-8 only (every
    // bundle iteration solves a QP of the bundle size; a run that has not converged at 1e-3 / 1e-5 within 2000
    // evaluations stagnates and would only burn another 9000 QPs). Ellipsoid stage: the full product.
    const bool all_pairs = ell || args.geti("all_pairs", 0) != 0;
    std::vector<std::pair<double, long>> budgets;
    std::vector<std::string>             budget_names;
    for (const auto me : mevals)
    {
        for (const auto eps : EPSS)
        {
            if (all_pairs || me < 20000 || eps <= 1e-8)
            {
                budgets.emplace_back(eps, me);
                char buf[64];
                std::snprintf(buf, sizeof(buf), "(%g,%ld)", eps, me);
                budget_names.emplace_back(buf);
            }
        }
    }
    const auto npsets = static_cast<uint64_t>(args.geti("psets", args.thorough() ? 5 : 3));
    const bool trace  = std::getenv("C03_TRACE") != nullptr;

    struct sigaction sa{};
    sa.sa_handler = on_timer;
    sigemptyset(&sa.sa_mask);
    sigaction(SIGVTALRM, &sa, nullptr);

    (void)solver_t::all(); // build the factory once, before any child is forked
    {
        // the message format between child and parent must round-trip
        result_t a, b;
        a.status = solver_status::converged;
        a.x      = {1.0 / 3.0, -0.0, std::numeric_limits<double>::infinity()};
        a.fx     = 1e-300;
        a.evals  = 77;
        a.cpu_s  = 0.125;
        if (!decode_result(encode(a), b) || b.x.size() != 3 || b.x[0] != a.x[0] || !std::isinf(b.x[2]) || b.fx != a.fx ||
            b.status != a.status || b.evals != 77 || b.aborted || decode_result(encode(a).substr(0, 20), b))
        {
            std::fprintf(stderr, "result encoding self-test failed\n");
            return 2;
        }
    }
    if (!selftest_oracle())
    {
        std::fprintf(stderr, "oracle self-test failed\n");
        return 2;
    }
    if (!selftest_functions(ns))
    {
        return 2;
    }

    // axis order: the (even-sized) axes that predict the cost of a run come first (slowest), the odd-sized ones last,
    // so that `index % 16` spreads the expensive corner (bundle size 100, large n) evenly over the shards
    lattice_t lat;
    size_t    ax_bs = 0, ax_s = 0;
    if (!ell)
    {
        ax_bs = lat.axis("bundle::max_size", bsizes.size(), jarr_num(bsizes));
    }
    const auto ax_n  = lat.axis("n", ns.size(), jarr_num(ns));
    const auto ax_k  = lat.axis("norm", KINDS.size(), jarr_str(KINDS));
    const auto ax_mu = lat.axis("mu", MUS.size(), jarr_num(MUS));
    const auto ax_a  = lat.axis("A", ANAMES.size(), jarr_str(ANAMES));
    // (x0 direction, csearch / prox parameter set) pairs: the alternative parameter sets (thorough tier) are combined
    // with the two diagonal starting directions only (from x* + 4 e1 / x* - 4 en a problem with diagonal A is 1-D)
    std::vector<std::pair<int, int>> starts;
    std::vector<std::string>         start_names;
    for (uint64_t ps = 0; ps < (ell ? 1U : npsets); ++ps)
    {
        for (int u_i = 0; u_i < 4; ++u_i)
        {
            if (ps == 0 || u_i >= 2 || args.geti("all_pairs", 0) != 0)
            {
                starts.emplace_back(u_i, static_cast<int>(ps));
                start_names.push_back(ell ? UNAMES[static_cast<size_t>(u_i)]
                                          : "(" + UNAMES[static_cast<size_t>(u_i)] + "; " + PSETS[ps].substr(0, PSETS[ps].find('(')) + ")");
            }
        }
    }
    const auto ax_u  = lat.axis(ell ? "x0=xstar+4u" : "(x0=xstar+4u; csearch/prox parameters)", starts.size(), jarr_str(start_names));
    const auto ax_xs = lat.axis("xstar", XSNAMES.size(), jarr_str(XSNAMES));
    const auto ax_b  = lat.axis("(epsilon,max_evals)", budgets.size(), jarr_str(budget_names));
    if (!ell)
    {
        ax_s = lat.axis("solver", BSOLVERS.size(), jarr_str(BSOLVERS));
        r.axis("bundle.parameter_sets", jarr_str(std::vector<std::string>(PSETS.begin(), PSETS.begin() + static_cast<long>(npsets))));
    }
    lat.describe(r, stage + ".");
    r.axis(stage + ".function", jstr("f(x) = ||A'(x-x*)||_p + (mu/2)||x-x*||^2, A' = A for p=1 and sqrt(n)*A for p=inf "
                                     "(sharp: f(x)-f* >= ||x-x*||_2, checked by the self-test), f* = 0; sub-gradient: "
                                     "A'^T sign(r) with sign(0)=0 (p=1), sign(r_k) row_k for the first arg-max k (p=inf)"));
    r.axis(stage + ".n=1", jstr("at n=1 the duplicates (A in {diag, Givens} = I, xstar (1..n)*3/n = 3, u in {ones, "
                                "alternating} = e1) are skipped, not counted (u = ones stands for e1 with the "
                                "alternative parameter sets)"));
    if (ell)
    {
        r.axis("ellipsoid.R", jnum(ELL_R));
    }

    struct timed_t
    {
        double   cpu;
        uint64_t index;
    };
    std::vector<timed_t>  times;
    std::vector<uint64_t> deferred; // aborted by the watchdog: re-run alone at the end
    double                median     = 0.0;
    const double          floor_s    = static_cast<double>(args.geti("watchdog", args.thorough() ? 120 : 60));
    bool                  capped     = false;
    uint64_t              crashes    = 0;
    std::map<std::string, std::pair<long double, uint64_t>> worst; // solver -> (max gap/bound, case)

    const auto decode = [&](const std::vector<uint64_t>& d)
    {
        case_t c;
        c.n         = static_cast<int>(ns[d[ax_n]]);
        c.kind      = static_cast<int>(d[ax_k]);
        c.mu_i      = static_cast<int>(d[ax_mu]);
        c.a_i       = static_cast<int>(d[ax_a]);
        c.xs_i      = static_cast<int>(d[ax_xs]);
        c.u_i       = starts[d[ax_u]].first;
        c.pset      = starts[d[ax_u]].second;
        c.eps       = budgets[d[ax_b]].first;
        c.max_evals = budgets[d[ax_b]].second;
        if (!ell)
        {
            c.bsize  = bsizes[d[ax_bs]];
            c.solver = BSOLVERS[d[ax_s]];
        }
        return c;
    };

    const auto evaluate = [&](const uint64_t index, const case_t& c, const double limit_s, const bool second_try)
    {
        const auto tag   = "run:" + std::to_string(index);
        const auto A     = make_A(c.n, c.a_i, c.kind);
        const auto xstar = make_xstar(c.n, c.xs_i);
        const auto u     = make_u(c.n, c.u_i);
        auto       x0    = xstar;
        for (size_t i = 0; i < x0.size(); ++i)
        {
            x0[i] += RADIUS * u[i];
        }
        const auto res = run(c, A, xstar, x0, limit_s, tag);
        times.push_back({res.cpu_s, index});

        const auto describe = [&]()
        {
            return jobj({{"solver", jstr(c.solver)},
                         {"n", jint(c.n)},
                         {"norm", jstr(KINDS[static_cast<size_t>(c.kind)])},
                         {"mu", jnum(MUS[static_cast<size_t>(c.mu_i)])},
                         {"A", jstr(ANAMES[static_cast<size_t>(c.a_i)] + (c.kind == 1 ? " * sqrt(n)" : ""))},
                         {"A_rows", jarr_num(A)},
                         {"xstar", jarr_num(xstar)},
                         {"x0", jarr_num(x0)},
                         {"epsilon", jnum(c.eps)},
                         {"max_evals", jint(c.max_evals)},
                         {"bundle_max_size", jint(c.bsize)},
                         {"parameters", jstr(ell ? "R=10" : PSETS[static_cast<size_t>(c.pset)])}});
        };

        if (res.crashed)
        {
            // outside of what the property states (it speaks about returned states): recorded, never judged
            const auto how = WIFSIGNALED(res.wait_status) ? "signal-" + std::to_string(WTERMSIG(res.wait_status))
                                                          : "exit-" + std::to_string(WEXITSTATUS(res.wait_status));
            r.outcome(c.solver + "/CRASHED(" + how + ")/bundle::max_size=" + std::to_string(c.bsize));
            if (++crashes <= 2)
            {
                r.note("crashed." + tag, describe());
            }
            if (trace)
            {
                std::fprintf(stderr, "TRACE %s %s n=%d bs=%ld CRASHED %s\n", tag.c_str(), c.solver.c_str(), c.n, c.bsize, how.c_str());
            }
            return;
        }
        if (res.aborted)
        {
            if (!second_try)
            {
                deferred.push_back(index);
                r.outcome(c.solver + "/watchdog:deferred-for-a-second-run");
            }
            else
            {
                r.outcome(c.solver + "/watchdog:aborted-twice(potential-hang)");
                r.cap("run " + tag + " exceeded the CPU watchdog twice (" + std::to_string(limit_s) + " s): not judged");
                r.note("potential_hang." + tag, describe());
            }
            return;
        }
        r.evaluations += 1;
        if (!res.threw.empty())
        {
            r.outcome(c.solver + "/threw");
            r.note("threw." + tag, jobj({{"what", jstr(res.threw)}, {"case", describe()}}));
            return;
        }
        const bool converged = res.status == solver_status::converged;
        const auto t         = reference(c.n, c.kind, MUS[static_cast<size_t>(c.mu_i)], A, xstar, res.x);
        const auto v         = judge(ell, converged, c.n, c.eps, c.max_evals, t.gap, t.dist);
        auto       name      = c.solver + "/" + status_name(res.status);
        if (converged)
        {
            ++r.nontrivial;
            name += "/" + ratio_bucket(t.gap, v.bound);
            auto& w = worst[c.solver];
            if (t.gap / v.bound > w.first)
            {
                w = {t.gap / v.bound, index};
            }
        }
        r.outcome(name);
        if (res.evals > static_cast<uint64_t>(c.max_evals) + 8U)
        {
            // every vgrad(x, g) counts as two evaluations of the budget: more than max_evals calls is an overrun
            r.outcome(c.solver + "/more-function-calls-than-max_evals");
        }
        if (trace)
        {
            std::fprintf(stderr, "TRACE %s %s n=%d %s mu=%g A=%d xs=%d u=%d eps=%g me=%ld bs=%ld ps=%d -> %s calls=%llu cpu=%.4f gap=%.3Lg dist=%.3Lg bound=%.3Lg\n",
                         tag.c_str(), c.solver.c_str(), c.n, KINDS[static_cast<size_t>(c.kind)].c_str(),
                         MUS[static_cast<size_t>(c.mu_i)], c.a_i, c.xs_i, c.u_i, c.eps, c.max_evals, c.bsize, c.pset,
                         status_name(res.status), static_cast<unsigned long long>(res.evals), res.cpu_s, t.gap, t.dist, v.bound);
        }
        if (!v.what.empty())
        {
            const auto fname = KINDS[static_cast<size_t>(c.kind)] + (c.mu_i != 0 ? "+quad" : "");
            char epsbuf[32];
            std::snprintf(epsbuf, sizeof(epsbuf), "%g", c.eps);
            const auto params = ell ? std::string() : ":params=" + PSETS[static_cast<size_t>(c.pset)].substr(0, PSETS[static_cast<size_t>(c.pset)].find('('));
            r.violation(c.solver + ":" + v.what + ":eps=" + epsbuf + ":" + fname + params, tag,
                        jobj({{"case", describe()},
                              {"status", jstr(status_name(res.status))},
                              {"x", jarr_num(res.x)},
                              {"reported_fx", jnum(res.fx)},
                              {"gap f(x)-f*", jnum(static_cast<double>(t.gap))},
                              {"dist ||x-x*||", jnum(static_cast<double>(t.dist))},
                              {"bound", jnum(static_cast<double>(v.bound))},
                              {"function_calls", jint(res.evals)}}));
        }
        if (index % 997 == 0)
        {
            r.sample(jobj({{"case", describe()},
                           {"status", jstr(status_name(res.status))},
                           {"gap", jnum(static_cast<double>(t.gap))},
                           {"bound", jnum(static_cast<double>(v.bound))},
                           {"function_calls", jint(res.evals)}}));
        }
    };

    uint64_t since_median = 0;
    for_each_case(lat, r, "run", [&](const uint64_t index, const std::vector<uint64_t>& d) {
        const auto c = decode(d);
        if (c.n == 1 && (c.a_i >= 2 || c.xs_i == 2 || c.u_i == 3 || (c.u_i == 2 && c.pset == 0)))
        {
            r.outcome("skipped:duplicate-at-n=1");
            return;
        }
        if (args.one.empty() && r.out_of_time())
        {
            if (!capped)
            {
                r.cap("deadline hit in lattice 'run' at case " + std::to_string(index) + " of " + std::to_string(lat.size()));
                capped = true;
            }
            return;
        }
        // a run that needs more than 50x the median CPU time of the runs so far (and more than the floor) is a
        // potential hang: it is aborted at its next function evaluation and re-run alone at the end
        if (++since_median >= 64 && !times.empty())
        {
            since_median = 0;
            auto copy    = times;
            std::nth_element(copy.begin(), copy.begin() + static_cast<long>(copy.size() / 2), copy.end(),
                             [](const timed_t& a, const timed_t& b) { return a.cpu < b.cpu; });
            median = copy[copy.size() / 2].cpu;
        }
        evaluate(index, c, std::max(floor_s, 50.0 * median), false);
    });

    // second chance for the runs the watchdog interrupted: alone, with four times the limit
    if (args.one.empty())
    {
        const auto again = deferred;
        for (const auto index : again)
        {
            evaluate(index, decode(lat.digits(index)), 4.0 * std::max(floor_s, 50.0 * median), true);
        }
    }

    if (crashes > 0)
    {
        r.cap(std::to_string(crashes) + " runs died inside the library (signal in the isolated child) and could not be judged");
    }

    // per-shard records (bin/check keeps the first shard's; all of them stay in build/main/out/C03/*.json)
    for (const auto& [solver, w] : worst)
    {
        r.note("max_gap_over_bound." + solver,
               jobj({{"ratio", jnum(static_cast<double>(w.first))}, {"case", jstr("run:" + std::to_string(w.second))}}));
    }
    if (!times.empty())
    {
        auto copy = times;
        std::sort(copy.begin(), copy.end(), [](const timed_t& a, const timed_t& b) { return a.cpu < b.cpu; });
        r.note("cpu_s_per_run", jobj({{"median", jnum(copy[copy.size() / 2].cpu)},
                                      {"p99", jnum(copy[copy.size() * 99 / 100].cpu)},
                                      {"max", jnum(copy.back().cpu)},
                                      {"max_case", jstr("run:" + std::to_string(copy.back().index))}}));
        uint64_t slow = 0;
        for (const auto& t : copy)
        {
            slow += (t.cpu > 50.0 * copy[copy.size() / 2].cpu && t.cpu > 1.0) ? 1U : 0U;
        }
        r.note("runs_slower_than_50x_median_and_1s", jint(slow));
    }
    return r.finish();
}
