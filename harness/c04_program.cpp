// C04 — LP/QP interior point: `converged` means feasible and optimal as stated (E3, bounded exhaustive).
//
// stages (selected with --stage):
//   oracle  : the exact-rational oracle (c04_rational.h) against a brute-force search over a half-integer grid done
//             in plain integer arithmetic (no solver involved): every small n=2 program, a thinned n=3 list
//   small   : every small integer-coefficient LP / convex QP of the stated shape, decided exactly (with a verified
//             certificate), solved by program::solver_t from the default x0 and from a strictly feasible lattice
//             point; every `converged` answer is held to the clauses of the statement
//   kkt     : KKT-constructed programs (n up to 12, magnitudes 1e-2..1e2), f* = f(x*) by construction
//   restate : the feasible and bounded n=2, m=3 programs of `small` and every program of `kkt`, restated
//             equivalently (equality rows duplicated / combined / rescaled, inequality rows rescaled, objective
//             rescaled, variables and rows permuted) and held to the same clauses of the restated program against
//             the optimum of the original one
#include "c04_rational.h"
#include "verif.h"
#include <algorithm>
#include <array>
#include <nano/program/solver.h>

using namespace nano;
using namespace verif;

namespace
{
using ld = long double;
using qd = __float128; ///< products of two doubles are exact, sums are rounded at 2^-113: f(x) without cancellation noise

qd qabs(const qd v)
{
    return v < 0 ? -v : v;
}

// ------------------------------------------------------------------------------------------------------------------
// a program in doubles, exactly as it is handed to the library ("as the caller stated it")
struct dprog_t
{
    int                 n    = 0;
    int                 p    = 0;
    int                 m    = 0;
    bool                quad = false;
    std::vector<double> Q, c, A, b, G, h; // row-major

    /// objective at a point given in doubles, evaluated in binary128 (the solver may return points of size 1e6 on an
    /// unbounded optimal face, where the terms of x'Qx cancel by 20 orders of magnitude)
    qd value(const std::vector<ld>& x) const
    {
        qd f = 0;
        for (int i = 0; i < n; ++i)
        {
            f += static_cast<qd>(c[static_cast<size_t>(i)]) * static_cast<qd>(x[static_cast<size_t>(i)]);
        }
        if (quad)
        {
            qd q = 0;
            for (int i = 0; i < n; ++i)
            {
                for (int j = 0; j < n; ++j)
                {
                    q += static_cast<qd>(x[static_cast<size_t>(i)]) * static_cast<qd>(Q[static_cast<size_t>(i * n + j)]) *
                         static_cast<qd>(x[static_cast<size_t>(j)]);
                }
            }
            f += q / 2;
        }
        return f;
    }

    /// sum of the absolute values of the terms of the objective at x
    ld magnitude(const std::vector<ld>& x) const
    {
        ld f = 0;
        for (int i = 0; i < n; ++i)
        {
            f += std::fabs(static_cast<ld>(c[static_cast<size_t>(i)]) * x[static_cast<size_t>(i)]);
        }
        if (quad)
        {
            for (int i = 0; i < n; ++i)
            {
                for (int j = 0; j < n; ++j)
                {
                    f += std::fabs(x[static_cast<size_t>(i)] * static_cast<ld>(Q[static_cast<size_t>(i * n + j)]) *
                                   x[static_cast<size_t>(j)]) /
                         2;
                }
            }
        }
        return f;
    }

    std::string json() const
    {
        return jobj({{"n", jint(n)},
                     {"Q", jarr_num(Q)},
                     {"c", jarr_num(c)},
                     {"A", jarr_num(A)},
                     {"b", jarr_num(b)},
                     {"G", jarr_num(G)},
                     {"h", jarr_num(h)}});
    }
};

ld norm_inf(const std::vector<double>& v)
{
    ld r = 0;
    for (const auto x : v)
    {
        r = std::max(r, std::fabs(static_cast<ld>(x)));
    }
    return r;
}

ld norm_2(const std::vector<double>& v)
{
    ld r = 0;
    for (const auto x : v)
    {
        r += static_cast<ld>(x) * static_cast<ld>(x);
    }
    return std::sqrt(r);
}

// ------------------------------------------------------------------------------------------------------------------
// the library under test
matrix_t to_matrix(const std::vector<double>& v, const int rows, const int cols)
{
    auto M = matrix_t{rows, cols};
    for (int i = 0; i < rows; ++i)
    {
        for (int j = 0; j < cols; ++j)
        {
            M(i, j) = v[static_cast<size_t>(i * cols + j)];
        }
    }
    return M;
}

vector_t to_vector(const std::vector<double>& v)
{
    auto x = vector_t{static_cast<tensor_size_t>(v.size())};
    for (size_t i = 0; i < v.size(); ++i)
    {
        x(static_cast<tensor_size_t>(i)) = v[i];
    }
    return x;
}

std::vector<double> from_vector(const vector_t& x)
{
    std::vector<double> v(static_cast<size_t>(x.size()));
    for (size_t i = 0; i < v.size(); ++i)
    {
        v[i] = x(static_cast<tensor_size_t>(i));
    }
    return v;
}

const char* scat(const solver_status s)
{
    switch (s)
    {
    case solver_status::max_iters: return "max_iters";
    case solver_status::converged: return "converged";
    case solver_status::failed: return "failed";
    case solver_status::unfeasible: return "unfeasible";
    case solver_status::unbounded: return "unbounded";
    default: return "unknown-status";
    }
}

struct answer_t
{
    solver_status       status = solver_status::failed;
    std::vector<double> x, u, v;
    double              fx    = 0;
    double              kkt   = 0;
    double              rcond = 0;
    int                 iters = 0;
    double              lib_eq_deviation   = 0; ///< the library's own equality_t::deviation(x) (converged answers only)
    double              lib_ineq_deviation = 0; ///< the library's own inequality_t::deviation(x)

    bool converged() const { return status == solver_status::converged; }

    std::string json() const
    {
        return jobj({{"status", jstr(scat(status))},
                     {"x", jarr_num(x)},
                     {"fx", jnum(fx)},
                     {"u", jarr_num(u)},
                     {"v", jarr_num(v)},
                     {"iters", jint(iters)},
                     {"kkt", jnum(kkt)},
                     {"ldlt_rcond", jnum(rcond)},
                     {"library_equality_deviation(x)", jnum(lib_eq_deviation)},
                     {"library_inequality_deviation(x)", jnum(lib_ineq_deviation)}});
    }
};

template <class tprogram>
void constrain(tprogram& program, const dprog_t& P)
{
    // the same calls make_linear / make_quadratic perform
    if (P.p > 0 && P.m > 0)
    {
        program.constrain(program::make_equality(to_matrix(P.A, P.p, P.n), to_vector(P.b)),
                          program::make_inequality(to_matrix(P.G, P.m, P.n), to_vector(P.h)));
    }
    else if (P.p > 0)
    {
        program.constrain(program::make_equality(to_matrix(P.A, P.p, P.n), to_vector(P.b)));
    }
    else if (P.m > 0)
    {
        program.constrain(program::make_inequality(to_matrix(P.G, P.m, P.n), to_vector(P.h)));
    }
}

answer_t run_solver(const dprog_t& P, const std::vector<double>* x0)
{
    static const auto solver = program::solver_t{};
    static const auto logger = make_null_logger();

    const auto solve = [&](const auto& program)
    { return x0 != nullptr ? solver.solve(program, to_vector(*x0), logger) : solver.solve(program, logger); };

    program::solver_state_t state;
    answer_t                a;
    const auto              deviations = [&](const auto& program)
    {
        if (state.m_status == solver_status::converged && state.m_x.size() == P.n)
        {
            a.lib_eq_deviation   = program.m_eq.valid() ? program.m_eq.deviation(state.m_x) : 0.0;
            a.lib_ineq_deviation = program.m_ineq.valid() ? program.m_ineq.deviation(state.m_x) : 0.0;
        }
    };
    if (P.quad)
    {
        auto program = program::quadratic_program_t{to_matrix(P.Q, P.n, P.n), to_vector(P.c)};
        constrain(program, P);
        state = solve(program);
        deviations(program);
    }
    else
    {
        auto program = program::linear_program_t{to_vector(P.c)};
        constrain(program, P);
        state = solve(program);
        deviations(program);
    }
    a.status = state.m_status;
    a.x      = from_vector(state.m_x);
    a.u      = from_vector(state.m_u);
    a.v      = from_vector(state.m_v);
    a.fx     = state.m_fx;
    a.kkt    = state.m_kkt;
    a.rcond  = state.m_ldlt_rcond;
    a.iters  = state.m_iters;
    return a;
}

// ------------------------------------------------------------------------------------------------------------------
// what the oracle knows about the optimum, in the coordinates of the ORIGINAL program
struct truth_t
{
    qd               fstar = 0;    ///< optimum of the program as stated to the solver (objective scale applied)
    std::vector<int> perm;         ///< stated variable j is original variable perm[j] (empty = identity)
    std::vector<ld>  xstar;        ///< an optimal point (original coordinates)
    bool             has_set = false;
    std::vector<std::vector<ld>> E, F; ///< optimal set { E y = e, F y <= f } (original coordinates)
    std::vector<ld>              e, f;
    std::string                  fstar_text;
    // recession cone { E d = 0, F d <= 0 } of the optimal set in exact integers (original coordinates)
    size_t    cone_dims = 0;
    c04::rmat coneE, coneF;
};

/// is the optimal set PROVABLY unbounded? (exact; `false` also when it is not decided)
bool optimal_set_unbounded(const truth_t& T)
{
    const auto n = T.cone_dims;
    if (n == 0)
    {
        return false;
    }
    // a whole line: rank [E; F] < n
    auto M = T.coneE;
    M.insert(M.end(), T.coneF.begin(), T.coneF.end());
    if (c04::rank_of(M, n) < n)
    {
        return true;
    }
    if (T.coneF.size() > 8)
    {
        return false;
    }
    // a ray: some d with d_j = +-1
    for (size_t j = 0; j < n; ++j)
    {
        for (const int sgn : {1, -1})
        {
            c04::poly_t K;
            K.dims = n;
            K.E    = T.coneE;
            K.e.assign(K.E.size(), c04::rat());
            c04::rvec row(n);
            row[j] = c04::rat(1);
            K.E.push_back(row);
            K.e.emplace_back(sgn);
            K.F = T.coneF;
            K.f.assign(K.F.size(), c04::rat());
            c04::rvec d;
            if (c04::find_point(K, d))
            {
                return true;
            }
        }
    }
    return false;
}

ld dist2(const std::vector<ld>& a, const std::vector<ld>& b)
{
    ld s = 0;
    for (size_t i = 0; i < a.size(); ++i)
    {
        s += (a[i] - b[i]) * (a[i] - b[i]);
    }
    return std::sqrt(s);
}

/// distance from x to the optimal set: the closest of the projections onto the affine hulls of its faces that land
/// inside the set (any member of the set gives an upper bound of the distance, i.e. a bound that is never too strict)
ld distance_to_optimal_set(const truth_t& T, const std::vector<ld>& x)
{
    ld best = dist2(x, T.xstar);
    if (!T.has_set || T.F.size() > 8)
    {
        return best;
    }
    const auto n = x.size();
    const auto m = T.F.size();
    for (uint32_t I = 0; I < (1U << m); ++I)
    {
        std::vector<std::vector<ld>> q; // orthonormal rows
        std::vector<ld>              rho;
        bool                         consistent = true;
        const auto                   add        = [&](const std::vector<ld>& row, const ld rhs)
        {
            auto w = row;
            auto r = rhs;
            for (size_t k = 0; k < q.size(); ++k)
            {
                ld d = 0;
                for (size_t j = 0; j < n; ++j)
                {
                    d += row[j] * q[k][j];
                }
                for (size_t j = 0; j < n; ++j)
                {
                    w[j] -= d * q[k][j];
                }
                r -= d * rho[k];
            }
            ld nw = 0;
            ld nr = 0;
            for (size_t j = 0; j < n; ++j)
            {
                nw += w[j] * w[j];
                nr += row[j] * row[j];
            }
            nw = std::sqrt(nw);
            nr = std::sqrt(nr);
            if (nw <= 1e-10L * (1 + nr))
            {
                if (std::fabs(r) > 1e-9L * (1 + std::fabs(rhs)))
                {
                    consistent = false;
                }
                return;
            }
            for (size_t j = 0; j < n; ++j)
            {
                w[j] /= nw;
            }
            q.push_back(w);
            rho.push_back(r / nw);
        };
        for (size_t i = 0; i < T.E.size(); ++i)
        {
            add(T.E[i], T.e[i]);
        }
        for (size_t i = 0; i < m && consistent; ++i)
        {
            if ((I >> i) & 1U)
            {
                add(T.F[i], T.f[i]);
            }
        }
        if (!consistent)
        {
            continue;
        }
        auto y = x;
        for (size_t k = 0; k < q.size(); ++k)
        {
            ld d = -rho[k];
            for (size_t j = 0; j < n; ++j)
            {
                d += q[k][j] * x[j];
            }
            for (size_t j = 0; j < n; ++j)
            {
                y[j] -= d * q[k][j];
            }
        }
        bool inside = true;
        for (size_t i = 0; i < T.E.size() && inside; ++i)
        {
            ld s = -T.e[i];
            for (size_t j = 0; j < n; ++j)
            {
                s += T.E[i][j] * y[j];
            }
            inside = std::fabs(s) <= 1e-9L * (1 + std::fabs(T.e[i]));
        }
        for (size_t i = 0; i < m && inside; ++i)
        {
            ld s = -T.f[i];
            for (size_t j = 0; j < n; ++j)
            {
                s += T.F[i][j] * y[j];
            }
            inside = s <= 1e-9L * (1 + std::fabs(T.f[i]));
        }
        if (inside)
        {
            best = std::min(best, dist2(x, y));
        }
    }
    return best;
}

struct finding_t
{
    std::string clause;
    std::string detail;
};

/// the four numerical clauses of the statement, with its constants, for an answer reported `converged`
std::vector<finding_t> check_clauses(const dprog_t& P, const answer_t& a, const truth_t& T)
{
    std::vector<finding_t> out;
    const auto             n = static_cast<size_t>(P.n);
    if (a.x.size() != n)
    {
        out.push_back({"point-has-wrong-size", jobj({{"size", jint(a.x.size())}})});
        return out;
    }
    std::vector<ld> x(n);
    bool            finite = std::isfinite(a.fx);
    for (size_t i = 0; i < n; ++i)
    {
        x[i]   = static_cast<ld>(a.x[i]);
        finite = finite && std::isfinite(a.x[i]);
    }
    for (const auto u : a.u)
    {
        finite = finite && std::isfinite(u);
    }
    for (const auto v : a.v)
    {
        finite = finite && std::isfinite(v);
    }
    if (!finite)
    {
        out.push_back({"not-finite", jobj({{"fx", jnum(a.fx)}})});
        return out;
    }

    // equalities within 1e-6 * (1 + |b|_inf)
    {
        const ld tol   = 1e-6L * (1 + norm_inf(P.b));
        ld       worst = 0;
        int      row   = -1;
        for (int i = 0; i < P.p; ++i)
        {
            qd s = -static_cast<qd>(P.b[static_cast<size_t>(i)]);
            for (size_t j = 0; j < n; ++j)
            {
                s += static_cast<qd>(P.A[static_cast<size_t>(i) * n + j]) * static_cast<qd>(x[j]);
            }
            if (static_cast<ld>(qabs(s)) > worst)
            {
                worst = static_cast<ld>(qabs(s));
                row   = i;
            }
        }
        if (!(worst <= tol))
        {
            out.push_back({"equality-violated", jobj({{"row", jint(row)},
                                                      {"|a.x-b|", jnum(static_cast<double>(worst))},
                                                      {"allowed", jnum(static_cast<double>(tol))}})});
        }
    }
    // inequalities within 1e-6 * (1 + |h|_inf)
    {
        const ld tol   = 1e-6L * (1 + norm_inf(P.h));
        ld       worst = 0;
        int      row   = -1;
        for (int i = 0; i < P.m; ++i)
        {
            qd s = -static_cast<qd>(P.h[static_cast<size_t>(i)]);
            for (size_t j = 0; j < n; ++j)
            {
                s += static_cast<qd>(P.G[static_cast<size_t>(i) * n + j]) * static_cast<qd>(x[j]);
            }
            if (static_cast<ld>(s) > worst)
            {
                worst = static_cast<ld>(s);
                row   = i;
            }
        }
        if (!(worst <= tol))
        {
            out.push_back({"inequality-violated", jobj({{"row", jint(row)},
                                                        {"g.x-h", jnum(static_cast<double>(worst))},
                                                        {"allowed", jnum(static_cast<double>(tol))}})});
        }
    }
    // reported objective vs objective at x, within 1e-6 of the magnitude of its terms
    const qd fx = P.value(x);
    const ld M  = std::max({static_cast<ld>(1e-3), P.quad ? norm_2(P.Q) : static_cast<ld>(0), norm_2(P.c)});
    {
        // floor: the statement itself does not distinguish objective values closer than 1e-8 * M (its optimality
        // bound is at least that); without it the rounding noise of points like x = 3e-16 (fx is computed from
        // x_prev + s*dx, the stored point from x_prev += s*dx) would be reported
        const ld mag     = P.magnitude(x);
        const ld allowed = std::max(1e-6L * mag, 1e-8L * M);
        if (!(static_cast<ld>(qabs(static_cast<qd>(a.fx) - fx)) <= allowed))
        {
            out.push_back({"objective-mismatch", jobj({{"reported", jnum(a.fx)},
                                                       {"f(x)", jnum(static_cast<double>(fx))},
                                                       {"magnitude_of_terms", jnum(static_cast<double>(mag))},
                                                       {"allowed", jnum(static_cast<double>(allowed))}})});
        }
    }
    // |f(x) - f*| <= 1e-8 * M * (1 + |x - x*|_2 + |u|_1 + |v|_1), M = max(1e-3, |Q|_F, |c|_2)
    {
        std::vector<ld> xo(n);
        for (size_t j = 0; j < n; ++j)
        {
            xo[T.perm.empty() ? j : static_cast<size_t>(T.perm[j])] = x[j];
        }
        const ld dist = distance_to_optimal_set(T, xo);
        ld       u1   = 0;
        ld       v1   = 0;
        for (const auto u : a.u)
        {
            u1 += std::fabs(static_cast<ld>(u));
        }
        for (const auto v : a.v)
        {
            v1 += std::fabs(static_cast<ld>(v));
        }
        const ld bound = 1e-8L * M * (1 + dist + u1 + v1);
        const ld gap   = static_cast<ld>(qabs(fx - T.fstar));
        if (!(gap <= bound))
        {
            out.push_back({"suboptimal", jobj({{"f(x)", jnum(static_cast<double>(fx))},
                                               {"fstar", jnum(static_cast<double>(T.fstar))},
                                               {"fstar_exact", jstr(T.fstar_text)},
                                               {"|f(x)-fstar|", jnum(static_cast<double>(gap))},
                                               {"allowed", jnum(static_cast<double>(bound))},
                                               {"M", jnum(static_cast<double>(M))},
                                               {"|x-xstar|", jnum(static_cast<double>(dist))},
                                               {"|u|_1", jnum(static_cast<double>(u1))},
                                               {"|v|_1", jnum(static_cast<double>(v1))}})});
        }
    }
    return out;
}

// ------------------------------------------------------------------------------------------------------------------
// small integer programs
struct iprog_t
{
    int              n = 0;
    std::vector<int> Q; // n*n or empty
    std::vector<int> c;
    std::vector<int> A, b, G, h;

    int p() const { return static_cast<int>(b.size()); }

    int m() const { return static_cast<int>(h.size()); }

    c04::program_t rational() const
    {
        c04::program_t R;
        R.n          = static_cast<size_t>(n);
        const auto N = static_cast<size_t>(n);
        if (!Q.empty())
        {
            R.Q.assign(N, c04::rvec(N));
            for (size_t i = 0; i < N; ++i)
            {
                for (size_t j = 0; j < N; ++j)
                {
                    R.Q[i][j] = c04::rat(Q[i * N + j]);
                }
            }
        }
        for (const auto v : c)
        {
            R.c.emplace_back(v);
        }
        for (size_t i = 0; i < b.size(); ++i)
        {
            c04::rvec row;
            for (size_t j = 0; j < N; ++j)
            {
                row.emplace_back(A[i * N + j]);
            }
            R.A.push_back(row);
            R.b.emplace_back(b[i]);
        }
        for (size_t i = 0; i < h.size(); ++i)
        {
            c04::rvec row;
            for (size_t j = 0; j < N; ++j)
            {
                row.emplace_back(G[i * N + j]);
            }
            R.G.push_back(row);
            R.h.emplace_back(h[i]);
        }
        return R;
    }

    dprog_t doubles() const
    {
        dprog_t P;
        P.n    = n;
        P.p    = p();
        P.m    = m();
        P.quad = !Q.empty();
        P.Q.assign(Q.begin(), Q.end());
        P.c.assign(c.begin(), c.end());
        P.A.assign(A.begin(), A.end());
        P.b.assign(b.begin(), b.end());
        P.G.assign(G.begin(), G.end());
        P.h.assign(h.begin(), h.end());
        return P;
    }
};

truth_t make_truth(const c04::program_t& R, const c04::decision_t& D)
{
    truth_t T;
    T.fstar      = static_cast<qd>(D.fstar.n) / static_cast<qd>(D.fstar.d);
    T.fstar_text = c04::to_string(D.fstar);
    for (const auto& v : D.xstar)
    {
        T.xstar.push_back(v.ld());
    }
    const auto row = [](const c04::rvec& r)
    {
        std::vector<ld> o;
        for (const auto& v : r)
        {
            o.push_back(v.ld());
        }
        return o;
    };
    T.has_set = true;
    for (size_t i = 0; i < R.A.size(); ++i)
    {
        T.E.push_back(row(R.A[i]));
        T.e.push_back(R.b[i].ld());
    }
    if (R.quadratic())
    {
        for (size_t i = 0; i < R.n; ++i)
        {
            T.E.push_back(row(R.Q[i]));
            T.e.push_back(c04::dot(R.Q[i], D.xstar).ld());
        }
    }
    T.E.push_back(row(R.c));
    T.e.push_back(c04::dot(R.c, D.xstar).ld());
    for (size_t i = 0; i < R.G.size(); ++i)
    {
        T.F.push_back(row(R.G[i]));
        T.f.push_back(R.h[i].ld());
    }
    T.cone_dims = R.n;
    T.coneE     = R.A;
    if (R.quadratic())
    {
        T.coneE.insert(T.coneE.end(), R.Q.begin(), R.Q.end());
    }
    T.coneE.push_back(R.c);
    T.coneF = R.G;
    return T;
}

const char* name_of(const c04::verdict v)
{
    switch (v)
    {
    case c04::verdict::infeasible: return "infeasible";
    case c04::verdict::unbounded: return "unbounded";
    default: return "optimal";
    }
}

std::string decision_json(const c04::decision_t& D)
{
    const auto arr = [](const c04::rvec& v)
    {
        std::vector<std::string> s;
        for (const auto& x : v)
        {
            s.push_back(c04::to_string(x));
        }
        return jarr_str(s);
    };
    switch (D.v)
    {
    case c04::verdict::infeasible:
        return jobj({{"verdict", jstr("infeasible")}, {"farkas_z", arr(D.farkas_z)}, {"farkas_y", arr(D.farkas_y)}});
    case c04::verdict::unbounded:
        return jobj({{"verdict", jstr("unbounded")}, {"feasible_point", arr(D.x0)}, {"direction", arr(D.direction)}});
    default:
        return jobj({{"verdict", jstr("optimal")},
                     {"fstar", jstr(c04::to_string(D.fstar))},
                     {"xstar", arr(D.xstar)},
                     {"ustar", arr(D.ustar)},
                     {"vstar", arr(D.vstar)}});
    }
}

// --- alphabets (simplest first) ---
struct atom_t
{
    std::array<int, 3> a{};
    int                h = 0;
};

std::vector<std::array<int, 3>> rows_of(const int n)
{
    // non-zero rows over {-1,0,1}^n ordered by the number of non-zeros, then with +1 before -1
    std::vector<std::array<int, 3>> rows;
    const int                       vals[3] = {0, 1, -1};
    const int                       total   = n == 2 ? 9 : 27;
    for (int nz = 1; nz <= n; ++nz)
    {
        for (int code = 0; code < total; ++code)
        {
            std::array<int, 3> r{};
            int                k  = code;
            int                cn = 0;
            for (int j = n - 1; j >= 0; --j)
            {
                r[static_cast<size_t>(j)] = vals[k % 3];
                k /= 3;
                cn += r[static_cast<size_t>(j)] != 0 ? 1 : 0;
            }
            if (cn == nz)
            {
                rows.push_back(r);
            }
        }
    }
    return rows;
}

void multisets(const int atoms, const int size, std::vector<std::vector<int>>& out)
{
    std::vector<int> idx(static_cast<size_t>(size), 0);
    if (size == 0)
    {
        out.emplace_back();
        return;
    }
    while (true)
    {
        out.push_back(idx);
        int k = size - 1;
        while (k >= 0 && idx[static_cast<size_t>(k)] == atoms - 1)
        {
            --k;
        }
        if (k < 0)
        {
            return;
        }
        const auto v = idx[static_cast<size_t>(k)] + 1;
        for (int j = k; j < size; ++j)
        {
            idx[static_cast<size_t>(j)] = v;
        }
    }
}

struct family_t
{
    int                                n = 2;
    std::vector<std::vector<atom_t>>   sets; ///< canonical (non-decreasing) multisets of (row, h) atoms = modulo row order
    std::vector<size_t>                block_end; ///< index of the first set of the next block
    std::vector<std::string>           block_name;
    std::vector<std::vector<int>>      eqs;  ///< each: empty or (a_1..a_n, b)
    std::vector<std::vector<int>>      cs;   ///< objective vectors
    std::vector<std::vector<int>>      Qs;   ///< n=2 only: distinct non-zero D'D
    std::vector<std::vector<double>>   grid; ///< candidate user x0, by increasing norm
    bool                               pairs = false; ///< equality entries are pairs of rows (possibly dependent / inconsistent)

    void add_block(const std::string& name, const std::vector<atom_t>& atoms, const int size)
    {
        std::vector<std::vector<int>> ms;
        multisets(static_cast<int>(atoms.size()), size, ms);
        for (const auto& s : ms)
        {
            std::vector<atom_t> set;
            for (const auto i : s)
            {
                set.push_back(atoms[static_cast<size_t>(i)]);
            }
            sets.push_back(set);
        }
        block_end.push_back(sets.size());
        block_name.push_back(name);
    }

    size_t sets_upto(const std::string& last_block) const
    {
        for (size_t i = 0; i < block_name.size(); ++i)
        {
            if (block_name[i] == last_block)
            {
                return block_end[i];
            }
        }
        c04::broken("unknown block");
    }

    size_t block_begin(const std::string& block) const
    {
        for (size_t i = 0; i < block_name.size(); ++i)
        {
            if (block_name[i] == block)
            {
                return i == 0 ? 0 : block_end[i - 1];
            }
        }
        c04::broken("unknown block");
    }

    void make_grid(const int steps_per_unit, const int range)
    {
        std::vector<std::pair<long, std::vector<double>>> pts;
        const int                                         K = steps_per_unit * range;
        std::vector<int>                                  k(static_cast<size_t>(n), -K);
        while (true)
        {
            long                nn = 0;
            std::vector<double> pt;
            for (const auto v : k)
            {
                nn += static_cast<long>(v) * v;
                pt.push_back(static_cast<double>(v) / steps_per_unit);
            }
            pts.emplace_back(nn, pt);
            int j = n - 1;
            while (j >= 0 && k[static_cast<size_t>(j)] == K)
            {
                k[static_cast<size_t>(j)] = -K;
                --j;
            }
            if (j < 0)
            {
                break;
            }
            ++k[static_cast<size_t>(j)];
        }
        std::stable_sort(pts.begin(), pts.end(), [](const auto& a, const auto& b) { return a.first < b.first; });
        for (auto& pt : pts)
        {
            grid.push_back(pt.second);
        }
    }
};

family_t make_family2()
{
    family_t F;
    F.n             = 2;
    const auto rows = rows_of(2);
    std::vector<atom_t> atoms;
    for (const auto& r : rows)
    {
        for (const int h : {0, 1, -1, 2})
        {
            atoms.push_back({r, h});
        }
    }
    F.add_block("m=0", atoms, 0);
    F.add_block("m=1", atoms, 1);
    F.add_block("m=2", atoms, 2);
    F.add_block("m=3", atoms, 3);
    F.eqs = {{}, {1, 1, 1}, {1, -1, 0}, {1, 0, 0}};
    for (const auto& r : rows)
    {
        F.cs.push_back({r[0], r[1]});
    }
    // Q = D'D, D over {-1,0,1}^{k x 2}, k in {1,2}: distinct non-zero matrices, rank-1 ones first
    std::vector<std::array<int, 2>> ds = {{0, 0}};
    for (const auto& r : rows)
    {
        ds.push_back({r[0], r[1]});
    }
    for (int pass = 0; pass < 2; ++pass)
    {
        for (const auto& d1 : ds)
        {
            for (const auto& d2 : ds)
            {
                const bool k1 = d2[0] == 0 && d2[1] == 0;
                if ((pass == 0) != k1)
                {
                    continue;
                }
                const std::vector<int> Q = {d1[0] * d1[0] + d2[0] * d2[0], d1[0] * d1[1] + d2[0] * d2[1],
                                            d1[0] * d1[1] + d2[0] * d2[1], d1[1] * d1[1] + d2[1] * d2[1]};
                if (Q == std::vector<int>{0, 0, 0, 0} || std::find(F.Qs.begin(), F.Qs.end(), Q) != F.Qs.end())
                {
                    continue;
                }
                F.Qs.push_back(Q);
            }
        }
    }
    F.make_grid(4, 3);
    return F;
}

family_t make_family3(const bool four_rows)
{
    family_t F;
    F.n             = 3;
    const auto rows = rows_of(3);
    std::vector<atom_t> full;
    for (const auto& r : rows)
    {
        for (const int h : {0, 1})
        {
            full.push_back({r, h});
        }
    }
    const std::vector<std::array<int, 3>> thin_rows = {{1, 0, 0},  {0, 1, 0},  {0, 0, 1},   {-1, 0, 0}, {0, -1, 0},
                                                       {0, 0, -1}, {1, 1, 0},  {1, -1, 0},  {0, 1, -1}, {-1, 0, 1},
                                                       {-1, -1, 0}, {0, -1, -1}, {1, 1, 1}, {-1, -1, -1}};
    std::vector<atom_t> thin;
    for (const auto& r : thin_rows)
    {
        for (const int h : {0, 1})
        {
            thin.push_back({r, h});
        }
    }
    F.eqs = {{}, {1, 1, 1, 1}, {1, -1, 0, 0}, {1, 0, 0, 0}};
    if (four_rows)
    {
        F.add_block("m=4(thin rows)", thin, 4);
        F.cs = {{1, 0, 0}, {0, 1, -1}, {-1, -1, -1}};
    }
    else
    {
        F.add_block("m=2", full, 2);
        F.add_block("m=3", full, 3);
        F.cs = {{1, 0, 0}, {-1, 0, 0}, {0, 1, -1}, {-1, -1, 0}, {1, 1, 1}, {-1, -1, -1}};
    }
    F.make_grid(2, 3);
    return F;
}

/// equality-row PAIRS: all unordered pairs (a row may be paired with itself) over rows x right-hand sides; contains
/// parallel rows with inconsistent right-hand sides, scaled / negated consistent duplicates and independent pairs
void add_equality_pairs(family_t& F, const std::vector<std::vector<int>>& rows, const std::vector<int>& rhs)
{
    std::vector<std::vector<int>> atoms;
    for (const auto& r : rows)
    {
        for (const auto b : rhs)
        {
            auto a = r;
            a.push_back(b);
            atoms.push_back(a);
        }
    }
    F.eqs.clear();
    for (size_t i = 0; i < atoms.size(); ++i)
    {
        for (size_t j = i; j < atoms.size(); ++j)
        {
            auto e = atoms[i];
            e.insert(e.end(), atoms[j].begin(), atoms[j].end());
            F.eqs.push_back(e);
        }
    }
    F.pairs = true;
}

/// n=2, two equality rows, m in {1,2} inequality rows over a thinned alphabet
family_t make_family2e(const bool thorough, const bool quad)
{
    family_t F;
    F.n = 2;
    const std::vector<std::array<int, 3>> rows = {{1, 0, 0}, {0, 1, 0}, {-1, 0, 0}, {0, -1, 0}, {1, 1, 0}, {-1, -1, 0}};
    std::vector<atom_t>                   atoms;
    for (const auto& r : rows)
    {
        for (const int h : thorough ? std::vector<int>{0, 1, 2} : std::vector<int>{0, 2})
        {
            atoms.push_back({r, h});
        }
    }
    F.add_block("m=1", atoms, 1);
    F.add_block("m=2", atoms, 2);
    add_equality_pairs(F, {{1, 1}, {1, -1}, {1, 0}, {2, 2}, {-1, -1}, {2, -2}}, {0, 1, 2});
    const auto full = make_family2();
    if (quad)
    {
        // E1 (rank 1), J = (1,1)'(1,1) (rank 1), I, [[2,1],[1,1]]
        F.Qs = {{1, 0, 0, 0}, {1, 1, 1, 1}, {1, 0, 0, 1}, {2, 1, 1, 1}};
        F.cs = thorough ? full.cs : std::vector<std::vector<int>>{{1, 0}, {0, -1}, {1, 1}, {-1, 1}};
    }
    else
    {
        F.cs = full.cs;
    }
    F.make_grid(4, 3);
    return F;
}

/// n=3, two equality rows, m in {1,2} inequality rows over a small alphabet
family_t make_family3e()
{
    family_t F;
    F.n = 3;
    const std::vector<std::array<int, 3>> rows = {{1, 0, 0},  {0, 1, 0},  {0, 0, 1},  {-1, 0, 0},
                                                  {0, -1, 0}, {0, 0, -1}, {1, 1, 1},  {-1, -1, -1}};
    std::vector<atom_t>                   atoms;
    for (const auto& r : rows)
    {
        for (const int h : {0, 1})
        {
            atoms.push_back({r, h});
        }
    }
    F.add_block("m=1", atoms, 1);
    F.add_block("m=2", atoms, 2);
    add_equality_pairs(F, {{1, 1, 1}, {1, -1, 0}, {0, 0, 1}, {2, 2, 2}}, {0, 1, 2});
    F.cs = {{1, 0, 0}, {-1, 0, 0}, {0, 1, -1}, {-1, -1, 0}, {1, 1, 1}, {-1, -1, -1}};
    F.make_grid(2, 3);
    return F;
}

iprog_t make_iprog(const family_t& F, const std::vector<atom_t>& set, const std::vector<int>& eq,
                   const std::vector<int>& c, const std::vector<int>* Q)
{
    iprog_t P;
    P.n = F.n;
    if (Q != nullptr)
    {
        P.Q = *Q;
    }
    P.c = c;
    // an equality entry is a flat list of rows (a_1..a_n, b)
    const auto w = static_cast<size_t>(F.n) + 1;
    for (size_t r0 = 0; r0 + w <= eq.size(); r0 += w)
    {
        P.A.insert(P.A.end(), eq.begin() + static_cast<long>(r0), eq.begin() + static_cast<long>(r0 + w - 1));
        P.b.push_back(eq[r0 + w - 1]);
    }
    for (const auto& a : set)
    {
        for (int j = 0; j < F.n; ++j)
        {
            P.G.push_back(a.a[static_cast<size_t>(j)]);
        }
        P.h.push_back(a.h);
    }
    return P;
}

/// first lattice point (by increasing norm) strictly inside G x < h; exact in doubles for these values
const std::vector<double>* strictly_feasible_lattice_point(const family_t& F, const iprog_t& P)
{
    const auto n = static_cast<size_t>(P.n);
    for (const auto& pt : F.grid)
    {
        bool ok = true;
        for (size_t i = 0; i < P.h.size() && ok; ++i)
        {
            double s = 0;
            for (size_t j = 0; j < n; ++j)
            {
                s += P.G[i * n + j] * pt[j];
            }
            ok = s < P.h[i];
        }
        if (ok)
        {
            return &pt;
        }
    }
    return nullptr;
}

std::string axis_sets(const family_t& F, const size_t count)
{
    std::string blocks;
    size_t      begin = 0;
    for (size_t i = 0; i < F.block_end.size() && begin < count; ++i)
    {
        blocks += (i ? ", " : "") + F.block_name[i] + ": " + std::to_string(F.block_end[i] - begin) + " multisets";
        begin = F.block_end[i];
    }
    return jstr("inequality rows as multisets (= modulo row order) of (row, h) atoms, row over non-zero {-1,0,1}^n, "
                "blocks: " +
                blocks);
}

std::string axis_vectors(const std::vector<std::vector<int>>& v)
{
    return jarr(v.begin(), v.end(), [](const std::vector<int>& x) { return jarr_num(x); });
}

// ------------------------------------------------------------------------------------------------------------------
// restatements
const std::vector<std::string>& restatement_names()
{
    static const std::vector<std::string> names = {"eq-duplicated", "eq-combined", "ineq-x0.5",  "ineq-x2",
                                                   "ineq-x1000",    "ineq-xmixed", "obj-x0.01",  "obj-x100",
                                                   "eq-x-1",        "eq-x7",       "permuted"};
    return names;
}

/// returns false when the restatement does not apply (no equality rows ...)
bool restate(const dprog_t& P, const size_t which, dprog_t& R, std::vector<int>& perm, double& objscale)
{
    R        = P;
    objscale = 1.0;
    perm.clear();
    const auto n = static_cast<size_t>(P.n);
    const auto p = static_cast<size_t>(P.p);
    const auto m = static_cast<size_t>(P.m);
    switch (which)
    {
    case 0: // every equality row stated twice
        if (p == 0)
        {
            return false;
        }
        R.A.insert(R.A.end(), P.A.begin(), P.A.end());
        R.b.insert(R.b.end(), P.b.begin(), P.b.end());
        R.p = 2 * P.p;
        return true;
    case 1: // plus one linear combination per row: 0.25 row_i + 1.5 row_{i+1}
        if (p == 0)
        {
            return false;
        }
        for (size_t i = 0; i < p; ++i)
        {
            const auto k = (i + 1) % p;
            for (size_t j = 0; j < n; ++j)
            {
                R.A.push_back(0.25 * P.A[i * n + j] + 1.5 * P.A[k * n + j]);
            }
            R.b.push_back(0.25 * P.b[i] + 1.5 * P.b[k]);
        }
        R.p = 2 * P.p;
        return true;
    case 2:
    case 3:
    case 4:
    case 5:
    {
        if (m == 0)
        {
            return false;
        }
        const double scales[3] = {0.5, 2.0, 1e3};
        for (size_t i = 0; i < m; ++i)
        {
            const auto s = which == 5 ? scales[i % 3] : scales[which - 2];
            for (size_t j = 0; j < n; ++j)
            {
                R.G[i * n + j] = s * P.G[i * n + j];
            }
            R.h[i] = s * P.h[i];
        }
        return true;
    }
    case 6:
    case 7:
        objscale = which == 6 ? 1e-2 : 1e2;
        for (auto& v : R.Q)
        {
            v *= objscale;
        }
        for (auto& v : R.c)
        {
            v *= objscale;
        }
        return true;
    case 8:
    case 9:
    {
        if (p == 0)
        {
            return false;
        }
        const auto s = which == 8 ? -1.0 : 7.0;
        for (auto& v : R.A)
        {
            v *= s;
        }
        for (auto& v : R.b)
        {
            v *= s;
        }
        return true;
    }
    default: // variables reversed, inequality rows rotated by one, equality rows reversed
    {
        perm.resize(n);
        for (size_t j = 0; j < n; ++j)
        {
            perm[j] = static_cast<int>(n - 1 - j);
        }
        for (size_t j = 0; j < n; ++j)
        {
            R.c[j] = P.c[static_cast<size_t>(perm[j])];
        }
        if (P.quad)
        {
            for (size_t i = 0; i < n; ++i)
            {
                for (size_t j = 0; j < n; ++j)
                {
                    R.Q[i * n + j] = P.Q[static_cast<size_t>(perm[i]) * n + static_cast<size_t>(perm[j])];
                }
            }
        }
        for (size_t i = 0; i < p; ++i)
        {
            const auto src = p - 1 - i;
            for (size_t j = 0; j < n; ++j)
            {
                R.A[i * n + j] = P.A[src * n + static_cast<size_t>(perm[j])];
            }
            R.b[i] = P.b[src];
        }
        for (size_t i = 0; i < m; ++i)
        {
            const auto src = (i + 1) % m;
            for (size_t j = 0; j < n; ++j)
            {
                R.G[i * n + j] = P.G[src * n + static_cast<size_t>(perm[j])];
            }
            R.h[i] = P.h[src];
        }
        return true;
    }
    }
}

// ------------------------------------------------------------------------------------------------------------------
// counters that end up as notes (summed over shards by the driver)
struct tally_t
{
    std::map<std::string, uint64_t> n;

    void flush(report_t& r) const
    {
        for (const auto& [k, v] : n)
        {
            r.note(k, jint(v));
        }
    }
};

void record(report_t& r, const std::string& key, const std::string& handle, const std::string& what,
            const dprog_t& P, const std::vector<double>* x0, const answer_t& a, const std::string& oracle,
            const std::string& extra)
{
    // the report keeps the first three cases of a key: do not format the others (a mutant can produce millions)
    static std::map<std::string, int> seen;
    if (++seen[key] > 3)
    {
        r.violation(key, handle, "{}");
        return;
    }
    r.violation(key, handle,
                jobj({{"what", jstr(what)},
                      {"program", P.json()},
                      {"x0", x0 != nullptr ? jarr_num(*x0) : jstr("default")},
                      {"solver", a.json()},
                      {"oracle", oracle},
                      {"observed", extra}}));
}

/// solve one stated program and hold a `converged` answer to the clauses; returns the answer's status
solver_status solve_and_check(report_t& r, const std::string& keyprefix, const std::string& handle,
                              const std::string& outcome_prefix, const dprog_t& P, const std::vector<double>* x0,
                              const c04::verdict verdict, const truth_t* T, const std::string& oracle_json)
{
    const auto a = run_solver(P, x0);
    r.evaluations += 1;
    r.outcome(outcome_prefix + "/" + scat(a.status));
    if (!a.converged())
    {
        return a.status;
    }
    ++r.nontrivial;
    if (verdict != c04::verdict::optimal)
    {
        record(r, keyprefix + ":converged-on-" + name_of(verdict) + "-program", handle,
               std::string("`converged` reported for a program that is ") + name_of(verdict), P, x0, a, oracle_json,
               jstr(""));
        return a.status;
    }
    // a separate class: the optimal set is (provably, exactly) unbounded, the point drifted along it to |x|_inf >= 1e6
    // and the clause fails by the rounding of numbers of that size; anything else keeps the plain key
    const auto findings = check_clauses(P, a, *T);
    if (findings.empty())
    {
        return a.status;
    }
    double xmax = 0;
    for (const auto v : a.x)
    {
        xmax = std::max(xmax, std::fabs(v));
    }
    const bool        unbounded_set = optimal_set_unbounded(*T);
    const std::string suffix        = (xmax >= 1e6 && unbounded_set) ? "@huge-x" : "";
    for (const auto& f : findings)
    {
        record(r, keyprefix + ":" + f.clause + suffix, handle,
               std::string("clause of the statement violated on a `converged` answer; optimal set provably unbounded: ") +
                   (unbounded_set ? "yes" : "no"),
               P, x0, a, oracle_json, f.detail);
    }
    return a.status;
}

// ------------------------------------------------------------------------------------------------------------------
// stage: small
struct small_lattice_t
{
    std::string tag;       // lp2, qp2, lp3
    const family_t* F = nullptr;
    bool        quad  = false;
    size_t      first_set = 0;
    size_t      nsets = 0;
    lattice_t   lat;
};

small_lattice_t make_small_lattice(const std::string& tag, const family_t& F, const bool quad, const size_t first_set,
                                   const size_t end_set, const size_t qcount = 1000)
{
    small_lattice_t L;
    L.tag       = tag;
    L.F         = &F;
    L.quad      = quad;
    L.first_set = first_set;
    L.nsets     = end_set - first_set;
    L.lat.axis("inequalities", L.nsets, axis_sets(F, end_set));
    L.lat.axis("equality", F.eqs.size(), axis_vectors(F.eqs));
    if (quad)
    {
        const auto nq = std::min(qcount, F.Qs.size());
        L.lat.axis("Q", nq, axis_vectors(std::vector<std::vector<int>>(F.Qs.begin(), F.Qs.begin() + static_cast<long>(nq))));
        auto cs = F.cs;
        cs.insert(cs.begin(), std::vector<int>(static_cast<size_t>(F.n), 0));
        L.lat.axis("c", cs.size(), axis_vectors(cs));
    }
    else
    {
        L.lat.axis("c", F.cs.size(), axis_vectors(F.cs));
    }
    return L;
}

iprog_t program_of(const small_lattice_t& L, const std::vector<uint64_t>& d)
{
    const auto& F   = *L.F;
    const auto& set = F.sets[L.first_set + d[0]];
    const auto& eq  = F.eqs[d[1]];
    if (L.quad)
    {
        const auto c = d[3] == 0 ? std::vector<int>(static_cast<size_t>(F.n), 0) : F.cs[d[3] - 1];
        return make_iprog(F, set, eq, c, &F.Qs[d[2]]);
    }
    return make_iprog(F, set, eq, F.cs[d[2]], nullptr);
}

std::string family_key(const small_lattice_t& L, const iprog_t& P)
{
    std::string k = L.quad ? "qp" : "lp";
    if (L.F->pairs)
    {
        k += "-eq2";
    }
    if (P.m() == 0)
    {
        k += "-noineq";
    }
    return k;
}

void stage_small(report_t& r, const args_t& args)
{
    const auto F2 = make_family2();
    const auto F3 = make_family3(false);
    const auto F4 = make_family3(true);
    const auto E2l = make_family2e(args.thorough(), false);
    const auto E2q = make_family2e(args.thorough(), true);
    const auto E3  = make_family3e();

    std::vector<small_lattice_t> lattices;
    lattices.push_back(make_small_lattice("lp2", F2, false, 0, F2.sets_upto("m=3")));
    lattices.push_back(make_small_lattice("qp2", F2, true, 0, F2.sets_upto(args.thorough() ? "m=3" : "m=2")));
    lattices.push_back(make_small_lattice("lp2e", E2l, false, 0, E2l.sets_upto("m=2")));
    lattices.push_back(make_small_lattice("qp2e", E2q, true, 0, E2q.sets_upto("m=2")));
    lattices.push_back(make_small_lattice("lp3e", E3, false, 0, E3.sets_upto("m=2")));
    if (args.thorough())
    {
        lattices.push_back(make_small_lattice("lp3", F3, false, 0, F3.sets_upto("m=3")));
        lattices.push_back(make_small_lattice("lp3m4", F4, false, 0, F4.sets_upto("m=4(thin rows)")));
    }
    tally_t tally;
    for (const auto& L : lattices)
    {
        L.lat.describe(r, L.tag + ".");
        for_each_case(L.lat, r, L.tag,
                      [&](const uint64_t index, const std::vector<uint64_t>& d)
                      {
                          const auto ip     = program_of(L, d);
                          const auto R      = ip.rational();
                          const auto D      = c04::decide(R);
                          if (!c04::verify(R, D))
                          {
                              c04::broken("oracle certificate rejected");
                          }
                          const auto P      = ip.doubles();
                          const auto fam    = family_key(L, ip);
                          const auto handle = L.tag + ":" + std::to_string(index);
                          const auto oj     = decision_json(D);
                          truth_t    T;
                          if (D.v == c04::verdict::optimal)
                          {
                              T = make_truth(R, D);
                          }
                          ++tally.n[std::string("programs_") + name_of(D.v)];
                          const auto prefix = fam + ":" + name_of(D.v);
                          const auto s0 = solve_and_check(r, fam, handle, prefix, P, nullptr, D.v, &T, oj);
                          if (D.v != c04::verdict::optimal)
                          {
                              ++tally.n[std::string("not_solvable_said_") + scat(s0)];
                          }
                          if (ip.m() > 0)
                          {
                              if (const auto* x0 = strictly_feasible_lattice_point(*L.F, ip); x0 != nullptr)
                              {
                                  solve_and_check(r, fam, handle, prefix + "@user-x0", P, x0, D.v, &T, oj);
                              }
                              else
                              {
                                  r.outcome(prefix + "@user-x0/none-on-the-lattice");
                              }
                          }
                          if (index % 4999 == 0)
                          {
                              r.sample(jobj({{"case", jstr(handle)}, {"program", P.json()}, {"oracle", oj}}));
                          }
                      });
    }
    tally.flush(r);
}

// ------------------------------------------------------------------------------------------------------------------
// stage: oracle (no solver): exact decisions vs brute force over a half-integer grid in plain integer arithmetic
struct grid_result_t
{
    bool any = false;
    long min = 0; ///< 8 * f at the best feasible grid point
};

grid_result_t grid_search(const iprog_t& P, const int K)
{
    // x = k / 2, k in [-K, K]^n;  2(a.x) = a.k;  8 f = k'Qk + 4 c.k
    grid_result_t    g;
    const auto       n = static_cast<size_t>(P.n);
    std::vector<int> k(n, -K);
    while (true)
    {
        bool ok = true;
        for (size_t i = 0; i < P.b.size() && ok; ++i)
        {
            long s = 0;
            for (size_t j = 0; j < n; ++j)
            {
                s += static_cast<long>(P.A[i * n + j]) * k[j];
            }
            ok = s == 2L * P.b[i];
        }
        for (size_t i = 0; i < P.h.size() && ok; ++i)
        {
            long s = 0;
            for (size_t j = 0; j < n; ++j)
            {
                s += static_cast<long>(P.G[i * n + j]) * k[j];
            }
            ok = s <= 2L * P.h[i];
        }
        if (ok)
        {
            long f = 0;
            for (size_t j = 0; j < n; ++j)
            {
                f += 4L * P.c[j] * k[j];
            }
            if (!P.Q.empty())
            {
                for (size_t i = 0; i < n; ++i)
                {
                    for (size_t j = 0; j < n; ++j)
                    {
                        f += static_cast<long>(k[i]) * P.Q[i * n + j] * k[j];
                    }
                }
            }
            if (!g.any || f < g.min)
            {
                g.any = true;
                g.min = f;
            }
        }
        auto j = static_cast<long>(n) - 1;
        while (j >= 0 && k[static_cast<size_t>(j)] == K)
        {
            k[static_cast<size_t>(j)] = -K;
            --j;
        }
        if (j < 0)
        {
            break;
        }
        ++k[static_cast<size_t>(j)];
    }
    return g;
}

void stage_oracle(report_t& r, const args_t& args)
{
    const auto F2 = make_family2();
    const auto F3 = make_family3(false);
    const auto F4 = make_family3(true);
    const auto E2l = make_family2e(args.thorough(), false);
    const auto E2q = make_family2e(args.thorough(), true);
    const auto E3  = make_family3e();

    std::vector<small_lattice_t> lattices;
    lattices.push_back(make_small_lattice("lp2", F2, false, 0, F2.sets_upto("m=3")));
    lattices.push_back(make_small_lattice("qp2", F2, true, 0, F2.sets_upto(args.thorough() ? "m=3" : "m=2")));
    lattices.push_back(make_small_lattice("lp2e", E2l, false, 0, E2l.sets_upto("m=2")));
    lattices.push_back(make_small_lattice("qp2e", E2q, true, 0, E2q.sets_upto("m=2")));
    lattices.push_back(make_small_lattice("lp3e", E3, false, 0, E3.sets_upto("m=2")));
    if (args.thorough())
    {
        lattices.push_back(make_small_lattice("lp3", F3, false, 0, F3.sets_upto("m=3")));
        lattices.push_back(make_small_lattice("lp3m4", F4, false, 0, F4.sets_upto("m=4(thin rows)")));
    }
    r.assume("oracle stage: with rows over {-1,0,1}^2, h in {-1,0,1,2} and at most one equality row every non-empty "
             "feasible set and every LP optimal face contains a half-integer point of [-4,4]^2, and an unbounded "
             "program improves strictly from [-4,4]^2 to [-8,8]^2; for n=3 and for QP optima only the one-sided "
             "comparisons hold and are checked");
    for (const auto& L : lattices)
    {
        L.lat.describe(r, L.tag + ".");
        const bool two_sided = L.F->n == 2 && !L.F->pairs; // pairs like x1+x2=1/2 & x1-x2=0 meet off the grid
        // the n=3 grid (33^3 points) is evaluated on every 101st program
        const uint64_t stride = L.F->n == 2 ? 1 : (L.F->pairs ? 11 : 101);
        for_each_case(
            L.lat, r, L.tag,
            [&](const uint64_t index, const std::vector<uint64_t>& d)
            {
                const auto ip = program_of(L, d);
                const auto R  = ip.rational();
                const auto D  = c04::decide(R);
                r.evaluations += 1;
                r.outcome(L.tag + ":" + name_of(D.v));
                const auto handle = L.tag + ":" + std::to_string(index);
                const auto bad    = [&](const std::string& what, const std::string& extra)
                {
                    r.violation("oracle-disagrees-with-grid-search:" + what, handle,
                                jobj({{"program", ip.doubles().json()}, {"oracle", decision_json(D)}, {"grid", extra}}));
                };
                if (!c04::verify(R, D))
                {
                    bad("certificate-rejected", jstr(""));
                    return;
                }
                if (index % stride != 0)
                {
                    return;
                }
                ++r.nontrivial;
                const auto small = grid_search(ip, 8);
                const auto big   = grid_search(ip, 16);
                const auto gj    = jobj({{"small_any", jint(small.any ? 1 : 0)},
                                         {"small_min8f", jint(small.min)},
                                         {"big_any", jint(big.any ? 1 : 0)},
                                         {"big_min8f", jint(big.min)}});
                switch (D.v)
                {
                case c04::verdict::infeasible:
                    if (big.any)
                    {
                        bad("infeasible-but-grid-point-feasible", gj);
                    }
                    break;
                case c04::verdict::unbounded:
                    if (two_sided && !small.any)
                    {
                        bad("unbounded-but-no-feasible-grid-point", gj);
                    }
                    if (small.any && !(big.min < small.min))
                    {
                        bad("unbounded-but-no-improvement-on-larger-grid", gj);
                    }
                    break;
                default:
                {
                    const auto f8 = D.fstar * c04::rat(8);
                    if (two_sided && !small.any)
                    {
                        bad("optimal-but-no-feasible-grid-point", gj);
                    }
                    if (big.any && c04::rat(static_cast<long long>(big.min)) < f8)
                    {
                        bad("grid-point-better-than-fstar", gj);
                    }
                    // x* on the grid => the grid attains f*
                    bool on_grid = true;
                    for (const auto& v : D.xstar)
                    {
                        const auto t = v * c04::rat(2);
                        on_grid      = on_grid && t.d == 1 && t.n >= -8 && t.n <= 8;
                    }
                    if ((on_grid || (two_sided && !L.quad)) &&
                        !(small.any && c04::rat(static_cast<long long>(small.min)) == f8))
                    {
                        bad("fstar-not-attained-on-grid", gj);
                    }
                    if (two_sided && !L.quad && big.min != small.min)
                    {
                        bad("bounded-lp-improves-on-larger-grid", gj);
                    }
                    break;
                }
                }
            });
    }
}

// ------------------------------------------------------------------------------------------------------------------
// KKT-constructed programs
const int    KKT_N[6]     = {1, 2, 3, 5, 8, 12};
const double KKT_SCALE[3] = {1.0, 1e-2, 1e2};
const double KKT_U[3]     = {1.0, 0.01, 100.0};
const double KKT_V[6]     = {1.0, -1.0, 0.01, -0.01, 100.0, -100.0};

struct kkt_case_t
{
    bool            valid = false; ///< false: the digits repeat another case (axis value not distinct for this n)
    dprog_t         P;
    std::vector<ld> xstar;
    qd              fstar = 0;
    int             active = 0;
    c04::rmat       coneE, coneF; ///< recession cone of the optimal set from the integer patterns (row scales dropped)
};

lattice_t kkt_lattice()
{
    lattice_t lat;
    lat.axis("n", 6, "[1,2,3,5,8,12]");
    lat.axis("p", 3, jstr("[0, 1, n-1] clipped to n-1, distinct values only"));
    lat.axis("m", 3, jstr("[1, n, 2n+2], distinct values only"));
    lat.axis("Q", 4, jstr("[0 (linear program), I, D'D with D (max(1,n/2) x n) over {-1,0,1} (rank-deficient for n>1), "
                          "diag(10^(-2+4i/(n-1)))]"));
    lat.axis("xstar", 3, jstr("[x_i=1, x_i=(-1)^i (1+i)/4, x_i=(0.01,-1,100)[i%3]]"));
    lat.axis("active", 3, jstr("[none, first max(1,min(m,n-p)) rows, rows 0,2,4,...]"));
    lat.axis("ustar", 3, "[1,0.01,100]");
    lat.axis("vstar", 6, jstr("v_j = s (-1)^j, s in [1,-1,0.01,-0.01,100,-100]"));
    lat.axis("pattern", 3, jstr("G,A integer patterns [box+sum / upper-triangular ones, dense mod-7 / dense mod-5, "
                                "banded / bidiagonal+last column]"));
    lat.axis("scale", 3, jstr("G x s, A x s' with (s,s') = (S[k], S[(k+pattern)%3]), S=[1,1e-2,1e2]"));
    return lat;
}

kkt_case_t make_kkt(const std::vector<uint64_t>& d)
{
    kkt_case_t K;
    const int  n = KKT_N[d[0]];
    const int  pl[3] = {0, std::min(1, n - 1), n - 1};
    const int  ml[3] = {1, n, 2 * n + 2};
    const int  p     = pl[d[1]];
    const int  m     = ml[d[2]];
    for (uint64_t i = 0; i < d[1]; ++i)
    {
        if (pl[i] == p)
        {
            return K;
        }
    }
    for (uint64_t i = 0; i < d[2]; ++i)
    {
        if (ml[i] == m)
        {
            return K;
        }
    }
    const auto qk  = static_cast<int>(d[3]);
    const auto xk  = static_cast<int>(d[4]);
    const auto ak  = static_cast<int>(d[5]);
    const auto uk  = d[6];
    const auto vk  = d[7];
    const auto pat = static_cast<int>(d[8]);
    const auto sk  = static_cast<int>(d[9]);
    // axis values without effect are taken once
    if ((p == 0 && vk != 0) || (ak == 0 && uk != 0))
    {
        return K;
    }
    const ld sG = KKT_SCALE[sk];
    const ld sA = KKT_SCALE[(sk + pat) % 3];

    const auto N = static_cast<size_t>(n);
    // x*
    std::vector<ld> x(N);
    for (int i = 0; i < n; ++i)
    {
        const ld mix[3] = {0.01L, -1.0L, 100.0L};
        x[static_cast<size_t>(i)] =
            xk == 0 ? 1.0L : (xk == 1 ? ((i % 2) ? -1.0L : 1.0L) * static_cast<ld>(1 + i) / 4 : mix[i % 3]);
    }
    // G (m x n)
    std::vector<ld> G(static_cast<size_t>(m) * N, 0);
    for (int i = 0; i < m; ++i)
    {
        bool zero = true;
        for (int j = 0; j < n; ++j)
        {
            int v = 0;
            if (pat == 0)
            {
                v = i < 2 * n ? ((j == i % n) ? (i < n ? 1 : -1) : 0) : ((i % 2 == 0) ? 1 : -1);
            }
            else if (pat == 1)
            {
                v = ((3 * i + 5 * j + i * j) % 7) - 3;
            }
            else
            {
                v = (j == i % n) ? 2 : ((n > 1 && j == (i + 1) % n) ? -1 : ((n > 3 && j == (i + 3) % n) ? 1 : 0));
                v *= ((i / n) % 2) ? -1 : 1;
            }
            G[static_cast<size_t>(i) * N + static_cast<size_t>(j)] = v;
            zero = zero && v == 0;
        }
        if (zero)
        {
            G[static_cast<size_t>(i) * N + static_cast<size_t>(i % n)] = 1;
        }
    }
    // A (p x n)
    std::vector<ld> A(static_cast<size_t>(p) * N, 0);
    for (int i = 0; i < p; ++i)
    {
        bool zero = true;
        for (int j = 0; j < n; ++j)
        {
            int v = 0;
            if (pat == 0)
            {
                v = j >= i ? 1 : 0;
            }
            else if (pat == 1)
            {
                v = ((2 * i + 3 * j + 1) % 5) - 2;
            }
            else
            {
                v = (j == i ? 2 : 0) + (j == i + 1 ? -1 : 0) + (j == n - 1 ? 1 : 0);
            }
            A[static_cast<size_t>(i) * N + static_cast<size_t>(j)] = v;
            zero = zero && v == 0;
        }
        if (zero)
        {
            A[static_cast<size_t>(i) * N + static_cast<size_t>(i % n)] = 1;
        }
    }
    dprog_t& P = K.P;
    P.n        = n;
    P.p        = p;
    P.m        = m;
    P.quad     = qk != 0;
    // the matrices the caller states are the rounded doubles; everything below is derived from them
    for (const auto v : G)
    {
        P.G.push_back(static_cast<double>(v * sG));
    }
    for (const auto v : A)
    {
        P.A.push_back(static_cast<double>(v * sA));
    }
    if (P.quad)
    {
        P.Q.assign(N * N, 0.0);
        if (qk == 1)
        {
            for (size_t i = 0; i < N; ++i)
            {
                P.Q[i * N + i] = 1.0;
            }
        }
        else if (qk == 2)
        {
            const int       k = std::max(1, n / 2);
            std::vector<int> D(static_cast<size_t>(k) * N);
            for (int i = 0; i < k; ++i)
            {
                bool zero = true;
                for (int j = 0; j < n; ++j)
                {
                    const int v = ((i + 2 * j) % 3) - 1;
                    D[static_cast<size_t>(i) * N + static_cast<size_t>(j)] = v;
                    zero = zero && v == 0;
                }
                if (zero)
                {
                    D[static_cast<size_t>(i) * N + static_cast<size_t>(i % n)] = 1;
                }
            }
            for (size_t a = 0; a < N; ++a)
            {
                for (size_t b = 0; b < N; ++b)
                {
                    int s = 0;
                    for (int i = 0; i < k; ++i)
                    {
                        s += D[static_cast<size_t>(i) * N + a] * D[static_cast<size_t>(i) * N + b];
                    }
                    P.Q[a * N + b] = s;
                }
            }
        }
        else
        {
            for (size_t i = 0; i < N; ++i)
            {
                P.Q[i * N + i] =
                    n == 1 ? 1.0 : static_cast<double>(std::pow(10.0L, -2.0L + 4.0L * static_cast<ld>(i) / (n - 1)));
            }
        }
    }
    // active set and multipliers
    std::vector<ld> u(static_cast<size_t>(m), 0);
    if (ak == 1)
    {
        const int k = std::max(1, std::min(m, n - p));
        for (int i = 0; i < k; ++i)
        {
            u[static_cast<size_t>(i)] = KKT_U[uk];
        }
        K.active = k;
    }
    else if (ak == 2)
    {
        for (int i = 0; i < m; i += 2)
        {
            u[static_cast<size_t>(i)] = KKT_U[uk];
            ++K.active;
        }
    }
    std::vector<ld> v(static_cast<size_t>(p));
    for (int j = 0; j < p; ++j)
    {
        v[static_cast<size_t>(j)] = static_cast<ld>(KKT_V[vk]) * ((j % 2) ? -1 : 1);
    }
    // h = G x* + slack (inactive rows), b = A x*, c = -(Q x* + G'u + A'v)
    for (int i = 0; i < m; ++i)
    {
        ld s = 0;
        for (size_t j = 0; j < N; ++j)
        {
            s += static_cast<ld>(P.G[static_cast<size_t>(i) * N + j]) * x[j];
        }
        if (u[static_cast<size_t>(i)] == 0)
        {
            s += (0.5L + static_cast<ld>(i % 3)) * sG;
        }
        P.h.push_back(static_cast<double>(s));
    }
    for (int i = 0; i < p; ++i)
    {
        ld s = 0;
        for (size_t j = 0; j < N; ++j)
        {
            s += static_cast<ld>(P.A[static_cast<size_t>(i) * N + j]) * x[j];
        }
        P.b.push_back(static_cast<double>(s));
    }
    for (size_t j = 0; j < N; ++j)
    {
        ld s = 0;
        if (P.quad)
        {
            for (size_t t = 0; t < N; ++t)
            {
                s += static_cast<ld>(P.Q[j * N + t]) * x[t];
            }
        }
        for (int i = 0; i < m; ++i)
        {
            s += static_cast<ld>(P.G[static_cast<size_t>(i) * N + j]) * u[static_cast<size_t>(i)];
        }
        for (int i = 0; i < p; ++i)
        {
            s += static_cast<ld>(P.A[static_cast<size_t>(i) * N + j]) * v[static_cast<size_t>(i)];
        }
        P.c.push_back(static_cast<double>(-s));
    }
    // recession cone of the optimal set { A d = 0, Q d = 0, c'd = 0, G d <= 0 }: with Qd = 0, Ad = 0 one has
    // c'd = -u'(Gd), so c'd = 0 <=> (Gd)_i = 0 on the active rows (u_i > 0); positive row scales do not matter
    const auto irow = [&](const std::vector<ld>& Mx, const int i)
    {
        c04::rvec row;
        for (size_t j = 0; j < N; ++j)
        {
            row.emplace_back(static_cast<long long>(std::llround(Mx[static_cast<size_t>(i) * N + j])));
        }
        return row;
    };
    for (int i = 0; i < p; ++i)
    {
        K.coneE.push_back(irow(A, i));
    }
    for (int i = 0; i < m; ++i)
    {
        (u[static_cast<size_t>(i)] > 0 ? K.coneE : K.coneF).push_back(irow(G, i));
    }
    if (qk == 1 || qk == 3)
    {
        // positive definite: unique optimum
        for (size_t i = 0; i < N; ++i)
        {
            c04::rvec row(N);
            row[i] = c04::rat(1);
            K.coneE.push_back(row);
        }
    }
    else if (qk == 2)
    {
        for (size_t i = 0; i < N; ++i)
        {
            c04::rvec row;
            for (size_t j = 0; j < N; ++j)
            {
                row.emplace_back(static_cast<long long>(std::llround(P.Q[i * N + j])));
            }
            K.coneE.push_back(row);
        }
    }
    K.xstar = x;
    K.fstar = P.value(x);
    K.valid = true;
    return K;
}

truth_t kkt_truth(const kkt_case_t& K)
{
    truth_t T;
    T.fstar      = K.fstar;
    T.xstar      = K.xstar;
    T.fstar_text = "f(xstar) by KKT construction";
    T.cone_dims  = K.xstar.size();
    T.coneE      = K.coneE;
    T.coneF      = K.coneF;
    return T;
}

std::string kkt_oracle_json(const kkt_case_t& K)
{
    std::vector<double> xs(K.xstar.begin(), K.xstar.end());
    return jobj({{"verdict", jstr("optimal by KKT construction")},
                 {"fstar", jnum(static_cast<double>(K.fstar))},
                 {"xstar", jarr_num(xs)},
                 {"active_rows", jint(K.active)}});
}

void kkt_assumptions(report_t& r)
{
    r.assume("kkt programs: (x*,u*,v*) satisfies the KKT conditions of the stated program up to the rounding of c, b, h "
             "to double (computed in long double from the stated G, A, Q); f* = f(x*); for linear programs and "
             "rank-deficient Q the optimum may be a face: the |x-x*| term then uses the constructed x*, which can only "
             "widen the allowed gap");
}

void stage_kkt(report_t& r, const args_t&)
{
    const auto lat = kkt_lattice();
    lat.describe(r, "kkt.");
    kkt_assumptions(r);
    for_each_case(lat, r, "kkt",
                  [&](const uint64_t index, const std::vector<uint64_t>& d)
                  {
                      const auto K = make_kkt(d);
                      if (!K.valid)
                      {
                          return;
                      }
                      const auto  handle = "kkt:" + std::to_string(index);
                      const auto  T      = kkt_truth(K);
                      const auto  oj     = kkt_oracle_json(K);
                      const auto  fam    = std::string("kkt:") + (K.P.quad ? "qp" : "lp");
                      const auto  prefix = fam + ":n=" + std::to_string(K.P.n);
                      solve_and_check(r, fam, handle, prefix, K.P, nullptr, c04::verdict::optimal, &T, oj);
                      if (index % 4999 == 0)
                      {
                          r.sample(jobj({{"case", jstr(handle)}, {"program", K.P.json()}, {"oracle", oj}}));
                      }
                  });
}

// ------------------------------------------------------------------------------------------------------------------
// stage: restate
void run_restatements(report_t& r, const std::string& fam, const std::string& handle, const dprog_t& P,
                      const truth_t& T0, const std::string& oj)
{
    const auto& names = restatement_names();
    for (size_t w = 0; w < names.size(); ++w)
    {
        dprog_t          R;
        std::vector<int> perm;
        double           scale = 1.0;
        if (!restate(P, w, R, perm, scale))
        {
            continue;
        }
        auto T  = T0;
        T.perm  = perm;
        T.fstar = T0.fstar * static_cast<qd>(scale);
        solve_and_check(r, "restate:" + names[w] + ":" + fam, handle, fam + ":" + names[w], R, nullptr,
                        c04::verdict::optimal, &T, oj);
    }
}

void stage_restate(report_t& r, const args_t& args)
{
    const auto F2 = make_family2();
    r.axis("restatements", jarr_str(restatement_names()));
    r.assume("restate: the combined equality rows use the weights (0.25, 1.5) and the row scales 0.5, 2, 1e3, -1, 7 so "
             "that the restated small programs are exactly equivalent in double arithmetic; the objective scales 1e-2 "
             "and 1e2 are applied in double arithmetic (relative perturbation of the objective <= 2^-52); restated "
             "programs are solved from the default x0");

    // n=2, m=3 programs of `small`
    std::vector<small_lattice_t> lattices;
    lattices.push_back(make_small_lattice("lp2r", F2, false, F2.block_begin("m=3"), F2.sets_upto("m=3")));
    if (args.thorough())
    {
        // the four rank-1 matrices, 2*E1 and I
        lattices.push_back(make_small_lattice("qp2r", F2, true, F2.block_begin("m=3"), F2.sets_upto("m=3"), 6));
    }
    for (const auto& L : lattices)
    {
        L.lat.describe(r, L.tag + ".");
        for_each_case(L.lat, r, L.tag,
                      [&](const uint64_t index, const std::vector<uint64_t>& d)
                      {
                          const auto ip = program_of(L, d);
                          const auto R  = ip.rational();
                          const auto D  = c04::decide(R);
                          if (!c04::verify(R, D))
                          {
                              c04::broken("oracle certificate rejected");
                          }
                          if (D.v != c04::verdict::optimal)
                          {
                              r.outcome(std::string(L.quad ? "qp" : "lp") + ":not-restated(" + name_of(D.v) + ")");
                              return;
                          }
                          const auto handle = L.tag + ":" + std::to_string(index);
                          run_restatements(r, L.quad ? "qp" : "lp", handle, ip.doubles(), make_truth(R, D),
                                           decision_json(D));
                      });
    }

    // every KKT program
    const auto lat = kkt_lattice();
    lat.describe(r, "kktr.");
    kkt_assumptions(r);
    for_each_case(lat, r, "kktr",
                  [&](const uint64_t index, const std::vector<uint64_t>& d)
                  {
                      const auto K = make_kkt(d);
                      if (!K.valid)
                      {
                          return;
                      }
                      run_restatements(r, std::string("kkt-") + (K.P.quad ? "qp" : "lp"),
                                       "kktr:" + std::to_string(index), K.P, kkt_truth(K), kkt_oracle_json(K));
                  });
}

// ------------------------------------------------------------------------------------------------------------------
// oracle self-test: hand-made wrong answers must be rejected
int self_test()
{
    // min -x1 - x2  s.t.  x1 + x2 <= 1, -x1 <= 0, -x2 <= 0  (f* = -1, optimal face = the segment)
    iprog_t ip;
    ip.n = 2;
    ip.c = {-1, -1};
    ip.G = {1, 1, -1, 0, 0, -1};
    ip.h = {1, 0, 0};
    const auto R = ip.rational();
    auto       D = c04::decide(R);
    if (D.v != c04::verdict::optimal || D.fstar != c04::rat(-1) || !c04::verify(R, D))
    {
        std::fprintf(stderr, "self-test: oracle wrong on the reference LP\n");
        return 2;
    }
    {
        auto W  = D;
        W.fstar = c04::rat(-2);
        auto W2 = D;
        W2.xstar = {c04::rat(1, 2), c04::rat(1, 4)}; // feasible, not optimal
        W2.fstar = R.value(W2.xstar);
        auto W3  = D;
        W3.v     = c04::verdict::unbounded;
        W3.x0    = D.xstar;
        W3.direction = {c04::rat(1), c04::rat(1)};
        auto W4  = D;
        W4.v     = c04::verdict::infeasible;
        W4.farkas_z = {};
        W4.farkas_y = {c04::rat(1), c04::rat(1), c04::rat(1)};
        if (c04::verify(R, W) || c04::verify(R, W2) || c04::verify(R, W3) || c04::verify(R, W4))
        {
            std::fprintf(stderr, "self-test: a wrong certificate was accepted\n");
            return 2;
        }
    }
    // infeasible: x1 <= -1, -x1 <= 0 ; unbounded: min -x1 s.t. -x1 <= 0
    {
        iprog_t a;
        a.n = 2;
        a.c = {1, 0};
        a.G = {1, 0, -1, 0};
        a.h = {-1, 0};
        iprog_t b;
        b.n = 2;
        b.c = {-1, 0};
        b.G = {-1, 0};
        b.h = {0};
        // rank-deficient QP: min 1/2 (x1+x2)^2 - x1 + x2 s.t. -x1<=0 : unbounded along (1,-1)
        iprog_t c;
        c.n = 2;
        c.Q = {1, 1, 1, 1};
        c.c = {-1, 1};
        c.G = {-1, 0};
        c.h = {0};
        // QP: min 1/2 x1^2 + 1/2 x2^2 - x1 - x2 s.t. x1 + x2 <= 1 : x* = (1/2,1/2), f* = -3/4
        iprog_t e;
        e.n = 2;
        e.Q = {1, 0, 0, 1};
        e.c = {-1, -1};
        e.G = {1, 1};
        e.h = {1};
        const auto De = c04::decide(e.rational());
        if (c04::decide(a.rational()).v != c04::verdict::infeasible ||
            c04::decide(b.rational()).v != c04::verdict::unbounded ||
            c04::decide(c.rational()).v != c04::verdict::unbounded || De.v != c04::verdict::optimal ||
            De.fstar != c04::rat(-3, 4) || !c04::verify(e.rational(), De))
        {
            std::fprintf(stderr, "self-test: oracle wrong on the reference programs\n");
            return 2;
        }
    }
    // the clause checker must flag each kind of wrong `converged` answer
    {
        const auto P = ip.doubles();
        const auto T = make_truth(R, D);
        const auto has = [&](const answer_t& a, const std::string& clause)
        {
            for (const auto& f : check_clauses(P, a, T))
            {
                if (f.clause == clause)
                {
                    return true;
                }
            }
            return false;
        };
        answer_t good;
        good.status = solver_status::converged;
        good.x      = {0.25, 0.75};
        good.u      = {1, 0, 0};
        good.fx     = -1.0;
        if (!check_clauses(P, good, T).empty())
        {
            std::fprintf(stderr, "self-test: a correct answer was rejected\n");
            return 2;
        }
        auto infeasible = good;
        infeasible.x    = {0.25, 0.75001};
        infeasible.fx   = -1.00001;
        auto wrong_fx   = good;
        wrong_fx.fx     = -1.0001;
        auto subopt     = good;
        subopt.x        = {0.25, 0.7499};
        subopt.fx       = -0.9999;
        auto nan        = good;
        nan.x[0]        = std::numeric_limits<double>::quiet_NaN();
        if (!has(infeasible, "inequality-violated") || !has(wrong_fx, "objective-mismatch") ||
            !has(subopt, "suboptimal") || !has(nan, "not-finite"))
        {
            std::fprintf(stderr, "self-test: a wrong `converged` answer was accepted\n");
            return 2;
        }
        // equality clause
        iprog_t q = ip;
        q.A       = {1, -1};
        q.b       = {0};
        const auto Rq = q.rational();
        const auto Dq = c04::decide(Rq);
        auto       eq = good;
        eq.x          = {0.5, 0.50001};
        eq.fx         = -1.00001;
        eq.v          = {0};
        bool found    = false;
        for (const auto& f : check_clauses(q.doubles(), eq, make_truth(Rq, Dq)))
        {
            found = found || f.clause == "equality-violated";
        }
        if (!found || Dq.fstar != c04::rat(-1))
        {
            std::fprintf(stderr, "self-test: equality clause\n");
            return 2;
        }
    }
    // rank-deficient equality systems: inconsistent parallel rows (Farkas certificate) and a scaled duplicate
    {
        iprog_t bad = ip;
        bad.A       = {1, 1, 1, 1};
        bad.b       = {1, 2};
        iprog_t dup = ip;
        dup.A       = {1, -1, 2, -2};
        dup.b       = {0, 0};
        iprog_t off = ip;
        off.A       = {1, -1, 2, -2};
        off.b       = {0, 1};
        const auto Db = c04::decide(bad.rational());
        const auto Dd = c04::decide(dup.rational());
        const auto Do = c04::decide(off.rational());
        if (Db.v != c04::verdict::infeasible || !c04::verify(bad.rational(), Db) || Dd.v != c04::verdict::optimal ||
            Dd.fstar != c04::rat(-1) || !c04::verify(dup.rational(), Dd) || Do.v != c04::verdict::infeasible ||
            !c04::verify(off.rational(), Do))
        {
            std::fprintf(stderr, "self-test: rank-deficient equality rows\n");
            return 2;
        }
    }
    // the exact test for an unbounded optimal set
    {
        iprog_t ray;
        ray.n = 2;
        ray.c = {0, 1};
        ray.G = {0, -1, -1, 0};
        ray.h = {0, 0};
        const auto Rr = ray.rational();
        const auto Dr = c04::decide(Rr);
        iprog_t line = ray;
        line.G       = {0, -1};
        line.h       = {0};
        const auto Rl = line.rational();
        const auto Dl = c04::decide(Rl);
        if (optimal_set_unbounded(make_truth(R, D)) || !optimal_set_unbounded(make_truth(Rr, Dr)) ||
            !optimal_set_unbounded(make_truth(Rl, Dl)))
        {
            std::fprintf(stderr, "self-test: unbounded optimal set test\n");
            return 2;
        }
    }
    // the distance to the optimal set must be the distance to the face, not to a vertex
    {
        const auto T = make_truth(R, D);
        const auto dd = distance_to_optimal_set(T, {0.5L, 0.5L});
        if (!(dd < 1e-12L))
        {
            std::fprintf(stderr, "self-test: distance to the optimal face\n");
            return 2;
        }
    }
    return 0;
}
} // namespace

int main(int argc, char** argv)
{
    const auto args = parse_args(argc, argv);
    if (const auto rc = self_test(); rc != 0)
    {
        return rc;
    }
    report_t r("c04/" + args.stage, args);
    if (args.stage == "small")
    {
        stage_small(r, args);
    }
    else if (args.stage == "oracle")
    {
        stage_oracle(r, args);
    }
    else if (args.stage == "kkt")
    {
        stage_kkt(r, args);
    }
    else if (args.stage == "restate")
    {
        stage_restate(r, args);
    }
    else
    {
        std::fprintf(stderr, "unknown --stage '%s'\n", args.stage.c_str());
        return 2;
    }
    return r.finish();
}
