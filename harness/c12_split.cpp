// C12 — splitters and samplers return index sets with the promised set structure (E3, bounded exhaustive).
//
// stages (selected with --stage):
//   kfold    : k-fold splitter, every (n, folds) with n in 2..40, folds in 2..min(n,12) x seeds x 3 index lists
//   random   : random splitter, the same x 12 train percentages
//   sample   : sample_with(out)_replacement (seeded and unseeded overloads), gboost::sampler_t off/subsample/bootstrap
//   weighted : weighted sample_with_replacement over every weight vector in {0,1,3}^n, n <= 5, gboost::sampler_t
//              wei_loss_bootstrap / wei_grad_bootstrap
//   ball     : sample_from_ball over dims x radius x centre x seeds (all four overloads)
//   large    : a finite list of larger n (41..100, 1000, 5000) x folds x 5 seeds x 4 index lists  (NOT exhaustive)
//
// The oracle is std::set algebra on the returned index vectors; nothing of libnano is used to judge.
#include "detrand.h"
#include "verif.h"
#include <algorithm>
#include <nano/core/sampling.h>
#include <nano/gboost/sampler.h>
#include <nano/splitter.h>
#include <set>

using namespace nano;
using namespace verif;

namespace
{
using ivec_t = std::vector<long>;
using iset_t = std::set<long>;

ivec_t to_vec(const indices_t& t)
{
    ivec_t v(static_cast<size_t>(t.size()));
    for (tensor_size_t i = 0; i < t.size(); ++i)
    {
        v[static_cast<size_t>(i)] = static_cast<long>(t(i));
    }
    return v;
}

indices_t to_indices(const ivec_t& v)
{
    indices_t t(static_cast<tensor_size_t>(v.size()));
    for (size_t i = 0; i < v.size(); ++i)
    {
        t(static_cast<tensor_size_t>(i)) = static_cast<tensor_size_t>(v[i]);
    }
    return t;
}

// index lists of distinct sample indices: 0 = contiguous 0..n-1, 1 = 100+3i, 2 = the same descending (an unsorted
// list), 3 = irregular increasing gaps
ivec_t make_list(const int kind, const long n)
{
    ivec_t   v(static_cast<size_t>(n));
    uint64_t x = 12345, cur = 7;
    for (long i = 0; i < n; ++i)
    {
        switch (kind)
        {
        case 0: v[static_cast<size_t>(i)] = i; break;
        case 1: v[static_cast<size_t>(i)] = 100 + 3 * i; break;
        case 2: v[static_cast<size_t>(i)] = 100 + 3 * (n - 1 - i); break;
        default:
            x = x * 6364136223846793005ULL + 1442695040888963407ULL;
            cur += 1 + ((x >> 33) % 17);
            v[static_cast<size_t>(i)] = static_cast<long>(cur);
        }
    }
    return v;
}
const char* list_name(const int kind)
{
    return kind == 0 ? "0..n-1" : (kind == 1 ? "100+3i" : (kind == 2 ? "100+3(n-1-i) descending" : "irregular-gaps"));
}

std::string show(const ivec_t& v)
{
    return jarr(v.begin(), v.end(), [](const long x) { return jint(x); });
}

// ---------------------------------------------------------------------------------------------
// the oracle: plain set algebra (returns the name of the first broken clause, empty when fine)
bool sorted(const ivec_t& v)
{
    return std::is_sorted(v.begin(), v.end());
}
bool distinct(const ivec_t& v)
{
    return iset_t(v.begin(), v.end()).size() == v.size();
}
bool members(const ivec_t& v, const iset_t& input)
{
    return std::all_of(v.begin(), v.end(), [&](const long x) { return input.count(x) == 1; });
}

/// (training, validation) pair: disjoint, sorted, together exactly the input
std::string judge_pair(const ivec_t& train, const ivec_t& valid, const iset_t& input)
{
    if (!sorted(train) || !sorted(valid))
    {
        return "unsorted";
    }
    const iset_t st(train.begin(), train.end()), sv(valid.begin(), valid.end());
    ivec_t       common;
    std::set_intersection(st.begin(), st.end(), sv.begin(), sv.end(), std::back_inserter(common));
    if (!common.empty())
    {
        return "train-valid-overlap";
    }
    iset_t uni = st;
    uni.insert(sv.begin(), sv.end());
    if (uni != input)
    {
        return "union-differs-from-input";
    }
    if (train.size() + valid.size() != input.size())
    {
        return "duplicated-index";
    }
    return "";
}

/// the validation folds partition the input, sizes differ by less than k
std::string judge_partition(const std::vector<ivec_t>& valids, const iset_t& input, const long k)
{
    if (static_cast<long>(valids.size()) != k)
    {
        return "number-of-folds";
    }
    iset_t uni;
    size_t total = 0, smin = input.size() + 1, smax = 0;
    for (const auto& v : valids)
    {
        uni.insert(v.begin(), v.end());
        total += v.size();
        smin = std::min(smin, v.size());
        smax = std::max(smax, v.size());
    }
    if (uni != input)
    {
        return "folds-do-not-cover-input";
    }
    if (total != input.size())
    {
        return "folds-overlap";
    }
    if (!(static_cast<long>(smax - smin) < k))
    {
        return "fold-sizes-differ-by-k-or-more";
    }
    return "";
}

/// round(p*n/100) on the exact rational (half away from zero, as std::round)
long round_percent(const long p, const long n)
{
    return (2 * p * n + 100) / 200;
}

struct splits_view_t
{
    std::vector<ivec_t> trains, valids;
    bool operator==(const splits_view_t& o) const { return trains == o.trains && valids == o.valids; }
};
splits_view_t view(const splitter_t::splits_t& s)
{
    splits_view_t v;
    for (const auto& [train, valid] : s)
    {
        v.trains.push_back(to_vec(train));
        v.valids.push_back(to_vec(valid));
    }
    return v;
}

rsplitter_t make_splitter(const char* id, const long folds, const uint64_t seed, const long pct)
{
    auto splitter = splitter_t::all().get(id);
    if (!splitter)
    {
        std::fprintf(stderr, "no splitter %s\n", id);
        std::exit(2);
    }
    splitter->parameter("splitter::seed")  = seed;
    splitter->parameter("splitter::folds") = static_cast<tensor_size_t>(folds);
    if (pct >= 0)
    {
        splitter->parameter("splitter::random::train_per") = static_cast<tensor_size_t>(pct);
    }
    return splitter;
}

struct split_case_t
{
    bool     kfold;
    long     n, folds, pct;
    uint64_t seed;
    int      list;
};

std::string describe(const split_case_t& c)
{
    return jobj({{"splitter", jstr(c.kfold ? "k-fold" : "random")}, {"n", jint(c.n)}, {"folds", jint(c.folds)},
                 {"seed", jint(c.seed)}, {"train_per", jint(c.pct)}, {"indices", jstr(list_name(c.list))}});
}

/// run one splitter configuration through the real code and judge every clause of the statement
void check_split(report_t& r, const std::string& one, const split_case_t& c)
{
    const std::string pre   = c.kfold ? "kfold:" : "random:";
    const auto        input = make_list(c.list, c.n);
    const iset_t      iset(input.begin(), input.end());
    const auto        id = c.kfold ? "k-fold" : "random";

    const auto splitter = make_splitter(id, c.folds, c.seed, c.kfold ? -1 : c.pct);
    const auto splits   = view(splitter->split(to_indices(input)));
    r.evaluations += 1;

    const auto fail = [&](const std::string& key, const size_t fold, const std::string& extra)
    {
        r.violation(pre + key, one,
                    jobj({{"case", describe(c)}, {"input", show(input)}, {"fold", jint(fold)},
                          {"train", fold < splits.trains.size() ? show(splits.trains[fold]) : "null"},
                          {"valid", fold < splits.valids.size() ? show(splits.valids[fold]) : "null"},
                          {"what", jstr(extra)}}));
    };

    if (static_cast<long>(splits.trains.size()) != c.folds)
    {
        fail("number-of-folds", 0, "expected " + std::to_string(c.folds) + " splits, got " +
                                       std::to_string(splits.trains.size()));
    }
    for (size_t f = 0; f < splits.trains.size(); ++f)
    {
        const auto verdict = judge_pair(splits.trains[f], splits.valids[f], iset);
        if (!verdict.empty())
        {
            fail(verdict, f, "the (training, validation) pair must be disjoint, sorted and together exactly the input");
            break;
        }
    }
    if (c.kfold)
    {
        const auto verdict = judge_partition(splits.valids, iset, c.folds);
        if (!verdict.empty())
        {
            std::string sizes;
            for (const auto& v : splits.valids)
            {
                sizes += std::to_string(v.size()) + " ";
            }
            fail(verdict, 0, "validation folds must partition the input with sizes differing by < k; sizes: " + sizes);
        }
        const bool remainder = (c.n % c.folds) != 0;
        if (remainder || c.n / c.folds == 1)
        {
            ++r.nontrivial;
        }
        r.outcome(remainder ? (c.n / c.folds == 1 ? "remainder-and-chunk-of-1" : "remainder-in-a-fold")
                            : (c.n == c.folds ? "n-equals-folds" : "n-divisible-by-folds"));
    }
    else
    {
        const auto expected = round_percent(c.pct, c.n);
        for (size_t f = 0; f < splits.trains.size(); ++f)
        {
            if (static_cast<long>(splits.trains[f].size()) != expected)
            {
                fail("train-size-not-round(p*n/100)", f,
                     "expected |train| = round(" + std::to_string(c.pct) + "*" + std::to_string(c.n) +
                         "/100) = " + std::to_string(expected) + ", got " + std::to_string(splits.trains[f].size()));
                break;
            }
        }
        const auto rem = (c.pct * c.n) % 100;
        if (rem != 0)
        {
            ++r.nontrivial;
        }
        r.outcome(expected == 0 ? "empty-training-set"
                                : (rem == 0 ? "p*n/100-integral" : (rem == 50 ? "tie-rounded-up" : (rem < 50 ? "rounded-down" : "rounded-up"))));
    }

    // equal seeds => equal splits: the same object again, an independently configured twin, and a clone
    const auto again = view(splitter->split(to_indices(input)));
    const auto twin  = view(make_splitter(id, c.folds, c.seed, c.kfold ? -1 : c.pct)->split(to_indices(input)));
    const auto clone = view(splitter->clone()->split(to_indices(input)));
    r.evaluations += 3;
    if (!(again == splits))
    {
        fail("equal-seed-second-call-differs", 0, "two calls of split() on the same splitter gave different splits");
    }
    if (!(twin == splits))
    {
        fail("equal-seed-twin-differs", 0, "two splitters with equal parameters gave different splits");
    }
    if (!(clone == splits))
    {
        fail("equal-seed-clone-differs", 0, "clone() of the splitter gave different splits");
    }
}

// ---------------------------------------------------------------------------------------------
// samplers
struct sample_ctx_t
{
    report_t&          r;
    const std::string& one;
    const ivec_t&      input;
    const iset_t&      iset;
    std::string        what; ///< JSON of the case
};

void judge_sample(sample_ctx_t& c, const std::string& api, const indices_t& got_, const long count,
                  const bool must_be_distinct, const std::vector<double>* weights)
{
    const auto got = to_vec(got_);
    c.r.evaluations += 1;
    std::string verdict;
    if (static_cast<long>(got.size()) != count)
    {
        verdict = "count";
    }
    else if (!sorted(got))
    {
        verdict = "unsorted";
    }
    else if (!members(got, c.iset))
    {
        verdict = "not-a-member-of-the-input";
    }
    else if (must_be_distinct && !distinct(got))
    {
        verdict = "duplicates";
    }
    else if (weights != nullptr)
    {
        for (const auto x : got)
        {
            const auto pos = static_cast<size_t>(std::find(c.input.begin(), c.input.end(), x) - c.input.begin());
            if (!((*weights)[pos] > 0.0))
            {
                verdict = "zero-weight-index-returned";
                break;
            }
        }
    }
    if (!verdict.empty())
    {
        c.r.violation(api + ":" + verdict, c.one,
                      jobj({{"api", jstr(api)}, {"case", c.what}, {"input", show(c.input)}, {"count", jint(count)},
                            {"weights", weights != nullptr ? jarr_num(*weights) : std::string("null")},
                            {"got", show(got)}}));
    }
}

tensor1d_t to_tensor(const std::vector<double>& v)
{
    tensor1d_t t(static_cast<tensor_size_t>(v.size()));
    for (size_t i = 0; i < v.size(); ++i)
    {
        t(static_cast<tensor_size_t>(i)) = v[i];
    }
    return t;
}

const std::vector<std::pair<long, long>> RATIOS = {{1, 4}, {1, 2}, {3, 4}, {1, 1}}; // exactly representable

/// the unweighted modes of gboost::sampler_t, three boosting rounds each
void check_gboost_plain(sample_ctx_t& c, const uint64_t seed)
{
    const auto n       = static_cast<long>(c.input.size());
    const auto samples = to_indices(c.input);
    const auto maxid   = *std::max_element(c.input.begin(), c.input.end()) + 1;
    const auto losses  = make_full_tensor<scalar_t>(make_dims(2, maxid), 1.0);
    const auto grads   = make_full_tensor<scalar_t>(make_dims(maxid, 1, 1, 1), 1.0);
    for (const auto& [num, den] : RATIOS)
    {
        const auto ratio = static_cast<double>(num) / static_cast<double>(den);
        const auto count = n * num / den;
        {
            auto sampler = gboost::sampler_t{samples, gboost_subsample::off, seed, ratio};
            for (int round = 0; round < 2; ++round)
            {
                const auto got = to_vec(sampler.sample(losses, grads));
                c.r.evaluations += 1;
                if (got != c.input)
                {
                    c.r.violation("gboost:off:not-the-input", c.one,
                                  jobj({{"case", c.what}, {"input", show(c.input)}, {"got", show(got)}}));
                }
            }
        }
        {
            auto sampler = gboost::sampler_t{samples, gboost_subsample::subsample, seed, ratio};
            for (int round = 0; round < 3; ++round)
            {
                judge_sample(c, "gboost:subsample", sampler.sample(losses, grads), count, true, nullptr);
            }
        }
        {
            auto sampler = gboost::sampler_t{samples, gboost_subsample::bootstrap, seed, ratio};
            for (int round = 0; round < 3; ++round)
            {
                judge_sample(c, "gboost:bootstrap", sampler.sample(losses, grads), count, false, nullptr);
            }
        }
    }
}

/// the weighted modes: the weight of sample id s is losses(1, s) resp. ||gradients(s)||_2; every column that is not
/// addressed by a sample id, and the error row, carry a positive value so that indexing by anything else than the
/// sample id shows up as a zero-weight index in the selection
void check_gboost_weighted(sample_ctx_t& c, const uint64_t seed, const std::vector<double>& weights)
{
    const auto n       = static_cast<long>(c.input.size());
    const auto samples = to_indices(c.input);
    const auto maxid   = *std::max_element(c.input.begin(), c.input.end()) + 1;
    auto       losses  = make_full_tensor<scalar_t>(make_dims(2, maxid), 7.0);
    auto       grads   = make_full_tensor<scalar_t>(make_dims(maxid, 2, 1, 1), 7.0);
    for (size_t i = 0; i < c.input.size(); ++i)
    {
        const auto s = static_cast<tensor_size_t>(c.input[i]);
        losses(0, s) = weights[i] > 0.0 ? 0.0 : 5.0; // the error row is the complement of the loss row
        losses(1, s) = weights[i];
        // gradient of norm weights[i]: (0.6 w, 0.8 w)
        grads(s, 0, 0, 0) = 0.6 * weights[i];
        grads(s, 1, 0, 0) = -0.8 * weights[i];
    }
    for (const auto& [num, den] : RATIOS)
    {
        const auto ratio = static_cast<double>(num) / static_cast<double>(den);
        const auto count = n * num / den;
        for (const auto mode : {gboost_subsample::wei_loss_bootstrap, gboost_subsample::wei_grad_bootstrap})
        {
            auto       sampler = gboost::sampler_t{samples, mode, seed, ratio};
            const auto api =
                mode == gboost_subsample::wei_loss_bootstrap ? "gboost:wei_loss_bootstrap" : "gboost:wei_grad_bootstrap";
            for (int round = 0; round < 3; ++round)
            {
                judge_sample(c, api, sampler.sample(losses, grads), count, false, &weights);
            }
        }
    }
}

// every weight vector over {0,1,3}^n, n = 1..5, with at least one positive weight; shorter first
std::vector<std::vector<double>> weight_vectors()
{
    const double                     alpha[] = {0.0, 1.0, 3.0};
    std::vector<std::vector<double>> out;
    for (int n = 1; n <= 5; ++n)
    {
        long total = 1;
        for (int i = 0; i < n; ++i)
        {
            total *= 3;
        }
        for (long code = 1; code < total; ++code) // code 0 = all zero, excluded
        {
            std::vector<double> w(static_cast<size_t>(n));
            long                x = code;
            for (int i = n; i-- > 0;)
            {
                w[static_cast<size_t>(i)] = alpha[x % 3];
                x /= 3;
            }
            out.push_back(w);
        }
    }
    return out;
}

// ---------------------------------------------------------------------------------------------
// ball
const std::vector<long>   DIMS  = {1, 2, 3, 10, 50};
const std::vector<double> RADII = {1e-6, 1.0, 1e6};
const char*               CENTRES[] = {"zero", "1e3*ones", "alternating +-(k+1)/2"};

vector_t make_centre(const int kind, const long dims)
{
    vector_t x0(static_cast<tensor_size_t>(dims));
    for (tensor_size_t k = 0; k < x0.size(); ++k)
    {
        x0(k) = kind == 0 ? 0.0 : (kind == 1 ? 1e3 : ((k % 2 == 0 ? 0.5 : -0.5) * static_cast<double>(k + 1)));
    }
    return x0;
}

/// 0: inside r(1+4eps); 1: inside only when the rounding of the coordinates x0_k + d_k is granted; 2: outside
int judge_ball(const vector_t& x0, const double radius, const vector_t& x, long double& dist, long double& bound)
{
    const long double eps = std::numeric_limits<double>::epsilon();
    long double       s = 0, u = 0;
    bool              finite = x.size() == x0.size();
    for (tensor_size_t k = 0; finite && k < x.size(); ++k)
    {
        finite               = std::isfinite(x(k));
        const long double d  = static_cast<long double>(x(k)) - static_cast<long double>(x0(k));
        const long double ax = std::fabs(x(k));
        const long double ul = static_cast<long double>(std::nextafter(static_cast<double>(ax), HUGE_VAL)) - ax;
        s += d * d;
        u += ul * ul / 4;
    }
    dist  = std::sqrt(s);
    bound = static_cast<long double>(radius) * (1 + 4 * eps);
    if (!finite)
    {
        return 2;
    }
    if (dist <= bound)
    {
        return 0;
    }
    bound += std::sqrt(u);
    return dist <= bound ? 1 : 2;
}

std::string show_vec(const vector_t& v)
{
    return jarr(v.data(), v.data() + v.size(), [](const double x) { return jnum(x); });
}

void check_ball(report_t& r, const std::string& one, const std::string& what, const char* api, const vector_t& x0,
                const double radius, const vector_t& x)
{
    long double dist = 0, bound = 0;
    const auto  verdict = judge_ball(x0, radius, x, dist, bound);
    r.evaluations += 1;
    ++r.nontrivial;
    const auto rel = static_cast<double>(dist / static_cast<long double>(radius));
    r.outcome(verdict == 1 ? "inside-within-coordinate-rounding"
                           : (rel < 0.5 ? "distance<r/2" : (rel < 0.99 ? "r/2<=distance<0.99r" : "distance>=0.99r")));
    if (verdict == 2)
    {
        r.violation(std::string("ball:outside:") + api, one,
                    jobj({{"case", what}, {"x0", show_vec(x0)}, {"x", show_vec(x)},
                          {"distance", jnum(static_cast<double>(dist))}, {"allowed", jnum(static_cast<double>(bound))}}));
    }
}

int self_test()
{
    const iset_t in = {0, 1, 2, 3, 4};
    int          bad = 0;
    bad += judge_pair({0, 1, 2}, {3, 4}, in).empty() ? 0 : 1;              // right answer accepted
    bad += judge_pair({0, 1, 2}, {2, 3, 4}, in).empty() ? 1 : 0;           // overlap
    bad += judge_pair({0, 2, 1}, {3, 4}, in).empty() ? 1 : 0;              // unsorted
    bad += judge_pair({0, 1}, {3, 4}, in).empty() ? 1 : 0;                 // index lost
    bad += judge_pair({0, 1, 2, 2}, {3, 4}, in).empty() ? 1 : 0;           // duplicate
    bad += judge_pair({0, 1, 2}, {3, 4, 5}, in).empty() ? 1 : 0;           // foreign index
    bad += judge_partition({{0, 1}, {2, 3, 4}}, in, 2).empty() ? 0 : 1;    // sizes differ by 1 < 2
    bad += judge_partition({{0}, {1, 2, 3, 4}}, in, 2).empty() ? 1 : 0;    // sizes differ by 3
    bad += judge_partition({{0, 1}, {2, 3}}, in, 2).empty() ? 1 : 0;       // 4 not covered
    bad += judge_partition({{0, 1, 2}, {2, 3, 4}}, in, 2).empty() ? 1 : 0; // overlap
    bad += judge_partition({{0, 1}, {2, 3, 4}}, in, 3).empty() ? 1 : 0;    // wrong number of folds
    bad += (round_percent(10, 5) == 1 && round_percent(10, 4) == 0 && round_percent(33, 40) == 13 &&
            round_percent(85, 10) == 9 && round_percent(90, 40) == 36 &&
            round_percent(67, 7) == std::lround(67 * 7 / 100.0))
               ? 0
               : 1;
    bad += (sorted({1, 1, 2}) && !sorted({2, 1}) && distinct({1, 2}) && !distinct({1, 1}) && members({0, 4}, in) &&
            !members({5}, in))
               ? 0
               : 1;
    vector_t    x0(2), x(2);
    long double d = 0, b = 0;
    x0(0) = 0, x0(1) = 0, x(0) = 0.6, x(1) = 0.8;
    bad += judge_ball(x0, 1.0, x, d, b) == 0 ? 0 : 1;
    x(1) = 0.8000001;
    bad += judge_ball(x0, 1.0, x, d, b) == 2 ? 0 : 1;
    x(1) = std::numeric_limits<double>::quiet_NaN();
    bad += judge_ball(x0, 1.0, x, d, b) == 2 ? 0 : 1;
    return bad;
}
} // namespace

int main(int argc, char** argv)
{
    const auto args  = parse_args(argc, argv);
    const auto stage = args.stage.empty() ? "kfold" : args.stage;
    report_t   r("c12/" + stage, args);

    if (self_test() != 0)
    {
        std::fprintf(stderr, "oracle self-test failed\n");
        return 2;
    }

    // (n, folds) pairs of the exhaustive range, simplest first
    std::vector<std::pair<long, long>> pairs;
    for (long n = 2; n <= 40; ++n)
    {
        for (long k = 2; k <= std::min(n, 12L); ++k)
        {
            pairs.emplace_back(n, k);
        }
    }
    // splitter seeds: the parameter domain is 0..1024
    std::vector<uint64_t> seeds;
    if (args.thorough())
    {
        for (uint64_t s = 0; s <= 1024; ++s)
        {
            seeds.push_back(s);
        }
    }
    else
    {
        seeds = {0, 1, 42, 1024};
    }
    const auto seeds_json = args.thorough() ? jstr("all 0..1024") : jarr_num(seeds);
    const std::vector<long> pcts = {10, 20, 30, 40, 50, 60, 70, 80, 90, 33, 67, 85};
    // generator seeds of the samplers and numbers of replayable std::random_device sequences for the unseeded overloads
    const uint64_t rng_seeds = static_cast<uint64_t>(args.geti("rng_seeds", 1025));
    const uint64_t dev_seeds = static_cast<uint64_t>(args.geti("dev_seeds", args.thorough() ? 64 : 8));

    if (stage == "kfold" || stage == "random")
    {
        const bool kfold = stage == "kfold";
        lattice_t  lat;
        lat.axis("(n,folds)", pairs.size(), jstr("n in 2..40, folds in 2..min(n,12)"));
        lat.axis("seed", seeds.size(), seeds_json);
        if (!kfold)
        {
            lat.axis("train_per", pcts.size(), jarr_num(pcts));
        }
        lat.axis("indices", 3, jarr_str({list_name(0), list_name(1), list_name(2)}));
        lat.describe(r, stage + ".");
        for_each_case(lat, r, stage, [&](const uint64_t index, const std::vector<uint64_t>& d) {
            split_case_t c{};
            c.kfold = kfold;
            c.n     = pairs[d[0]].first;
            c.folds = pairs[d[0]].second;
            c.seed  = seeds[d[1]];
            c.pct   = kfold ? -1 : pcts[d[2]];
            c.list  = static_cast<int>(d[kfold ? 2 : 3]);
            check_split(r, stage + ":" + std::to_string(index), c);
            if (index % 9973 == 0)
            {
                r.sample(describe(c));
            }
        });
    }
    else if (stage == "large")
    {
        // NOT exhaustive: a finite list beyond the exhaustive range
        const std::vector<long> ns    = {41, 48, 55, 62, 69, 76, 83, 90, 97, 100, 1000, 5000};
        const std::vector<long> folds = {2, 3, 7, 10, 12, 37, 100};
        const std::vector<uint64_t> lseeds = {0, 1, 42, 777, 1024};
        lattice_t lat;
        lat.axis("n", ns.size(), jarr_num(ns));
        lat.axis("folds", folds.size(), jarr_num(folds));
        lat.axis("seed", lseeds.size(), jarr_num(lseeds));
        lat.axis("train_per", 5, jarr_num(std::vector<long>{-1, 10, 33, 85, 90}));
        lat.axis("indices", 4, jarr_str({list_name(0), list_name(1), list_name(2), list_name(3)}));
        lat.describe(r, "large.");
        r.assume("stage 'large' is a finite list of larger inputs (n in {41..100 step 7, 100, 1000, 5000}), not an "
                 "exhaustive range; train_per -1 stands for the k-fold splitter");
        const std::vector<long> lp = {-1, 10, 33, 85, 90};
        for_each_case(lat, r, "large", [&](const uint64_t index, const std::vector<uint64_t>& d) {
            split_case_t c{};
            c.n     = ns[d[0]];
            c.folds = folds[d[1]];
            c.seed  = lseeds[d[2]];
            c.pct   = lp[d[3]];
            c.kfold = c.pct < 0;
            c.list  = static_cast<int>(d[4]);
            if (c.kfold && c.folds > c.n)
            {
                r.outcome("skipped:k-fold-with-folds>n");
                return;
            }
            check_split(r, "large:" + std::to_string(index), c);
            // samplers on the same input
            if (c.kfold && d[1] == 0)
            {
                const auto   input = make_list(c.list, c.n);
                const iset_t iset(input.begin(), input.end());
                const auto   one = "large:" + std::to_string(index);
                sample_ctx_t ctx{r, one, input, iset, describe(c)};
                const auto   samples = to_indices(input);
                for (const long count : {0L, 1L, c.n / 3, c.n - 1, c.n})
                {
                    auto rng = make_rng(c.seed);
                    judge_sample(ctx, "sample_without_replacement", sample_without_replacement(samples, count, rng),
                                 count, true, nullptr);
                    judge_sample(ctx, "sample_with_replacement", sample_with_replacement(samples, count, rng), count,
                                 false, nullptr);
                }
                std::vector<double> w(input.size());
                for (size_t i = 0; i < w.size(); ++i)
                {
                    w[i] = (i % 3 == 0) ? 0.0 : static_cast<double>(i % 5);
                }
                auto       rng = make_rng(c.seed);
                const auto wt  = to_tensor(w);
                judge_sample(ctx, "sample_with_replacement(weights)", sample_with_replacement(samples, wt, 2 * c.n, rng),
                             2 * c.n, false, &w);
            }
        });
    }
    else if (stage == "sample")
    {
        lattice_t lat;
        lat.axis("n", 12, jstr("1..12"));
        lat.axis("rng_seed", rng_seeds + dev_seeds,
                 jstr("make_rng(s) for s in 0.." + std::to_string(rng_seeds - 1) + ", then " + std::to_string(dev_seeds) +
                      " replayable std::random_device sequences for the overloads without a generator"));
        lat.axis("indices", 3, jarr_str({list_name(0), list_name(1), list_name(2)}));
        lat.describe(r, "sample.");
        r.axis("sample.count", jstr("without replacement 0..n; with replacement 0..n, n+1, 2n; gboost ratio in "
                                    "{1/4,1/2,3/4,1} x modes off/subsample/bootstrap x 3 rounds"));
        for_each_case(lat, r, "sample", [&](const uint64_t index, const std::vector<uint64_t>& d) {
            const auto   n     = static_cast<long>(d[0]) + 1;
            const auto   input = make_list(static_cast<int>(d[2]), n);
            const iset_t iset(input.begin(), input.end());
            const auto   one      = "sample:" + std::to_string(index);
            const bool   unseeded = d[1] >= rng_seeds;
            const auto   seed     = unseeded ? d[1] - rng_seeds : d[1];
            sample_ctx_t ctx{r, one, input, iset,
                             jobj({{"n", jint(n)}, {unseeded ? "random_device_sequence" : "rng_seed", jint(seed)},
                                   {"indices", jstr(list_name(static_cast<int>(d[2])))}})};
            const auto   samples = to_indices(input);
            auto         rng     = make_rng(seed);
            if (unseeded)
            {
                detrand_reset(seed);
            }
            for (long count = 0; count <= n; ++count)
            {
                const auto got =
                    unseeded ? sample_without_replacement(samples, count) : sample_without_replacement(samples, count, rng);
                judge_sample(ctx, unseeded ? "sample_without_replacement()" : "sample_without_replacement", got, count,
                             true, nullptr);
                if (count > 0 && count < n)
                {
                    ++r.nontrivial;
                }
                r.outcome(count == 0 ? "without:empty" : (count == n ? "without:all" : "without:proper-subset"));
            }
            std::vector<long> counts;
            for (long count = 0; count <= n + 1; ++count)
            {
                counts.push_back(count);
            }
            if (2 * n > n + 1)
            {
                counts.push_back(2 * n);
            }
            for (const auto count : counts)
            {
                const auto got =
                    unseeded ? sample_with_replacement(samples, count) : sample_with_replacement(samples, count, rng);
                judge_sample(ctx, unseeded ? "sample_with_replacement()" : "sample_with_replacement", got, count, false,
                             nullptr);
                if (count > 0 && n > 1)
                {
                    ++r.nontrivial;
                }
                const auto v = to_vec(got);
                r.outcome(count == 0 ? "with:empty" : (distinct(v) ? "with:no-repeats" : "with:repeats"));
            }
            if (unseeded)
            {
                if (detrand_draws() != static_cast<uint64_t>(n + 1) + counts.size())
                {
                    std::fprintf(stderr, "std::random_device is not interposed (%lu draws)\n",
                                 static_cast<unsigned long>(detrand_draws()));
                    std::exit(2);
                }
            }
            else
            {
                check_gboost_plain(ctx, seed);
            }
            if (index % 997 == 0)
            {
                r.sample(ctx.what);
            }
        });
    }
    else if (stage == "weighted")
    {
        const auto wvecs = weight_vectors();
        lattice_t  lat;
        lat.axis("weights", wvecs.size(), jstr("{0,1,3}^n for n in 1..5 with at least one positive weight"));
        lat.axis("rng_seed", rng_seeds + dev_seeds,
                 jstr("make_rng(s) for s in 0.." + std::to_string(rng_seeds - 1) + ", then " + std::to_string(dev_seeds) +
                      " replayable std::random_device sequences for the overload without a generator"));
        lat.axis("indices", 3, jarr_str({list_name(0), list_name(1), list_name(2)}));
        lat.describe(r, "weighted.");
        r.axis("weighted.count", jstr("0,1,2,n,2n,32; gboost ratio in {1/4,1/2,3/4,1} x modes wei_loss/wei_grad x 3 rounds"));
        for_each_case(lat, r, "weighted", [&](const uint64_t index, const std::vector<uint64_t>& d) {
            const auto&  w     = wvecs[d[0]];
            const auto   n     = static_cast<long>(w.size());
            const auto   input = make_list(static_cast<int>(d[2]), n);
            const iset_t iset(input.begin(), input.end());
            const auto   one      = "weighted:" + std::to_string(index);
            const bool   unseeded = d[1] >= rng_seeds;
            const auto   seed     = unseeded ? d[1] - rng_seeds : d[1];
            sample_ctx_t ctx{r, one, input, iset,
                             jobj({{"weights", jarr_num(w)}, {unseeded ? "random_device_sequence" : "rng_seed", jint(seed)},
                                   {"indices", jstr(list_name(static_cast<int>(d[2])))}})};
            const auto   samples = to_indices(input);
            const auto   wt      = to_tensor(w);
            const bool   zeros   = std::count(w.begin(), w.end(), 0.0) > 0;
            auto         rng     = make_rng(seed);
            if (unseeded)
            {
                detrand_reset(seed);
            }
            std::set<long> counts = {0, 1, 2, n, 2 * n, 32};
            for (const auto count : counts)
            {
                const auto got = unseeded ? sample_with_replacement(samples, wt, count)
                                          : sample_with_replacement(samples, wt, count, rng);
                judge_sample(ctx, unseeded ? "sample_with_replacement(weights)()" : "sample_with_replacement(weights)",
                             got, count, false, &w);
                if (zeros && count > 0)
                {
                    ++r.nontrivial;
                }
            }
            r.outcome(zeros ? "some-zero-weights" : "all-weights-positive");
            if (unseeded)
            {
                if (detrand_draws() != counts.size())
                {
                    std::fprintf(stderr, "std::random_device is not interposed\n");
                    std::exit(2);
                }
            }
            else
            {
                check_gboost_weighted(ctx, seed, w);
            }
            if (index % 9973 == 0)
            {
                r.sample(ctx.what);
            }
        });
    }
    else if (stage == "ball")
    {
        lattice_t lat;
        lat.axis("dims", DIMS.size(), jarr_num(DIMS));
        lat.axis("radius", RADII.size(), jarr_num(RADII));
        lat.axis("centre", 3, jarr_str({CENTRES[0], CENTRES[1], CENTRES[2]}));
        lat.axis("rng_seed", rng_seeds + dev_seeds,
                 jstr("make_rng(s) for s in 0.." + std::to_string(rng_seeds - 1) + ", then " + std::to_string(dev_seeds) +
                      " replayable std::random_device sequences for the overloads without a generator"));
        lat.describe(r, "ball.");
        r.assume("ball: a point counts as inside when ||x-x0||_2 <= r(1+4eps) + ||(ulp(x_k)/2)_k||_2, i.e. the rounding "
                 "of each coordinate x0_k + d_k to a double is granted (distance evaluated in long double)");
        for_each_case(lat, r, "ball", [&](const uint64_t index, const std::vector<uint64_t>& d) {
            const auto dims     = DIMS[d[0]];
            const auto radius   = RADII[d[1]];
            const auto x0       = make_centre(static_cast<int>(d[2]), dims);
            const bool unseeded = d[3] >= rng_seeds;
            const auto seed     = unseeded ? d[3] - rng_seeds : d[3];
            const auto one      = "ball:" + std::to_string(index);
            const auto what     = jobj({{"dims", jint(dims)}, {"radius", jnum(radius)}, {"centre", jstr(CENTRES[d[2]])},
                                        {unseeded ? "random_device_sequence" : "rng_seed", jint(seed)}});
            if (unseeded)
            {
                detrand_reset(seed);
                for (int draw = 0; draw < 4; ++draw)
                {
                    check_ball(r, one, what, "returning()", x0, radius, sample_from_ball(x0, radius));
                    vector_t x(x0.size());
                    sample_from_ball(x0, radius, x.tensor());
                    check_ball(r, one, what, "in-place()", x0, radius, x);
                }
                if (detrand_draws() != 8)
                {
                    std::fprintf(stderr, "std::random_device is not interposed\n");
                    std::exit(2);
                }
            }
            else
            {
                auto rng = make_rng(seed);
                for (int draw = 0; draw < 4; ++draw)
                {
                    check_ball(r, one, what, "returning(rng)", x0, radius, sample_from_ball(x0, radius, rng));
                    vector_t x(x0.size());
                    sample_from_ball(x0, radius, x.tensor(), rng);
                    check_ball(r, one, what, "in-place(rng)", x0, radius, x);
                }
            }
            if (index % 997 == 0)
            {
                r.sample(what);
            }
        });
    }
    else
    {
        std::fprintf(stderr, "unknown stage %s\n", stage.c_str());
        return 2;
    }
    return r.finish();
}
