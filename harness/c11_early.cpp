// C11 (early stopping) — explicit-state BFS over (training, validation) error histories on the real
// gboost::early_stopping_t, compared step by step with a reference monitor written from the property statement.
//
// one operation = one call of done() with round r = number of weak learners so far (r = 0 for the bias-only model),
// a training error from {0 (< eps), 1} and a validation error from a 5-value alphabet; the per-sample tensor carries
// the round number in its loss row so that values() identifies the snapshot.
// case encoding: "es:<patience>:<valid 0|1>:<eps index>|op,op,..."
#include "mc.h"
#include "verif.h"
#include <nano/gboost/early_stopping.h>
#include <nano/wlearner.h>

using namespace nano;
using namespace verif;

namespace
{
struct config_t
{
    int    patience  = 1;
    bool   has_valid = true;
    int    ieps      = 0;
    double eps() const { return ieps == 0 ? 1e-6 : 0.05; }
    std::string str() const
    {
        return "es:" + std::to_string(patience) + ":" + std::to_string(has_valid ? 1 : 0) + ":" + std::to_string(ieps);
    }
};

constexpr int NTRAIN = 2; // training error alphabet
constexpr int NVALID = 5; // validation error alphabet
constexpr int NOPS   = NTRAIN * NVALID;

double train_error(const int op)
{
    return (op / NVALID) == 0 ? 1.0 : 0.0; // default first: not converged
}
double valid_error(const int op, const double eps)
{
    switch (op % NVALID)
    {
    case 0: return 0.50;
    case 1: return 0.50 - eps / 2; // not an improvement larger than eps over 0.50
    case 2: return 0.50 - 2 * eps; // an improvement larger than eps over 0.50
    case 3: return 0.40;
    default: return 0.60;
    }
}

tensor2d_t make_values(const config_t& k, const int round, const int op)
{
    // samples 0,1: training, 2,3: validation; row 0 = errors, row 1 = losses (carries the round as a marker)
    tensor2d_t v(2, 4);
    v(0, 0) = train_error(op);
    v(0, 1) = train_error(op);
    v(0, 2) = valid_error(op, k.eps());
    v(0, 3) = valid_error(op, k.eps());
    for (tensor_size_t i = 0; i < 4; ++i)
    {
        v(1, i) = static_cast<scalar_t>(100 * round + op);
    }
    return v;
}

// reference monitor, written from the statement
struct reference_t
{
    bool   stopped    = false;
    bool   any        = false; ///< an improvement was accepted
    int    best_round = 0;
    double best_value = 0.0;
    int    best_op    = -1;
    bool   stop_by_train = false;
    int    stop_round = -1, stop_op = -1;

    void step(const config_t& k, const int round, const int op)
    {
        const auto train = train_error(op);
        const auto valid = k.has_valid ? valid_error(op, k.eps()) : 0.0;
        if (train < k.eps())
        {
            stopped       = true;
            stop_by_train = true;
            stop_round    = round;
            stop_op       = op;
            return;
        }
        if (!k.has_valid || !any || valid < best_value - k.eps())
        {
            any        = true;
            best_round = round;
            best_value = valid;
            best_op    = op;
            return;
        }
        // no improvement larger than eps was accepted in the last `patience` rounds
        if (round - best_round >= k.patience)
        {
            stopped = true;
        }
    }
};

bool same_tensor(const tensor2d_t& a, const tensor2d_t& b)
{
    if (a.dims() != b.dims())
    {
        return false;
    }
    for (tensor_size_t i = 0; i < a.size(); ++i)
    {
        if (std::memcmp(a.data() + i, b.data() + i, sizeof(scalar_t)) != 0)
        {
            return false;
        }
    }
    return true;
}

std::string hist_str(const std::vector<int>& h)
{
    std::string s;
    for (size_t i = 0; i < h.size(); ++i)
    {
        s += (i ? "," : "") + std::to_string(h[i]);
    }
    return s;
}

struct runner_t
{
    config_t      cfg;
    report_t*     r = nullptr;
    rwlearner_t   proto;
    uint64_t      stops = 0, accepts = 0;

    /// replay the history on a fresh monitor; returns the canonical state ("" when the last call stopped)
    std::string apply(const std::vector<int>& hist)
    {
        const indices_t train = make_indices(0, 1);
        const indices_t valid = cfg.has_valid ? indices_t{make_indices(2, 3)} : indices_t{};
        const auto      init  = make_values(cfg, -1, 0);
        gboost::early_stopping_t es(init);
        reference_t              ref;
        rwlearners_t             wl;
        bool                     done = false;
        for (size_t i = 0; i < hist.size(); ++i)
        {
            const int  round = static_cast<int>(i);
            const auto vals  = make_values(cfg, round, hist[i]);
            done             = es.done(vals, train, valid, wl, cfg.eps(), static_cast<size_t>(cfg.patience));
            ref.step(cfg, round, hist[i]);
            const bool last = i + 1 == hist.size();
            if (last)
            {
                judge(hist, es, ref, done);
            }
            if (done != ref.stopped && !last)
            {
                judge(hist, es, ref, done); // cannot continue a history the two disagree on
                return "";
            }
            if (done)
            {
                break;
            }
            wl.emplace_back(proto->clone());
        }
        if (done || ref.stopped)
        {
            return "";
        }
        char buf[96];
        uint64_t bits = 0;
        const double v = es.value();
        std::memcpy(&bits, &v, sizeof(bits));
        std::snprintf(buf, sizeof(buf), "%zu|%zu|%llx|%d", hist.size(), es.round(), static_cast<unsigned long long>(bits),
                      static_cast<int>(es.values()(1, 0)));
        return buf;
    }

    void judge(const std::vector<int>& hist, const gboost::early_stopping_t& es, const reference_t& ref, const bool done)
    {
        const auto one = cfg.str() + "|" + hist_str(hist);
        const auto det = [&](const std::string& what)
        {
            return jobj({{"config", jstr(cfg.str())}, {"history", jstr(hist_str(hist))}, {"what", jstr(what)},
                         {"done", jint(done)}, {"ref_stopped", jint(ref.stopped)}, {"round", jint(es.round())},
                         {"ref_best_round", jint(ref.best_round)}, {"value", jnum(es.value())}});
        };
        if (done != ref.stopped)
        {
            r->violation(done ? "early:stops-too-early" : "early:stops-too-late", one, det("stop decision differs"));
            return;
        }
        if (ref.stopped)
        {
            ++stops;
        }
        if (ref.stopped && ref.stop_by_train)
        {
            // the statement leaves open whether the round at which the training error drops below eps counts as
            // accepted: only the internal consistency of (round, value, values) is demanded
            const int  rr   = static_cast<int>(es.round());
            const bool cur  = rr == ref.stop_round && same_tensor(es.values(), make_values(cfg, ref.stop_round, ref.stop_op));
            const bool best = ref.any && rr == ref.best_round && same_tensor(es.values(), make_values(cfg, ref.best_round, ref.best_op));
            const bool none = !ref.any && rr == 0 && same_tensor(es.values(), make_values(cfg, -1, 0));
            if (!(cur || best || none))
            {
                r->violation("early:inconsistent-snapshot", one, det("round/values do not belong to one round"));
            }
            return;
        }
        if (!ref.any)
        {
            return;
        }
        if (static_cast<int>(es.round()) != ref.best_round)
        {
            r->violation("early:wrong-round", one, det("round() is not the round of the last accepted improvement"));
        }
        else if (!same_tensor(es.values(), make_values(cfg, ref.best_round, ref.best_op)))
        {
            r->violation("early:wrong-values", one, det("values() is not the tensor passed in round()"));
        }
        else if (es.value() != ref.best_value)
        {
            r->violation("early:wrong-value", one, det("value() is not the mean validation error of round()"));
        }
    }
};

bool parse_case(const std::string& s, config_t& k, std::vector<int>& hist)
{
    int        hv  = 1;
    const auto bar = s.find('|');
    if (std::sscanf(s.c_str(), "es:%d:%d:%d", &k.patience, &hv, &k.ieps) != 3)
    {
        return false;
    }
    k.has_valid = hv != 0;
    hist.clear();
    if (bar != std::string::npos)
    {
        const char* q = s.c_str() + bar + 1;
        while (*q)
        {
            hist.push_back(static_cast<int>(std::strtol(q, const_cast<char**>(&q), 10)));
            if (*q == ',')
            {
                ++q;
            }
        }
    }
    return true;
}
} // namespace

int main(int argc, char** argv)
{
    const auto args = parse_args(argc, argv);
    report_t   r("c11/early", args);
    runner_t   run;
    run.r     = &r;
    run.proto = wlearner_t::all().get("affine");
    if (!run.proto)
    {
        std::fprintf(stderr, "no affine weak learner\n");
        return 2;
    }
    // oracle self-test: the reference must stop a flat history after `patience` rounds and not before
    {
        config_t    k;
        k.patience = 2;
        reference_t ref;
        ref.step(k, 0, 0);
        ref.step(k, 1, 0);
        const bool early = ref.stopped;
        ref.step(k, 2, 0);
        if (early || !ref.stopped || ref.best_round != 0)
        {
            std::fprintf(stderr, "reference self-test failed\n");
            return 2;
        }
    }
    if (!args.one.empty())
    {
        std::vector<int> hist;
        if (!parse_case(args.one, run.cfg, hist))
        {
            return 2;
        }
        run.apply(hist);
        r.evaluations = 1;
        r.transitions = 1;
        r.states      = 1;
        r.traces      = 1;
        return r.finish();
    }
    const int depth = static_cast<int>(args.geti("depth", args.thorough() ? 12 : 8));
    r.axis("training_error_alphabet", jstr("{1 (>= eps), 0 (< eps)}"));
    r.axis("validation_error_alphabet", jstr("{0.50, 0.50-eps/2, 0.50-2eps, 0.40, 0.60}"));
    r.axis("patience", jstr("1..4"));
    r.axis("validation_samples", jstr("{present, absent}"));
    r.axis("epsilon", jstr("{1e-6, 0.05}"));
    r.axis("max_history_length", jint(depth));
    uint64_t index = 0;
    for (int patience = 1; patience <= 4; ++patience)
    {
        for (int hv = 1; hv >= 0; --hv)
        {
            for (int ieps = 0; ieps < 2; ++ieps, ++index)
            {
                if (!args.mine(index))
                {
                    continue;
                }
                run.cfg.patience  = patience;
                run.cfg.has_valid = hv != 0;
                run.cfg.ieps      = ieps;
                const auto st     = mc::bfs(
                    NOPS, depth, [&](const std::vector<int>& h) { return run.apply(h); }, [&] { return r.out_of_time(); });
                r.states += st.states;
                r.transitions += st.transitions;
                r.traces += st.transitions;
                r.evaluations += st.transitions;
                if (!st.replay_ok)
                {
                    std::fprintf(stderr, "canon-on-replay failed\n");
                    return 2;
                }
                if (!st.complete)
                {
                    r.cap("deadline hit in " + run.cfg.str());
                }
                r.sample(jobj({{"config", jstr(run.cfg.str())}, {"states", jint(st.states)}, {"transitions", jint(st.transitions)},
                               {"max_depth", jint(st.max_depth)}}));
            }
        }
    }
    r.nontrivial = run.stops;
    r.outcome("histories ending in a stop", run.stops);
    r.assume("the round at which the training error drops below epsilon may or may not count as accepted (statement is "
             "silent): only consistency of (round, value, values) is demanded there");
    return r.finish();
}
