// C18 — shared const objects used concurrently: results bit-identical to the solo call (rel build) and no data
// race (the same bodies in the tsan build). Configuration lattice, free-running threads.
//
// stages: solvers | objects | fit
#include "models.h"
#include "verif.h"
#include "vsched.h"
#include <atomic>
#include <nano/dataset/iterator.h>
#include <nano/gboost/enums.h>
#include <nano/solver.h>
#include <thread>

using namespace nano;
using namespace verif;

namespace
{
bool same_bits(const double a, const double b)
{
    return std::memcmp(&a, &b, sizeof(double)) == 0;
}
template <class ta, class tb>
bool same_tensor(const ta& a, const tb& b)
{
    if (a.size() != b.size())
    {
        return false;
    }
    for (tensor_size_t i = 0; i < a.size(); ++i)
    {
        if (!same_bits(static_cast<double>(a(i)), static_cast<double>(b(i))))
        {
            return false;
        }
    }
    return true;
}

struct outcome_t
{
    vector_t      x;
    double        fx = 0;
    int           status = 0;
    tensor_size_t fcalls = 0, gcalls = 0;
    bool          thrown = false;
    bool operator==(const outcome_t& o) const
    {
        return thrown == o.thrown && status == o.status && fcalls == o.fcalls && gcalls == o.gcalls && same_bits(fx, o.fx) &&
               same_tensor(x, o.x);
    }
};

outcome_t run_solver(const solver_t& solver, const function_t& function, const vector_t& x0)
{
    outcome_t o;
    try
    {
        const auto state = solver.minimize(function, x0, make_null_logger());
        o.x              = state.x();
        o.fx             = state.fx();
        o.status         = static_cast<int>(state.status());
        o.fcalls         = state.fcalls();
        o.gcalls         = state.gcalls();
    }
    catch (const std::exception&)
    {
        o.thrown = true;
    }
    return o;
}

template <class tbody>
void in_threads(const int K, const tbody& body)
{
    std::vector<std::thread> threads;
    std::atomic<int>         go{0};
    for (int t = 0; t < K; ++t)
    {
        threads.emplace_back(
            [&, t]
            {
                go.fetch_add(1);
                while (go.load() < K)
                {
                    std::this_thread::yield();
                }
                body(t);
            });
    }
    for (auto& th : threads)
    {
        th.join();
    }
}
} // namespace

int main(int argc, char** argv)
{
    const auto args  = parse_args(argc, argv);
    const auto stage = args.stage.empty() ? "solvers" : args.stage;
    report_t   r("c18/" + stage, args);
    const bool small = args.get("small", "0") == "1"; // tsan variant: fewer repetitions
    const bool T     = args.thorough();

    if (stage == "solvers")
    {
        std::vector<std::string> ids;
        for (const auto& id : solver_t::all().ids())
        {
            // the gradient-sampling solvers draw from std::random_device: not deterministic by design
            if (id != "gs" && id != "ags" && id != "gs-lbfgs" && id != "ags-lbfgs" && id != "augmented-lagrangian" && id != "penalty"
                && id.find("penalty") == std::string::npos)
            {
                ids.push_back(id);
            }
        }
        const std::vector<std::string> fids = {"sphere", "rosenbrock", "quadratic", "trid", "exponential", "chung-reynolds"};
        const std::vector<int>         Ks   = small ? std::vector<int>{2, 4} : (T ? std::vector<int>{2, 4, 16} : std::vector<int>{2, 4});
        // line-search configurations: default, and every lsearch0 / lsearchk id (applies to line-search solvers only)
        const std::vector<std::string> ls0 = lsearch0_t::all().ids();
        const std::vector<std::string> lsk = lsearchk_t::all().ids();
        const auto                     nls = 1 + ls0.size() + lsk.size();
        lattice_t lat;
        lat.axis("solver", ids.size(), jarr_str(ids));
        lat.axis("threads", Ks.size(), jarr_num(Ks));
        lat.axis("dims", 2, jstr("2, 5"));
        lat.axis("line_search", nls, jstr("default | each lsearch0 id | each lsearchk id (line-search solvers only)"));
        lat.describe(r);
        r.axis("functions", jarr_str(fids));
        for_each_case(lat, r, "solvers", [&](const uint64_t index, const std::vector<uint64_t>& d) {
            const auto& id     = ids[d[0]];
            const int   K      = Ks[d[1]];
            const auto  dims   = d[2] == 0 ? 2 : 5;
            auto        solver = solver_t::all().get(id);
            if (d[3] > 0)
            {
                if (solver->type() != solver_type::line_search)
                {
                    return;
                }
                if (d[3] <= ls0.size())
                {
                    solver->lsearch0(ls0[d[3] - 1]);
                }
                else
                {
                    solver->lsearchk(lsk[d[3] - 1 - ls0.size()]);
                }
            }
            solver->parameter("solver::max_evals") = 150;
            solver->parameter("solver::epsilon")   = 1e-8;
            // per-thread function objects and starting points
            std::vector<rfunction_t> functions;
            std::vector<vector_t>    x0s;
            for (int t = 0; t < K; ++t)
            {
                const auto proto = function_t::all().get(fids[static_cast<size_t>(t) % fids.size()]);
                functions.push_back(proto->make(dims, 10));
                vector_t x0(functions.back()->size());
                for (tensor_size_t i = 0; i < x0.size(); ++i)
                {
                    x0(i) = vt::generic(static_cast<uint64_t>(i), static_cast<uint64_t>(t) + 3);
                }
                x0s.push_back(x0);
            }
            // solo references (fresh function objects so that call counters start from zero)
            std::vector<outcome_t> solo(static_cast<size_t>(K)), conc(static_cast<size_t>(K));
            for (int t = 0; t < K; ++t)
            {
                const auto f = functions[static_cast<size_t>(t)]->clone();
                solo[static_cast<size_t>(t)] = run_solver(*solver, *f, x0s[static_cast<size_t>(t)]);
            }
            const solver_t& shared = *solver;
            in_threads(K, [&](const int t) { conc[static_cast<size_t>(t)] = run_solver(shared, *functions[static_cast<size_t>(t)], x0s[static_cast<size_t>(t)]); });
            r.evaluations += 1;
            ++r.nontrivial;
            int bad = -1;
            for (int t = 0; t < K; ++t)
            {
                if (!(solo[static_cast<size_t>(t)] == conc[static_cast<size_t>(t)]))
                {
                    bad = t;
                }
            }
            r.outcome(solo[0].thrown ? "solver-threw" : "status-" + std::to_string(solo[0].status));
            if (bad >= 0)
            {
                const auto& a = solo[static_cast<size_t>(bad)];
                const auto& b = conc[static_cast<size_t>(bad)];
                r.violation("shared-solver:" + id, "solvers:" + std::to_string(index),
                            jobj({{"solver", jstr(id)}, {"threads", jint(K)}, {"dims", jint(dims)}, {"line_search", jint(d[3])}, {"thread", jint(bad)},
                                  {"solo_fx", jnum(a.fx)}, {"concurrent_fx", jnum(b.fx)}, {"solo_fcalls", jint(a.fcalls)},
                                  {"concurrent_fcalls", jint(b.fcalls)}, {"solo_status", jint(a.status)}, {"concurrent_status", jint(b.status)}}));
            }
            if (index % 17 == 0)
            {
                r.sample(jobj({{"solver", jstr(id)}, {"threads", jint(K)}, {"dims", jint(dims)}}));
            }
        });
    }
    else if (stage == "objects")
    {
        const auto             lids = loss_t::all().ids();
        const std::vector<int> Ks   = small ? std::vector<int>{2, 4} : std::vector<int>{2, 4, 16};
        lattice_t              lat;
        lat.axis("kind", 3, jstr("loss value/vgrad on shared tensors | dataset flatten/select/targets | fitted model predict"));
        lat.axis("threads", Ks.size(), jarr_num(Ks));
        lat.axis("variant", lids.size(), jstr("loss id (kind 0) / dataset threads & model variant (kinds 1,2), modulo"));
        lat.describe(r);
        for_each_case(lat, r, "objects", [&](const uint64_t index, const std::vector<uint64_t>& d) {
            const int K = Ks[d[1]];
            bool      ok = true;
            std::string what;
            if (d[0] == 0)
            {
                const auto loss = loss_t::all().get(lids[d[2]]);
                const bool cls  = lids[d[2]].rfind("s-", 0) == 0 || lids[d[2]].rfind("m-", 0) == 0;
                tensor4d_t targets(make_dims(7, 3, 1, 1)), outputs(make_dims(7, 3, 1, 1));
                for (tensor_size_t i = 0; i < targets.size(); ++i)
                {
                    outputs(i) = 2.0 * vt::generic(static_cast<uint64_t>(i), 1);
                    targets(i) = cls ? ((i % 3 == (i / 3) % 3) ? 1.0 : -1.0) : vt::generic(static_cast<uint64_t>(i), 2);
                }
                tensor1d_t v0, e0;
                tensor4d_t g0;
                loss->value(targets, outputs, v0);
                loss->error(targets, outputs, e0);
                loss->vgrad(targets, outputs, g0);
                std::vector<int> good(static_cast<size_t>(K), 0);
                const loss_t&    shared = *loss;
                in_threads(K,
                           [&](const int t)
                           {
                               bool same = true;
                               for (int rep = 0; rep < 20; ++rep)
                               {
                                   tensor1d_t v, e;
                                   tensor4d_t g;
                                   shared.value(targets, outputs, v);
                                   shared.error(targets, outputs, e);
                                   shared.vgrad(targets, outputs, g);
                                   same = same && same_tensor(v, v0) && same_tensor(e, e0) && same_tensor(g, g0);
                               }
                               good[static_cast<size_t>(t)] = same ? 1 : 0;
                           });
                for (const auto g : good)
                {
                    ok = ok && g == 1;
                }
                what = "loss " + lids[d[2]];
            }
            else
            {
                const size_t dthreads = (d[2] % 3 == 0) ? 1 : (d[2] % 3 == 1) ? 2 : 16;
                const auto   source   = vt::make_model_source(24, 0, true, d[2] % 2);
                const auto   dataset  = vt::make_model_dataset(*source, dthreads);
                const auto   all      = arange(0, 24);
                if (d[0] == 1)
                {
                    tensor2d_t fb;
                    tensor4d_t tb;
                    scalar_mem_t sb;
                    sclass_mem_t cb;
                    const tensor2d_t f0 = dataset.flatten(all, fb);
                    const tensor4d_t t0 = dataset.targets(all, tb);
                    std::vector<int> good(static_cast<size_t>(K), 0);
                    in_threads(K,
                               [&](const int t)
                               {
                                   bool       same = true;
                                   tensor2d_t fbuf;
                                   tensor4d_t tbuf;
                                   for (int rep = 0; rep < 10; ++rep)
                                   {
                                       same = same && same_tensor(dataset.flatten(all, fbuf), f0);
                                       same = same && same_tensor(dataset.targets(all, tbuf), t0);
                                   }
                                   good[static_cast<size_t>(t)] = same ? 1 : 0;
                               });
                    for (const auto g : good)
                    {
                        ok = ok && g == 1;
                    }
                    what = "dataset views, dataset threads " + std::to_string(dthreads);
                }
                else
                {
                    auto       model  = vt::make_gboost(static_cast<int>(d[2] % 3));
                    const auto loss   = loss_t::all().get("mse");
                    const auto params = vt::make_fit_params(2, "local-search");
                    model.fit(dataset, all, *loss, params);
                    const tensor4d_t      p0 = model.predict(dataset, all);
                    std::vector<int>      good(static_cast<size_t>(K), 0);
                    const gboost_model_t& shared = model;
                    in_threads(K,
                               [&](const int t)
                               {
                                   bool same = true;
                                   for (int rep = 0; rep < 5; ++rep)
                                   {
                                       same = same && same_tensor(shared.predict(dataset, all), p0);
                                   }
                                   good[static_cast<size_t>(t)] = same ? 1 : 0;
                               });
                    for (const auto g : good)
                    {
                        ok = ok && g == 1;
                    }
                    what = "gboost predict, pool " + std::to_string(d[2] % 3);

                    // a fitted linear model shared the same way: calls that fit in one batch (run inline by the caller) and
                    // calls split into several batches over the dataset's pool
                    auto lin = linear_t::all().get(d[2] % 2 == 0 ? "ridge" : "ordinary");
                    lin->parameter("linear::batch") = d[2] % 3 == 0 ? 100 : 10;
                    lin->fit(dataset, all, *loss, params);
                    const tensor4d_t q0      = lin->predict(dataset, all);
                    const linear_t&  sharedl = *lin;
                    std::vector<int> goodl(static_cast<size_t>(K), 0);
                    in_threads(K,
                               [&](const int t)
                               {
                                   bool same = true;
                                   for (int rep = 0; rep < 5; ++rep)
                                   {
                                       same = same && same_tensor(sharedl.predict(dataset, all), q0);
                                   }
                                   goodl[static_cast<size_t>(t)] = same ? 1 : 0;
                               });
                    for (const auto g : goodl)
                    {
                        if (g != 1)
                        {
                            ok   = false;
                            what = "linear predict (batch " + std::to_string(d[2] % 3 == 0 ? 100 : 10) + ") on a shared fitted model";
                        }
                    }
                }
            }
            r.evaluations += 1;
            ++r.nontrivial;
            r.outcome(d[0] == 0 ? "loss" : d[0] == 1 ? "dataset" : "model");
            if (!ok)
            {
                r.violation("shared-object:" + std::string(d[0] == 0 ? "loss" : d[0] == 1 ? "dataset" : "model"), "objects:" + std::to_string(index),
                            jobj({{"what", jstr(what)}, {"threads", jint(K)}}));
            }
            if (index % 29 == 0)
            {
                r.sample(jobj({{"what", jstr(what)}, {"threads", jint(K)}}));
            }
        });
    }
    else if (stage == "fit")
    {
        // (dataset pool, hardware threads seen by ml::tune) in {1,2,16}^2, models: 4 linear + 3 gboost pools x subsample
        const std::vector<std::string> lin = {"ordinary", "lasso", "ridge", "elastic_net"};
        const size_t                   nmodels = lin.size() + (small ? 2 : 6);
        lattice_t                      lat;
        lat.axis("model", nmodels, jstr("ordinary, lasso, ridge, elastic_net, gboost{stump}, gboost{stump,table}, gboost{affine,dtree}, the same three with subsample (fixed seed)"));
        lat.axis("target", 2, jstr("regression (mse) | 2-class (s-logistic / s-classnll)"));
        lat.describe(r);
        r.axis("pools", jstr("(dataset threads, hardware threads for ml::tune) in {1,2,16}^2; baseline (1,1)"));
        for_each_case(lat, r, "fit", [&](const uint64_t index, const std::vector<uint64_t>& d) {
            const bool cls    = d[1] == 1;
            const auto source = vt::make_model_source(24, cls ? 2 : 0, true);
            const auto loss   = loss_t::all().get(cls ? "s-logistic" : "mse");
            const auto all    = arange(0, 24);
            struct fitted_t
            {
                tensor4d_t          predictions;
                indices_t           features;
                bool                thrown = false;
                tensor_size_t       trials = 0;
                std::vector<double> stats; ///< mean error / loss per (trial, fold, split)
            };
            const auto record = [](fitted_t& out, const ml::result_t& result)
            {
                out.trials = result.trials();
                for (tensor_size_t t = 0; t < result.trials(); ++t)
                {
                    for (tensor_size_t f = 0; f < result.folds(); ++f)
                    {
                        for (const auto split : {ml::split_type::train, ml::split_type::valid})
                        {
                            for (const auto value : {ml::value_type::errors, ml::value_type::losses})
                            {
                                out.stats.push_back(result.stats(t, f, split, value).m_mean);
                            }
                        }
                    }
                }
            };
            const auto fit = [&](const size_t dthreads, const int hw) -> fitted_t
            {
                sched::set_hw_threads(hw);
                const auto dataset = vt::make_model_dataset(*source, dthreads);
                fitted_t   out;
                try
                {
                    if (d[0] < lin.size())
                    {
                        auto       model  = linear_t::all().get(lin[d[0]]);
                        const auto params = vt::make_fit_params(2, "local-search");
                        record(out, model->fit(dataset, all, *loss, params));
                        out.predictions = model->predict(dataset, all);
                    }
                    else
                    {
                        const auto k     = d[0] - lin.size();
                        auto       model = vt::make_gboost(static_cast<int>(k % 3));
                        if (k >= 3)
                        {
                            model.parameter("gboost::subsample")       = gboost_subsample::subsample;
                            model.parameter("gboost::subsample_ratio") = 0.8;
                            model.parameter("gboost::seed")            = 7;
                        }
                        const auto params = vt::make_fit_params(2, "local-search");
                        record(out, model.fit(dataset, all, *loss, params));
                        out.predictions = model.predict(dataset, all);
                        out.features    = model.features();
                    }
                }
                catch (const std::exception&)
                {
                    out.thrown = true;
                }
                return out;
            };
            const auto base = fit(1, 1);
            for (const size_t dthreads : {size_t{1}, size_t{2}, size_t{16}})
            {
                for (const int hw : {1, 2, 16})
                {
                    if (dthreads == 1 && hw == 1)
                    {
                        continue;
                    }
                    if (small && !(dthreads == 2 && hw == 2) && !(dthreads == 16 && hw == 16))
                    {
                        continue;
                    }
                    const auto other = fit(dthreads, hw);
                    r.evaluations += 1;
                    ++r.nontrivial;
                    r.outcome(base.thrown ? "fit-threw" : "fitted");
                    bool   same = base.thrown == other.thrown && base.features.size() == other.features.size();
                    double err  = 0;
                    if (same && !base.thrown)
                    {
                        same = same_tensor(base.features, other.features) && base.predictions.size() == other.predictions.size();
                        for (tensor_size_t i = 0; same && i < base.predictions.size(); ++i)
                        {
                            err = std::max(err, std::fabs(base.predictions(i) - other.predictions(i)) / (1.0 + std::fabs(base.predictions(i))));
                        }
                        same = same && err <= 1e-5;
                        // the stored per-(trial, fold) statistics and the sequence of trials must not depend on the pools either
                        same = same && base.trials == other.trials && base.stats.size() == other.stats.size();
                        for (size_t i = 0; same && i < base.stats.size(); ++i)
                        {
                            const auto e = std::fabs(base.stats[i] - other.stats[i]) / (1.0 + std::fabs(base.stats[i]));
                            err          = std::max(err, e);
                            same         = e <= 1e-5;
                        }
                    }
                    if (!same)
                    {
                        r.violation("fit-depends-on-threads", "fit:" + std::to_string(index),
                                    jobj({{"model", jint(d[0])}, {"classification", jint(cls)}, {"dataset_threads", jint(dthreads)},
                                          {"hardware_threads", jint(hw)}, {"max_relative_error", jnum(err)}}));
                    }
                }
            }
            sched::set_hw_threads(0);
            purge_tmpdir();
            if (index % 3 == 0)
            {
                r.sample(jobj({{"model", jint(d[0])}, {"classification", jint(cls)}}));
            }
        });
    }
    r.assume("free-running threads: the schedules are whatever the OS produces; the tsan build of these bodies is the race "
             "oracle (a dynamic detector over enumerated configurations, not an exhaustive schedule search)");
    return r.finish();
}
