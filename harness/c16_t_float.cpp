// C16: the checks of c16_impl.cpp instantiated for one scalar type
#define C16_TYPE float
#define C16_NAME float
#define C16_ASAN 0
#include "c16_impl.cpp"
