// C14 — feature scaling is invertible; the un-scaled linear model is the same predictor (E3, bounded exhaustive).
//
// Every case builds a REAL in-memory datasource + dataset_t (one identity generator per input column so that the
// flatten layout is exactly the enumerated one), takes the statistics from scalar_stats_t::make_flatten_stats /
// make_targets_stats and drives scalar_stats_t::scale / upscale, nano::upscale(W, b) and nano::linear::predict.
//
// stages (selected with --stage):
//   inputs  : rows x every 1-, 2- (and, thorough, 3-) tuple of input columns over the column alphabet x column map x
//             a thin list of target specifications                                  (tags in1, in2, in3)
//   targets : rows x every 1- and 2-tuple of target columns over the NaN-free part of the alphabet x a thin list of
//             input specifications                                                  (tag tg)
// inside every case: 4 scaling modes on either side (round trip, advertised moments, NaN -> 0, categorical
// untouched), then 4 x 4 modes x 4 weight matrices x 4 biases for the model equivalence.
//
// Oracle (independent of the code under test): two-pass long double statistics over the finite values; the
// advertised moments are recomputed from the scaled values; the two prediction paths are compared with the
// tolerance of the statement, 64 * eps * sum |terms|.
#include "verif.h"
#include <nano/dataset.h>
#include <nano/dataset/stats.h>
#include <nano/datasource.h>
#include <nano/generator/elemwise_identity.h>
#include <nano/linear/util.h>

using namespace nano;
using namespace verif;

namespace
{
constexpr double NaNv = std::numeric_limits<double>::quiet_NaN();
constexpr double EPS  = std::numeric_limits<double>::epsilon();

// ---------------------------------------------------------------------------------------------
// alphabets (simplest first)
enum pattern_t
{
    P_CONST = 0,
    P_TWO,
    P_RAMP,
    P_NEAR,
    P_SINGLE,
    P_CONST_NAN,
    P_RAMP_NAN,
    P_ALLNAN,
    P_COUNT
};
const char* const PATTERN_NAMES[P_COUNT] = {"constant(c..c)",
                                            "two-values(c,3c,c,3c..)",
                                            "ramp(c,2c,3c..)",
                                            "near-constant(c,c(1+1e-12),c,..)",
                                            "single-finite(c,NaN..)",
                                            "constant-one-NaN(c..c,NaN)",
                                            "ramp-with-NaNs(c,NaN,3c,NaN..)",
                                            "all-NaN"};
constexpr int     NMAGS                 = 5;
const double      MAGS[NMAGS]           = {1.0, 0.1, 1e3, 1e-6, 1e6};
constexpr int     NROWS                 = 4;
const int         ROWS[NROWS]           = {1, 2, 3, 7};
constexpr int     NMODES                = 4;
const scaling_type MODES[NMODES]        = {scaling_type::none, scaling_type::mean, scaling_type::minmax,
                                           scaling_type::standard};
const char* const MODE_NAMES[NMODES]    = {"none", "mean", "minmax", "standard"};
constexpr int     M_NONE = 0, M_MEAN = 1, M_MINMAX = 2, M_STANDARD = 3;

struct colspec_t
{
    int pattern = 0;
    int mag     = 0;
    int sign    = 0; ///< 0: +, 1: -
    double c() const { return (sign == 0 ? 1.0 : -1.0) * MAGS[mag]; }
    std::string str() const
    {
        return std::string(PATTERN_NAMES[pattern]) + " c=" + jnum(c());
    }
};

// full column alphabet: pattern-major, then magnitude, then sign => 8 * 5 * 2 = 80
constexpr uint64_t NCOLS_FULL = P_COUNT * NMAGS * 2;
colspec_t          col_full(const uint64_t i)
{
    return {static_cast<int>(i / (NMAGS * 2)), static_cast<int>((i / 2) % NMAGS), static_cast<int>(i % 2)};
}
// NaN-free part (targets cannot be optional in a datasource): patterns constant, two-values, ramp, near-constant
constexpr uint64_t NCOLS_FINITE = 4 * NMAGS * 2;
colspec_t          col_finite(const uint64_t i)
{
    return col_full(i); // the four NaN-free patterns come first in the enumeration
}
// thinned alphabet of the third column of a triple: all 8 patterns x magnitudes {1, 1e-6, 1e6} x sign +
constexpr uint64_t NCOLS_THIRD = P_COUNT * 3;
colspec_t          col_third(const uint64_t i)
{
    static const int mags[3] = {0, 3, 4};
    return {static_cast<int>(i / 3), mags[i % 3], 0};
}

std::vector<double> column_values(const colspec_t& s, const int n)
{
    std::vector<double> v(static_cast<size_t>(n));
    const double        c = s.c();
    for (int i = 0; i < n; ++i)
    {
        double x = NaNv;
        switch (s.pattern)
        {
        case P_CONST: x = c; break;
        case P_TWO: x = c * (1 + 2 * (i % 2)); break;
        case P_RAMP: x = c * (i + 1); break;
        case P_NEAR: x = (i % 2 == 1) ? c * (1.0 + 1e-12) : c; break;
        case P_SINGLE: x = (i == 0) ? c : NaNv; break;
        case P_CONST_NAN: x = (i == n - 1) ? NaNv : c; break;
        case P_RAMP_NAN: x = (i % 2 == 1) ? NaNv : c * (i + 1); break;
        default: break;
        }
        v[static_cast<size_t>(i)] = x;
    }
    return v;
}

// ---------------------------------------------------------------------------------------------
// one enumerated case
struct case_t
{
    int                              n = 1;
    std::vector<colspec_t>           in_spec;
    std::vector<std::vector<double>> in;  ///< [column][row], NaN = missing
    std::vector<char>                cat; ///< input column is categorical (2 classes)
    bool                             target_sclass = false;
    std::vector<colspec_t>           tg_spec;
    std::vector<std::vector<double>> tg; ///< [column][row], all finite

    int C() const { return static_cast<int>(in.size()); }
    int T() const { return target_sclass ? 2 : static_cast<int>(tg.size()); }

    std::string json() const
    {
        std::vector<std::string> cols;
        for (size_t j = 0; j < in.size(); ++j)
        {
            cols.push_back(jobj({{"kind", jstr(cat[j] ? "categorical" : "continuous")},
                                 {"spec", jstr(in_spec[j].str())},
                                 {"values", jarr_num(in[j])}}));
        }
        std::vector<std::string> tcols;
        for (size_t j = 0; j < tg.size(); ++j)
        {
            tcols.push_back(jobj({{"spec", jstr(tg_spec[j].str())}, {"values", jarr_num(tg[j])}}));
        }
        return jobj({{"rows", jint(n)},
                     {"inputs", jarr(cols.begin(), cols.end(), [](const std::string& s) { return s; })},
                     {"targets", target_sclass
                                     ? jstr("single-label target with 2 classes, label = row % 2")
                                     : jarr(tcols.begin(), tcols.end(), [](const std::string& s) { return s; })}});
    }
};

/// label of a categorical column: missing where NaN, class 0 where equal to the first finite value, else class 1
int cat_label(const std::vector<double>& col, const size_t row)
{
    if (!std::isfinite(col[row]))
    {
        return -1;
    }
    for (const double v : col)
    {
        if (std::isfinite(v))
        {
            return col[row] == v ? 0 : 1;
        }
    }
    return -1;
}

class c14_datasource_t final : public datasource_t
{
public:
    explicit c14_datasource_t(const case_t& c)
        : datasource_t("c14")
        , m_case(c)
    {
    }

    rdatasource_t clone() const override { return std::make_unique<c14_datasource_t>(*this); }

private:
    void do_load() override
    {
        const auto& c = m_case;
        features_t  features;
        for (int j = 0; j < c.C(); ++j)
        {
            const auto name = "x" + std::to_string(j);
            features.push_back(c.cat[static_cast<size_t>(j)] ? feature_t{name}.sclass(strings_t{"a", "b"})
                                                             : feature_t{name}.scalar(feature_type::float64));
        }
        features.push_back(c.target_sclass
                               ? feature_t{"y"}.sclass(strings_t{"u", "v"})
                               : feature_t{"y"}.scalar(feature_type::float64, make_dims(c.T(), 1, 1)));
        resize(c.n, features, features.size() - 1U);

        for (int j = 0; j < c.C(); ++j)
        {
            const auto& col = c.in[static_cast<size_t>(j)];
            for (int i = 0; i < c.n; ++i)
            {
                if (c.cat[static_cast<size_t>(j)])
                {
                    if (const auto label = cat_label(col, static_cast<size_t>(i)); label >= 0)
                    {
                        set(i, j, label);
                    }
                }
                else if (std::isfinite(col[static_cast<size_t>(i)]))
                {
                    set(i, j, col[static_cast<size_t>(i)]);
                }
            }
        }
        for (int i = 0; i < c.n; ++i)
        {
            if (c.target_sclass)
            {
                set(i, c.C(), i % 2);
            }
            else
            {
                tensor1d_t value(c.T());
                for (int t = 0; t < c.T(); ++t)
                {
                    value(t) = c.tg[static_cast<size_t>(t)][static_cast<size_t>(i)];
                }
                set(i, c.C(), value);
            }
        }
    }

    case_t m_case;
};

// ---------------------------------------------------------------------------------------------
// the oracle
struct refstats_t
{
    long        N   = 0;
    double      min = 0, max = 0;
    long double mean = 0, stdev = 0; ///< two-pass, sample deviation (N - 1) as the repository's own tests fix it
    double      mag = 0;             ///< max |finite value|
    bool        nondegenerate = false; ///< N >= 2 and max - min >= 1e-3 * mag
    const char* klass = "empty";
};

refstats_t ref_stats(const std::vector<double>& v)
{
    refstats_t r;
    long double sum = 0;
    bool        first = true;
    for (const double x : v)
    {
        if (std::isfinite(x))
        {
            ++r.N;
            sum += x;
            r.min = first ? x : std::min(r.min, x);
            r.max = first ? x : std::max(r.max, x);
            r.mag = std::max(r.mag, std::fabs(x));
            first = false;
        }
    }
    if (r.N > 0)
    {
        r.mean = sum / static_cast<long double>(r.N);
    }
    if (r.N > 1)
    {
        long double ss = 0;
        for (const double x : v)
        {
            if (std::isfinite(x))
            {
                ss += (static_cast<long double>(x) - r.mean) * (static_cast<long double>(x) - r.mean);
            }
        }
        r.stdev = std::sqrt(ss / static_cast<long double>(r.N - 1));
    }
    r.nondegenerate = r.N >= 2 && (r.max - r.min) >= 1e-3 * r.mag;
    r.klass         = r.N == 0          ? "empty"
                    : r.N == 1          ? "single-value"
                    : r.min == r.max    ? "constant-column"
                    : !r.nondegenerate  ? "near-constant-column"
                                        : "column";
    return r;
}

/// clause "scaling followed by up-scaling returns the original finite values": relative 1e-9 of the column magnitude
bool roundtrip_ok(const double original, const double returned, const double mag)
{
    return std::isfinite(returned) && std::fabs(returned - original) <= 1e-9 * mag;
}

/// clause "scaled columns have the advertised range/mean/deviation" (scaling.h), on the scaled finite entries
/// returns an empty string when fine, else what is wrong
std::string advertised_defect(const int mode, const std::vector<double>& s)
{
    const auto  n   = static_cast<long double>(s.size());
    long double sum = 0, lo = s[0], hi = s[0];
    for (const double x : s)
    {
        if (!std::isfinite(x))
        {
            return "non-finite scaled value";
        }
        sum += x;
        lo = std::min<long double>(lo, x);
        hi = std::max<long double>(hi, x);
    }
    const long double mean = sum / n;
    long double       ss   = 0;
    for (const double x : s)
    {
        ss += (x - mean) * (x - mean);
    }
    const long double dev = std::sqrt(ss / (n - 1));
    const long double tol = 1e-9L;
    switch (mode)
    {
    case M_MINMAX:
        if (std::fabs(lo) > tol) return "minimum " + jnum(static_cast<double>(lo)) + " != 0";
        if (std::fabs(hi - 1) > tol) return "maximum " + jnum(static_cast<double>(hi)) + " != 1";
        break;
    case M_MEAN:
        if (std::fabs(mean) > tol) return "mean " + jnum(static_cast<double>(mean)) + " != 0";
        if (std::fabs(hi - lo - 1) > tol) return "range " + jnum(static_cast<double>(hi - lo)) + " != 1";
        break;
    case M_STANDARD:
        if (std::fabs(mean) > tol) return "mean " + jnum(static_cast<double>(mean)) + " != 0";
        if (!(std::fabs(dev - 1) <= tol)) return "deviation " + jnum(static_cast<double>(dev)) + " != 1";
        break;
    default: break;
    }
    return "";
}

/// clause "predictions ... equal ... up to floating-point rounding relative to the magnitude of the summed terms"
bool model_ok(const double a, const double b, const long double sum_abs_terms)
{
    return std::isfinite(a) && std::isfinite(b) &&
           std::fabs(static_cast<long double>(a) - static_cast<long double>(b)) <= 64.0L * EPS * sum_abs_terms;
}

bool oracle_selftest()
{
    bool ok = true;
    ok      = ok && !roundtrip_ok(0.1, NaNv, 0.1);
    ok      = ok && !roundtrip_ok(0.1, 0.1 + 1e-9, 0.1);
    ok      = ok && roundtrip_ok(0.1, 0.1 * (1 + 1e-12), 0.1);
    ok      = ok && !advertised_defect(M_MINMAX, {1, 2, 3}).empty();
    ok      = ok && advertised_defect(M_MINMAX, {0, 0.5, 1}).empty();
    ok      = ok && !advertised_defect(M_MEAN, {0, 0.5, 1}).empty();
    ok      = ok && advertised_defect(M_MEAN, {-0.5, 0, 0.5}).empty();
    ok      = ok && !advertised_defect(M_STANDARD, {-0.5, 0, 0.5}).empty();
    ok      = ok && advertised_defect(M_STANDARD, {-1, 0, 1}).empty();
    ok      = ok && !advertised_defect(M_STANDARD, {0, 0, NaNv}).empty();
    ok      = ok && !model_ok(1.0, 1.0 + 1e-9, 1.0);
    ok      = ok && !model_ok(NaNv, NaNv, 1.0);
    ok      = ok && model_ok(1.0, 1.0 + 4 * EPS, 1.0);
    const auto r = ref_stats({0.1, 0.1, NaNv, 0.1});
    ok           = ok && r.N == 3 && r.stdev == 0 && std::string(r.klass) == "constant-column";
    const auto q = ref_stats({1, 2, 3, 4, 5});
    ok           = ok && std::fabs(static_cast<double>(q.stdev) - 1.5811388300841898) < 1e-15 && q.nondegenerate;
    return ok;
}

// ---------------------------------------------------------------------------------------------
// one side (inputs or targets) of a case as observed through the library
struct side_t
{
    std::string                      name;
    int                              n = 0, C = 0;
    std::vector<std::vector<double>> raw; ///< [column][row] as flattened by the dataset (NaN = missing)
    std::vector<char>                cat;
    std::vector<refstats_t>          ref;
    std::vector<char>                poisoned; ///< standard deviation is NaN (reported once, dependent checks skipped)
    const scalar_stats_t*            stats = nullptr;
    bool                             is4d  = false;

    /// apply scale / upscale of the library to a row-major n x C buffer (through the 2D or the 4D overload)
    void apply(const int mode, const bool up, std::vector<double>& flat, const int rows) const
    {
        if (is4d)
        {
            tensor4d_t t(rows, C, 1, 1);
            std::copy(flat.begin(), flat.end(), t.data());
            if (up) stats->upscale(MODES[mode], t); else stats->scale(MODES[mode], t);
            std::copy(t.data(), t.data() + t.size(), flat.begin());
        }
        else
        {
            tensor2d_t t(rows, C);
            for (int i = 0; i < rows; ++i)
            {
                for (int j = 0; j < C; ++j)
                {
                    t(i, j) = flat[static_cast<size_t>(i * C + j)];
                }
            }
            if (up) stats->upscale(MODES[mode], t); else stats->scale(MODES[mode], t);
            for (int i = 0; i < rows; ++i)
            {
                for (int j = 0; j < C; ++j)
                {
                    flat[static_cast<size_t>(i * C + j)] = t(i, j);
                }
            }
        }
    }
};

struct ctx_t
{
    report_t&          r;
    const std::string& handle;
    const case_t&      c;
    std::string        suffix{}; ///< appended to every violation key (e.g. the chunk size the statistics were accumulated with)

    void violation(const std::string& key, std::initializer_list<std::pair<std::string, std::string>> kv) const
    {
        std::string detail = jobj(kv);
        detail.pop_back();
        detail += ",\"case\":" + c.json() + "}";
        r.violation(key + suffix, handle, detail);
    }
};

std::string stats_json(const scalar_stats_t& s, const int j)
{
    return jobj({{"samples", jint(s.m_samples(j))},
                 {"min", jnum(s.m_min(j))},
                 {"max", jnum(s.m_max(j))},
                 {"mean", jnum(s.m_mean(j))},
                 {"stdev", jnum(s.m_stdev(j))},
                 {"div_range", jnum(s.m_div_range(j))},
                 {"mul_range", jnum(s.m_mul_range(j))},
                 {"div_stdev", jnum(s.m_div_stdev(j))},
                 {"mul_stdev", jnum(s.m_mul_stdev(j))}});
}

/// statistics clause + the four round trips of one side; returns per-mode scaled buffers for the model stage
void check_side(const ctx_t& x, side_t& s)
{
    auto&       r  = x.r;
    const auto& st = *s.stats;
    const int   n = s.n, C = s.C;

    if (st.m_min.size() != C || st.m_samples.size() != C || st.m_div_stdev.size() != C)
    {
        x.violation("stats:dimension", {{"side", jstr(s.name)}, {"expected", jint(C)}, {"got", jint(st.m_min.size())}});
        return;
    }

    s.ref.clear();
    s.poisoned.assign(static_cast<size_t>(C), 0);
    for (int j = 0; j < C; ++j)
    {
        const auto ju  = static_cast<size_t>(j);
        const auto ref = ref_stats(s.raw[ju]);
        s.ref.push_back(ref);
        const auto where = s.name + " column " + std::to_string(j);

        const bool finite_all = std::isfinite(st.m_min(j)) && std::isfinite(st.m_max(j)) &&
                                std::isfinite(st.m_mean(j)) && std::isfinite(st.m_div_range(j)) &&
                                std::isfinite(st.m_mul_range(j));
        const bool finite_dev = std::isfinite(st.m_stdev(j)) && std::isfinite(st.m_div_stdev(j)) &&
                                std::isfinite(st.m_mul_stdev(j));
        if (s.cat[ju])
        {
            r.outcome("column:categorical");
            if (!finite_all || !finite_dev)
            {
                x.violation("stats:nonfinite:categorical", {{"where", jstr(where)}, {"stats", stats_json(st, j)}});
                s.poisoned[ju] = 1;
            }
            continue;
        }
        r.outcome(std::string("column:") + ref.klass);

        // missing values stay out of the statistics
        if (st.m_samples(j) != ref.N)
        {
            x.violation("stats:samples", {{"where", jstr(where)}, {"expected", jint(ref.N)}, {"stats", stats_json(st, j)}});
        }
        if (!finite_all)
        {
            x.violation("stats:nonfinite", {{"where", jstr(where)}, {"stats", stats_json(st, j)}});
            s.poisoned[ju] = 1;
            continue;
        }
        if (ref.N >= 1)
        {
            if (st.m_min(j) != ref.min || st.m_max(j) != ref.max)
            {
                x.violation("stats:minmax", {{"where", jstr(where)},
                                             {"expected_min", jnum(ref.min)},
                                             {"expected_max", jnum(ref.max)},
                                             {"stats", stats_json(st, j)}});
            }
            if (!(std::fabs(static_cast<long double>(st.m_mean(j)) - ref.mean) <= 1e-9L * ref.mag))
            {
                x.violation("stats:mean", {{"where", jstr(where)},
                                           {"expected", jnum(static_cast<double>(ref.mean))},
                                           {"stats", stats_json(st, j)}});
            }
        }
        if (!finite_dev)
        {
            // the genuine-defect class suspected by the design: show its effect through scale + upscale as well
            s.poisoned[ju] = 1;
            r.outcome("stdev:non-finite");
            std::vector<double> buf(static_cast<size_t>(n * C), 0.0);
            for (int i = 0; i < n; ++i)
            {
                for (int k = 0; k < C; ++k)
                {
                    buf[static_cast<size_t>(i * C + k)] = s.raw[static_cast<size_t>(k)][static_cast<size_t>(i)];
                }
            }
            s.apply(M_STANDARD, false, buf, n);
            std::vector<double> scaled, back;
            for (int i = 0; i < n; ++i) scaled.push_back(buf[static_cast<size_t>(i * C + j)]);
            s.apply(M_STANDARD, true, buf, n);
            for (int i = 0; i < n; ++i) back.push_back(buf[static_cast<size_t>(i * C + j)]);
            x.violation(std::string("stdev-nan:") + ref.klass,
                        {{"where", jstr(where)},
                         {"values", jarr_num(s.raw[ju])},
                         {"expected_stdev", jnum(static_cast<double>(ref.stdev))},
                         {"stats", stats_json(st, j)},
                         {"standard_scaled", jarr_num(scaled)},
                         {"standard_scaled_then_upscaled", jarr_num(back)},
                         {"clause", jstr("scaling followed by up-scaling returns the original finite values "
                                         "(standard mode); the deviation of a column of equal values is 0, not NaN")}});
            continue;
        }
        if (ref.nondegenerate)
        {
            r.outcome("stdev:compared");
            if (!(std::fabs(static_cast<long double>(st.m_stdev(j)) - ref.stdev) <= 1e-9L * ref.mag))
            {
                x.violation("stats:stdev", {{"where", jstr(where)},
                                            {"expected", jnum(static_cast<double>(ref.stdev))},
                                            {"stats", stats_json(st, j)}});
            }
        }
        else
        {
            r.outcome(st.m_stdev(j) == 0.0 ? "stdev:degenerate-zero" : "stdev:degenerate-positive-garbage");
            if (st.m_stdev(j) < 0.0)
            {
                x.violation("stats:stdev-negative", {{"where", jstr(where)}, {"stats", stats_json(st, j)}});
            }
        }
    }

    // the four modes: scale, then upscale
    for (int mode = 0; mode < NMODES; ++mode)
    {
        std::vector<double> buf(static_cast<size_t>(n * C), 0.0);
        for (int i = 0; i < n; ++i)
        {
            for (int j = 0; j < C; ++j)
            {
                buf[static_cast<size_t>(i * C + j)] = s.raw[static_cast<size_t>(j)][static_cast<size_t>(i)];
            }
        }
        s.apply(mode, false, buf, n);
        const auto scaled = buf;
        s.apply(mode, true, buf, n);

        r.evaluations += 1;
        bool interesting = false;
        for (int j = 0; j < C; ++j)
        {
            const auto  ju    = static_cast<size_t>(j);
            const auto& ref   = s.ref[ju];
            const auto  where = s.name + " column " + std::to_string(j) + " mode " + MODE_NAMES[mode];
            if (s.poisoned[ju] && (mode == M_STANDARD || s.cat[ju]))
            {
                continue; // consequence of the violation already reported for this column
            }
            std::vector<double> finite_scaled;
            for (int i = 0; i < n; ++i)
            {
                const auto   iu  = static_cast<size_t>(i);
                const double raw = s.raw[ju][iu];
                const double sc  = scaled[static_cast<size_t>(i * C + j)];
                const double up  = buf[static_cast<size_t>(i * C + j)];
                if (!std::isfinite(raw))
                {
                    // missing values become zero
                    if (!(sc == 0.0))
                    {
                        x.violation("scale:missing-not-zero", {{"where", jstr(where)}, {"row", jint(i)}, {"scaled", jnum(sc)}});
                    }
                    continue;
                }
                finite_scaled.push_back(sc);
                if (!std::isfinite(sc))
                {
                    x.violation("scale:nonfinite", {{"where", jstr(where)}, {"row", jint(i)}, {"raw", jnum(raw)},
                                                    {"scaled", jnum(sc)}, {"stats", stats_json(st, j)}});
                    continue;
                }
                if (s.cat[ju] || mode == M_NONE)
                {
                    // never rescaled: bit-identical both ways
                    if (std::memcmp(&sc, &raw, sizeof(double)) != 0 || std::memcmp(&up, &raw, sizeof(double)) != 0)
                    {
                        x.violation(s.cat[ju] ? "categorical:rescaled" : "none:rescaled",
                                    {{"where", jstr(where)}, {"row", jint(i)}, {"raw", jnum(raw)}, {"scaled", jnum(sc)},
                                     {"upscaled", jnum(up)}, {"stats", stats_json(st, j)}});
                    }
                    continue;
                }
                if (!roundtrip_ok(raw, up, ref.mag))
                {
                    x.violation(std::string("roundtrip:") + MODE_NAMES[mode] + ":" + ref.klass,
                                {{"where", jstr(where)}, {"row", jint(i)}, {"raw", jnum(raw)}, {"scaled", jnum(sc)},
                                 {"upscaled", jnum(up)}, {"tolerance", jnum(1e-9 * ref.mag)},
                                 {"values", jarr_num(s.raw[ju])}, {"stats", stats_json(st, j)}});
                }
            }
            if (!s.cat[ju] && mode != M_NONE && ref.nondegenerate)
            {
                interesting = true;
                const auto what = advertised_defect(mode, finite_scaled);
                if (!what.empty())
                {
                    x.violation(std::string("advertised:") + MODE_NAMES[mode],
                                {{"where", jstr(where)}, {"what", jstr(what)}, {"values", jarr_num(s.raw[ju])},
                                 {"scaled", jarr_num(finite_scaled)}, {"stats", stats_json(st, j)}});
                }
            }
        }
        if (interesting)
        {
            ++r.nontrivial;
        }
        r.outcome(std::string("roundtrip:") + s.name + ":" + MODE_NAMES[mode] + (interesting ? ":nondegenerate-column" : ":only-degenerate-or-fixed-columns"));
    }
}

/// (w, b) of x -> w * x + b for one column and mode, taken from the observable statistics (tolerance only)
void affine_of(const scalar_stats_t& st, const int j, const int mode, long double& w, long double& b)
{
    w = 1;
    b = 0;
    switch (mode)
    {
    case M_MEAN: w = st.m_div_range(j); b = -static_cast<long double>(st.m_mean(j)) * w; break;
    case M_MINMAX: w = st.m_div_range(j); b = -static_cast<long double>(st.m_min(j)) * w; break;
    case M_STANDARD: w = st.m_div_stdev(j); b = -static_cast<long double>(st.m_mean(j)) * w; break;
    default: break;
    }
}

tensor2d_t make_weights(const int kind, const int T, const int C)
{
    tensor2d_t W(T, C);
    for (int i = 0; i < T; ++i)
    {
        for (int j = 0; j < C; ++j)
        {
            double v = 0.0;
            switch (kind)
            {
            case 1: v = (j % T == i) ? 1.0 : 0.0; break;
            case 2: v = 0.25 * (i * C + j + 1) * (((i + j) % 2 == 0) ? 1.0 : -1.0); break;
            case 3: v = ((i + j) % 2 == 0) ? 1e-3 : -1e3; break;
            default: break;
            }
            W(i, j) = v;
        }
    }
    return W;
}
tensor1d_t make_bias(const int kind, const int T)
{
    tensor1d_t b(T);
    for (int i = 0; i < T; ++i)
    {
        b(i) = kind == 0 ? 0.0 : kind == 1 ? 1.0 : kind == 2 ? 1e3 : -1e3;
    }
    return b;
}

void check_model(const ctx_t& x, const side_t& in, const side_t& tg)
{
    auto&     r = x.r;
    const int C = in.C, T = tg.C;

    // probes: every data row without missing values + one synthetic row (first finite value of every column)
    std::vector<std::vector<double>> probes;
    for (int i = 0; i < in.n; ++i)
    {
        std::vector<double> row;
        for (int j = 0; j < C; ++j)
        {
            row.push_back(in.raw[static_cast<size_t>(j)][static_cast<size_t>(i)]);
        }
        if (std::all_of(row.begin(), row.end(), [](const double v) { return std::isfinite(v); }))
        {
            probes.push_back(row);
        }
    }
    const auto data_probes = probes.size();
    {
        std::vector<double> row;
        for (int j = 0; j < C; ++j)
        {
            double v = in.cat[static_cast<size_t>(j)] ? 1.0 : x.c.in_spec[static_cast<size_t>(j)].c();
            for (const double u : in.raw[static_cast<size_t>(j)])
            {
                if (std::isfinite(u))
                {
                    v = u;
                    break;
                }
            }
            row.push_back(-2.0 * v); // outside the data range on purpose
        }
        // categorical columns only ever carry -1 / +1
        for (int j = 0; j < C; ++j)
        {
            if (in.cat[static_cast<size_t>(j)])
            {
                row[static_cast<size_t>(j)] = -1.0;
            }
        }
        probes.push_back(row);
    }
    const int P = static_cast<int>(probes.size());

    tensor2d_t X(P, C);
    for (int p = 0; p < P; ++p)
    {
        for (int j = 0; j < C; ++j)
        {
            X(p, j) = probes[static_cast<size_t>(p)][static_cast<size_t>(j)];
        }
    }

    std::vector<tensor2d_t> Ws;
    std::vector<tensor1d_t> bs;
    for (int k = 0; k < 4; ++k)
    {
        Ws.push_back(make_weights(k, T, C));
        bs.push_back(make_bias(k, T));
    }
    uint64_t n_skipped = 0, n_trivial = 0, n_compared = 0;

    std::vector<long double> fw(static_cast<size_t>(C)), fb(static_cast<size_t>(C)), tw(static_cast<size_t>(T)),
        tb(static_cast<size_t>(T));
    tensor4d_t outA(P, T, 1, 1), outB(P, T, 1, 1);
    tensor2d_t W2(T, C);
    tensor1d_t b2(T);
    for (int mi = 0; mi < NMODES; ++mi)
    {
        for (int j = 0; j < C; ++j)
        {
            affine_of(*in.stats, j, mi, fw[static_cast<size_t>(j)], fb[static_cast<size_t>(j)]);
        }
        bool skip_in = false;
        for (int j = 0; j < C; ++j)
        {
            skip_in = skip_in || (in.poisoned[static_cast<size_t>(j)] && (mi == M_STANDARD || in.cat[static_cast<size_t>(j)]));
        }
        tensor2d_t S = X;
        in.stats->scale(MODES[mi], S);

        for (int mt = 0; mt < NMODES; ++mt)
        {
            bool skip = skip_in;
            for (int t = 0; t < T; ++t)
            {
                skip = skip || (tg.poisoned[static_cast<size_t>(t)] && (mt == M_STANDARD || tg.cat[static_cast<size_t>(t)]));
            }
            for (int t = 0; t < T; ++t)
            {
                affine_of(*tg.stats, t, mt, tw[static_cast<size_t>(t)], tb[static_cast<size_t>(t)]);
            }
            for (int kw = 0; kw < 4; ++kw)
            {
                for (int kb = 0; kb < 4; ++kb)
                {
                    r.evaluations += 1;
                    if (skip)
                    {
                        ++n_skipped;
                        continue;
                    }
                    const auto& W = Ws[static_cast<size_t>(kw)];
                    const auto& b = bs[static_cast<size_t>(kb)];

                    // path A: original model on scaled inputs, predictions up-scaled
                    ::nano::linear::predict(S, W, b, outA);
                    tg.stats->upscale(MODES[mt], outA);

                    // path B: converted model on raw inputs
                    W2 = W;
                    b2 = b;
                    ::nano::upscale(*in.stats, MODES[mi], *tg.stats, MODES[mt], W2, b2);
                    ::nano::linear::predict(X, W2, b2, outB);

                    bool bad = false;
                    for (int p = 0; p < P && !bad; ++p)
                    {
                        for (int t = 0; t < T && !bad; ++t)
                        {
                            const auto  twt   = tw[static_cast<size_t>(t)];
                            long double terms = std::fabs(static_cast<long double>(b(t)) / twt) +
                                                std::fabs(tb[static_cast<size_t>(t)] / twt);
                            for (int j = 0; j < C; ++j)
                            {
                                const auto w = static_cast<long double>(W(t, j));
                                terms += std::fabs(w * fw[static_cast<size_t>(j)] * X(p, j) / twt) +
                                         std::fabs(w * fb[static_cast<size_t>(j)] / twt);
                            }
                            const double a = outA(p, t, 0, 0), q = outB(p, t, 0, 0);
                            if (!model_ok(a, q, terms))
                            {
                                bad = true;
                                x.violation(std::string("model:") + (std::isfinite(a) && std::isfinite(q) ? "mismatch" : "nonfinite"),
                                            {{"input_scaling", jstr(MODE_NAMES[mi])},
                                             {"target_scaling", jstr(MODE_NAMES[mt])},
                                             {"W", jarr_num(std::vector<double>(W.data(), W.data() + W.size()))},
                                             {"b", jarr_num(std::vector<double>(b.data(), b.data() + b.size()))},
                                             {"W_upscaled", jarr_num(std::vector<double>(W2.data(), W2.data() + W2.size()))},
                                             {"b_upscaled", jarr_num(std::vector<double>(b2.data(), b2.data() + b2.size()))},
                                             {"raw_input", jarr_num(probes[static_cast<size_t>(p)])},
                                             {"output", jint(t)},
                                             {"upscaled_prediction_of_original_model_on_scaled_input", jnum(a)},
                                             {"prediction_of_converted_model_on_raw_input", jnum(q)},
                                             {"tolerance_64eps_sum_abs_terms", jnum(static_cast<double>(64.0L * EPS * terms))}});
                            }
                        }
                    }
                    const bool interesting = kw != 0 && (mi != M_NONE || mt != M_NONE);
                    if (interesting)
                    {
                        ++r.nontrivial;
                        ++n_compared;
                    }
                    else
                    {
                        ++n_trivial;
                    }
                }
            }
        }
    }
    if (n_skipped) r.outcome("model:skipped-after-reported-nan-deviation", n_skipped);
    if (n_trivial) r.outcome("model:trivial(zero-weights-or-no-scaling)", n_trivial);
    if (n_compared) r.outcome(data_probes ? "model:compared-on-data-rows+probe" : "model:compared-on-probe-only", n_compared);
}

int run_case(report_t& r, const std::string& handle, const case_t& c)
{
    const ctx_t x{r, handle, c};

    c14_datasource_t datasource(c);
    datasource.load();
    dataset_t dataset(datasource, 1U);
    for (int j = 0; j < c.C(); ++j)
    {
        if (c.cat[static_cast<size_t>(j)])
        {
            dataset.add<sclass_identity_generator_t>(make_indices(j));
        }
        else
        {
            dataset.add<scalar_identity_generator_t>(make_indices(j));
        }
    }
    const auto samples = arange(0, dataset.samples());

    // what the dataset hands to the scaling code; a difference from the enumerated matrix is a harness error
    tensor2d_t fbuffer;
    tensor4d_t tbuffer;
    const auto flatten = dataset.flatten(samples, fbuffer);
    const auto targets = dataset.targets(samples, tbuffer);
    if (dataset.columns() != c.C() || flatten.size<0>() != c.n || flatten.size<1>() != c.C() ||
        targets.size<0>() != c.n || targets.size() != static_cast<tensor_size_t>(c.n) * c.T())
    {
        std::fprintf(stderr, "c14: unexpected flatten/targets layout for %s\n", handle.c_str());
        return 2;
    }

    side_t in, tg;
    in.name = "inputs";
    in.n    = c.n;
    in.C    = c.C();
    in.cat  = c.cat;
    in.raw.assign(static_cast<size_t>(c.C()), std::vector<double>(static_cast<size_t>(c.n)));
    for (int j = 0; j < c.C(); ++j)
    {
        const auto ju = static_cast<size_t>(j);
        for (int i = 0; i < c.n; ++i)
        {
            const auto   iu  = static_cast<size_t>(i);
            const double got = flatten(i, j);
            double       exp = c.in[ju][iu];
            if (c.cat[ju])
            {
                const auto label = cat_label(c.in[ju], iu);
                exp              = label < 0 ? NaNv : label == 0 ? 1.0 : -1.0;
            }
            if (!((std::isnan(got) && std::isnan(exp)) || got == exp))
            {
                std::fprintf(stderr, "c14: flatten(%d,%d)=%g, enumerated %g for %s\n", i, j, got, exp, handle.c_str());
                return 2;
            }
            in.raw[ju][iu] = got;
        }
    }
    tg.name = "targets";
    tg.n    = c.n;
    tg.C    = c.T();
    tg.is4d = true;
    tg.cat.assign(static_cast<size_t>(c.T()), c.target_sclass ? 1 : 0);
    tg.raw.assign(static_cast<size_t>(c.T()), std::vector<double>(static_cast<size_t>(c.n)));
    {
        const auto t2 = targets.reshape(c.n, -1);
        for (int t = 0; t < c.T(); ++t)
        {
            for (int i = 0; i < c.n; ++i)
            {
                const double got = t2(i, t);
                const double exp = c.target_sclass ? ((i % 2 == t) ? 1.0 : -1.0) : c.tg[static_cast<size_t>(t)][static_cast<size_t>(i)];
                if (!(got == exp))
                {
                    std::fprintf(stderr, "c14: targets(%d,%d)=%g, enumerated %g for %s\n", i, t, got, exp, handle.c_str());
                    return 2;
                }
                tg.raw[static_cast<size_t>(t)][static_cast<size_t>(i)] = got;
            }
        }
    }

    const auto in0    = in;
    const auto tg0    = tg;
    const auto fstats = scalar_stats_t::make_flatten_stats(dataset, samples);
    const auto tstats = scalar_stats_t::make_targets_stats(dataset, samples);
    in.stats          = &fstats;
    tg.stats          = &tstats;

    check_side(x, in);
    check_side(x, tg);
    if (!in.ref.empty() && !tg.ref.empty())
    {
        check_model(x, in, tg);
    }

    // the statistics are those of the data whatever chunk size they are accumulated with: every chunk size below the number
    // of rows (several chunks; a shorter last chunk whenever it does not divide the number of rows)
    for (int batch = 1; batch < c.n; ++batch)
    {
        const auto fstats_b = scalar_stats_t::make_flatten_stats(dataset, samples, batch);
        const auto tstats_b = scalar_stats_t::make_targets_stats(dataset, samples, batch);
        auto       in_b     = in0;
        auto       tg_b     = tg0;
        in_b.stats          = &fstats_b;
        tg_b.stats          = &tstats_b;
        const ctx_t xb{r, handle, c, ":batch=" + std::to_string(batch)};
        check_side(xb, in_b);
        check_side(xb, tg_b);
    }
    return 0;
}

// ---------------------------------------------------------------------------------------------
// thin lists used on the side that is not enumerated completely
struct tspec_t
{
    bool                   sclass;
    std::vector<colspec_t> cols;
    const char*            text;
};
const std::vector<tspec_t>& target_specs()
{
    static const std::vector<tspec_t> specs = {
        {false, {{P_RAMP, 0, 0}}, "1 target: ramp c=1"},
        {false, {{P_CONST, 1, 0}}, "1 target: constant c=0.1"},
        {false, {{P_RAMP, 2, 0}, {P_TWO, 3, 1}}, "2 targets: ramp c=1e3, two-values c=-1e-6"},
        {false, {{P_NEAR, 4, 0}, {P_RAMP, 1, 1}}, "2 targets: near-constant c=1e6, ramp c=-0.1"},
        {true, {}, "single-label target with 2 classes (2 target columns, never rescaled)"},
    };
    return specs;
}
struct ispec_t
{
    std::vector<colspec_t> cols;
    std::vector<char>      cat;
    const char*            text;
};
const std::vector<ispec_t>& input_specs()
{
    static const std::vector<ispec_t> specs = {
        {{{P_RAMP, 0, 0}}, {0}, "1 input: ramp c=1"},
        {{{P_CONST_NAN, 1, 0}, {P_RAMP, 2, 1}}, {0, 0}, "2 inputs: constant-one-NaN c=0.1, ramp c=-1e3"},
        {{{P_TWO, 3, 0}, {P_RAMP_NAN, 4, 0}, {P_CONST, 0, 1}}, {1, 0, 0},
         "3 inputs: categorical(two-values), ramp-with-NaNs c=1e6, constant c=-1"},
    };
    return specs;
}

std::string alphabet_json(const uint64_t count, colspec_t (*f)(uint64_t))
{
    std::vector<std::string> v;
    for (uint64_t i = 0; i < count; ++i)
    {
        v.push_back(f(i).str());
    }
    return jarr_str(v);
}

/// column maps of a k-tuple: 0 all continuous, 1 first categorical, 2 alternating (second categorical)
std::vector<char> column_map(const int kind, const int k)
{
    std::vector<char> cat(static_cast<size_t>(k), 0);
    if (kind == 1)
    {
        cat[0] = 1;
    }
    else if (kind == 2)
    {
        for (int j = 1; j < k; j += 2)
        {
            cat[static_cast<size_t>(j)] = 1;
        }
    }
    return cat;
}

int g_broken = 0;

void run_inputs(report_t& r, const int k, const bool thin_third)
{
    const auto  tag = "in" + std::to_string(k);
    lattice_t   lat;
    lat.axis("rows", NROWS, "[1,2,3,7]");
    for (int j = 0; j < k; ++j)
    {
        const bool third = thin_third && j == 2;
        lat.axis("column" + std::to_string(j), third ? NCOLS_THIRD : NCOLS_FULL,
                 third ? alphabet_json(NCOLS_THIRD, col_third) : alphabet_json(NCOLS_FULL, col_full));
    }
    const int nmaps = k == 1 ? 2 : 3;
    lat.axis("column_map", static_cast<uint64_t>(nmaps),
             k == 1 ? "[\"continuous\",\"categorical\"]"
                    : "[\"all continuous\",\"first categorical\",\"alternating (continuous,categorical,continuous)\"]");
    // triples: thinned list of target specifications (one target, two targets, categorical target)
    const std::vector<size_t> tsel = thin_third ? std::vector<size_t>{0, 3, 4} : std::vector<size_t>{0, 1, 2, 3, 4};
    {
        std::vector<std::string> t;
        for (const auto i : tsel) t.emplace_back(target_specs()[i].text);
        lat.axis("target_spec", tsel.size(), jarr_str(t));
    }
    lat.describe(r, tag + ".");

    for_each_case(lat, r, tag,
                  [&](const uint64_t index, const std::vector<uint64_t>& d)
                  {
                      case_t c;
                      c.n = ROWS[d[0]];
                      for (int j = 0; j < k; ++j)
                      {
                          const auto spec = (thin_third && j == 2) ? col_third(d[static_cast<size_t>(1 + j)])
                                                                   : col_full(d[static_cast<size_t>(1 + j)]);
                          c.in_spec.push_back(spec);
                          c.in.push_back(column_values(spec, c.n));
                      }
                      c.cat           = column_map(static_cast<int>(d[static_cast<size_t>(1 + k)]), k);
                      const auto& ts  = target_specs()[tsel[d[static_cast<size_t>(2 + k)]]];
                      c.target_sclass = ts.sclass;
                      for (const auto& spec : ts.cols)
                      {
                          c.tg_spec.push_back(spec);
                          c.tg.push_back(column_values(spec, c.n));
                      }
                      if (run_case(r, tag + ":" + std::to_string(index), c) != 0)
                      {
                          g_broken = 2;
                      }
                      if (index % 9973 == 0)
                      {
                          r.sample(c.json());
                      }
                  });
}

void run_targets(report_t& r)
{
    const std::string tag = "tg";
    lattice_t         lat;
    lat.axis("rows", NROWS, "[1,2,3,7]");
    lat.axis("target0", NCOLS_FINITE, alphabet_json(NCOLS_FINITE, col_finite));
    lat.axis("target1", NCOLS_FINITE + 1, "\"absent, then the same alphabet as target0\"");
    {
        std::vector<std::string> t;
        for (const auto& s : input_specs()) t.emplace_back(s.text);
        lat.axis("input_spec", input_specs().size(), jarr_str(t));
    }
    lat.describe(r, tag + ".");

    for_each_case(lat, r, tag,
                  [&](const uint64_t index, const std::vector<uint64_t>& d)
                  {
                      case_t c;
                      c.n = ROWS[d[0]];
                      c.tg_spec.push_back(col_finite(d[1]));
                      if (d[2] > 0)
                      {
                          c.tg_spec.push_back(col_finite(d[2] - 1));
                      }
                      for (const auto& spec : c.tg_spec)
                      {
                          c.tg.push_back(column_values(spec, c.n));
                      }
                      const auto& is = input_specs()[d[3]];
                      c.cat          = is.cat;
                      for (const auto& spec : is.cols)
                      {
                          c.in_spec.push_back(spec);
                          c.in.push_back(column_values(spec, c.n));
                      }
                      if (run_case(r, tag + ":" + std::to_string(index), c) != 0)
                      {
                          g_broken = 2;
                      }
                      if (index % 997 == 0)
                      {
                          r.sample(c.json());
                      }
                  });
}
} // namespace

int main(int argc, char** argv)
{
    const auto args = parse_args(argc, argv);
    if (!oracle_selftest())
    {
        std::fprintf(stderr, "c14: the oracle accepted a hand-made wrong answer (or rejected a right one)\n");
        return 2;
    }
    const auto stage = args.stage.empty() ? std::string("inputs") : args.stage;
    report_t   r("c14/" + stage, args);
    r.assume("deviation = sample deviation with N-1 (fixed by test_dataset_stats), compared only where the column is "
             "non-degenerate: at least two finite values and max-min >= 1e-3 * max|x|");
    r.assume("advertised moments (scaling.h): minmax -> min 0 / max 1, mean -> mean 0 / range 1, standard -> mean 0 / "
             "deviation 1, absolute tolerance 1e-9 on the scaled values, over the originally finite entries of "
             "non-degenerate continuous columns");
    r.assume("round trip tolerance 1e-9 * max|x| of the column; magnitudes 1e-6..1e6 only");
    r.assume("the magnitudes inside the tolerance 64*eps*sum|terms| are taken from the statistics the library reports");

    if (stage == "inputs")
    {
        run_inputs(r, 1, false);
        run_inputs(r, 2, false);
        if (args.thorough())
        {
            run_inputs(r, 3, true);
        }
    }
    else if (stage == "targets")
    {
        run_targets(r);
    }
    else
    {
        std::fprintf(stderr, "c14: unknown stage %s\n", stage.c_str());
        return 2;
    }
    if (g_broken != 0)
    {
        return 2;
    }
    return r.finish();
}
