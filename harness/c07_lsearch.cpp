// C07 — line-search steps honour the acceptance conditions they advertise (E3, bounded exhaustive).
//
// One lattice ("ls"): function x origin x direction x initial step x (c1,c2) x max_iterations x (method, interpolation).
// Every case runs the real lsearchk_t::get(state, descent, t0) and is judged by an oracle that is recomputed from
// the user function (function_t::vgrad at the returned point) and from long-double dot products computed here;
// solver_state_t::has_armijo / has_wolfe / has_strong_wolfe / has_approx_* are NOT used to judge.
#include "verif.h"
#include <cfloat>
#include <nano/function.h>
#include <nano/lsearchk.h>
#include <nano/solver/state.h>

using namespace nano;
using namespace verif;

namespace
{
constexpr double EPS = DBL_EPSILON;

// ---------------------------------------------------------------------------------------------
// harness convex quadratic: f(x) = 1/2 (Hx)' D (Hx) - b'x, H = I - 2 vv'/v'v (v = 1..n), D = kappa^(i/(n-1)),
// b_i = 0.7 + 0.05 i (so that no origin of the lattice is the minimizer)
class hquad_t final : public function_t
{
public:
    hquad_t(const tensor_size_t n, const double kappa)
        : function_t(kappa == 1.0 ? "hquad-k1" : "hquad-k1e3", n)
        , m_D(static_cast<size_t>(n))
        , m_v(static_cast<size_t>(n))
    {
        convex(convexity::yes);
        smooth(smoothness::yes);
        strong_convexity(1.0);
        for (tensor_size_t i = 0; i < n; ++i)
        {
            const auto e                  = n == 1 ? 1.0 : static_cast<double>(i) / static_cast<double>(n - 1);
            m_D[static_cast<size_t>(i)]   = std::pow(kappa, e);
            m_v[static_cast<size_t>(i)]   = static_cast<double>(i + 1);
            m_vv += static_cast<double>((i + 1) * (i + 1));
        }
    }

    rfunction_t clone() const override { return std::make_unique<hquad_t>(*this); }

    scalar_t do_vgrad(vector_cmap_t x, vector_map_t gx) const override
    {
        const auto          n = static_cast<size_t>(size());
        std::vector<double> y(n), z(n);
        reflect(x.data(), y.data());
        double fx = 0;
        for (size_t i = 0; i < n; ++i)
        {
            z[i] = m_D[i] * y[i];
            fx += 0.5 * y[i] * z[i] - b(i) * x(static_cast<tensor_size_t>(i));
        }
        if (gx.size() == x.size())
        {
            std::vector<double> w(n);
            reflect(z.data(), w.data());
            for (size_t i = 0; i < n; ++i)
            {
                gx(static_cast<tensor_size_t>(i)) = w[i] - b(i);
            }
        }
        return fx;
    }

private:
    static double b(const size_t i) { return 0.7 + 0.05 * static_cast<double>(i); }

    void reflect(const double* in, double* out) const
    {
        const auto n = static_cast<size_t>(size());
        double     s = 0;
        for (size_t i = 0; i < n; ++i)
        {
            s += m_v[i] * in[i];
        }
        s = n == 1 ? 0.0 : 2.0 * s / m_vv; // n = 1: H = 1 (a reflection would only flip the sign)
        for (size_t i = 0; i < n; ++i)
        {
            out[i] = in[i] - s * m_v[i];
        }
    }

    std::vector<double> m_D, m_v;
    double              m_vv{0};
};

struct fn_t
{
    rfunction_t f;
    std::string name;
    bool        hquad{false};     ///< harness quadratic
    bool        quadratic{false}; ///< exactly a convex quadratic (harness or registered)
};

// ---------------------------------------------------------------------------------------------
// the axes
const std::vector<double>                    RADII_QUICK    = {1e-2, 1.0, 1e3};
const std::vector<double>                    RADII_THOROUGH = {1e-2, 1e-1, 1.0, 10.0, 1e2, 1e3};
const std::vector<std::string>               DIRS   = {"-g", "-G60(g)", "-diag(1..n)^-1 g", "+g", "0"};
const std::vector<double>                    T0S    = {1e-3, 1.0, 1e3, std::numeric_limits<double>::quiet_NaN(),
                                                       std::numeric_limits<double>::infinity()};
const std::vector<std::pair<double, double>> C12S   = {{1e-4, 0.1}, {1e-4, 0.9}, {0.1, 0.9}, {0.49, 0.5}};
const std::vector<int>                       MAXITS = {1, 2, 128, 10000};

enum class cond
{
    armijo,
    wolfe,
    strong_wolfe,
    approx_wolfe, // CG_DESCENT: (Armijo and Wolfe) or (approximate Armijo and approximate Wolfe)
    generic
};

struct config_t
{
    std::string        id;
    std::string        interp_param; ///< empty: the method has no interpolation parameter
    interpolation_type interp;
    cond               advertised;   ///< held on every function (backtrack/lemarechal/fletcher)
    cond               on_quadratic; ///< held on convex quadratics
};

std::vector<config_t> make_configs()
{
    std::vector<config_t> cs;
    const auto            interps = {interpolation_type::bisection, interpolation_type::quadratic,
                                     interpolation_type::cubic};
    for (const auto i : interps)
    {
        cs.push_back({"backtrack", "lsearchk::backtrack::interpolation", i, cond::armijo, cond::armijo});
    }
    for (const auto i : interps)
    {
        cs.push_back({"lemarechal", "lsearchk::lemarechal::interpolation", i, cond::wolfe, cond::wolfe});
    }
    for (const auto i : interps)
    {
        cs.push_back({"fletcher", "lsearchk::fletcher::interpolation", i, cond::strong_wolfe, cond::strong_wolfe});
    }
    cs.push_back({"morethuente", "", interpolation_type::cubic, cond::generic, cond::strong_wolfe});
    cs.push_back({"cgdescent", "", interpolation_type::cubic, cond::generic, cond::approx_wolfe});
    return cs;
}

// ---------------------------------------------------------------------------------------------
// the oracle: everything a case is judged on, as plain numbers (so that it can be fed wrong answers)
struct observed_t
{
    bool                ok{false};
    double              t{0};
    std::vector<double> sx, sgx;    ///< returned state
    double              sfx{0};     ///<
    std::vector<double> fgx;        ///< the function evaluated (by the harness) at the returned state.x
    double              ffx{0};     ///<
    bool                untouched{true};
};

struct origin_t
{
    std::vector<double> x, g, d; ///< origin, gradient of the function there, direction
    double              f{0};
    double              c1{0}, c2{0};
    double              epsk{0}; ///< CG_DESCENT: epsilon * |f0|
};

long double dot(const std::vector<double>& a, const std::vector<double>& b)
{
    long double s = 0;
    for (size_t i = 0; i < a.size(); ++i)
    {
        s += static_cast<long double>(a[i]) * static_cast<long double>(b[i]);
    }
    return s;
}
long double absdot(const std::vector<double>& a, const std::vector<double>& b)
{
    long double s = 0;
    for (size_t i = 0; i < a.size(); ++i)
    {
        s += std::fabs(static_cast<long double>(a[i]) * static_cast<long double>(b[i]));
    }
    return s;
}
long double norm2(const std::vector<double>& a)
{
    return std::sqrt(dot(a, a));
}

bool same_bits(const double a, const double b)
{
    return std::memcmp(&a, &b, sizeof(double)) == 0;
}
bool same_value(const double a, const double b, const double scale)
{
    return same_bits(a, b) || std::fabs(a - b) <= 1e-15 * scale;
}

/// +1: descent, 0: not a descent direction, -1: the sign of g.d is within rounding (not judged)
int classify(const origin_t& o)
{
    const auto dg = dot(o.g, o.d);
    if (dg != 0 && std::fabs(dg) <= 4 * EPS * absdot(o.g, o.d))
    {
        return -1;
    }
    return dg < 0 ? +1 : 0;
}

/// clauses that hold for every reported success: returns the violated ones
std::vector<std::string> judge_generic(const origin_t& o, const observed_t& r)
{
    std::vector<std::string> bad;
    if (!(std::isfinite(r.t) && r.t > 0))
    {
        bad.emplace_back("step-not-finite-positive");
        return bad;
    }
    for (size_t i = 0; i < o.x.size(); ++i)
    {
        const auto td = static_cast<long double>(r.t) * static_cast<long double>(o.d[i]);
        const auto e  = static_cast<long double>(o.x[i]) + td;
        if (!(std::fabs(static_cast<long double>(r.sx[i]) - e) <= 4 * EPS * (std::fabs(o.x[i]) + std::fabs(td))))
        {
            bad.emplace_back("state-x-is-not-x+t*d");
            break;
        }
    }
    if (!same_value(r.sfx, r.ffx, std::max(std::fabs(r.sfx), std::fabs(r.ffx))))
    {
        bad.emplace_back("state-fx-is-not-f(state.x)");
    }
    double scale = 0;
    for (const auto v : r.fgx)
    {
        scale = std::max(scale, std::fabs(v));
    }
    for (size_t i = 0; i < r.fgx.size(); ++i)
    {
        if (!same_value(r.sgx[i], r.fgx[i], scale))
        {
            bad.emplace_back("state-gx-is-not-grad-f(state.x)");
            break;
        }
    }
    return bad;
}

struct slopes_t
{
    long double dg0, dg1, tol;
};
slopes_t slopes(const origin_t& o, const observed_t& r)
{
    return {dot(o.g, o.d), dot(r.fgx, o.d), 4 * EPS * (norm2(o.g) + norm2(r.fgx)) * norm2(o.d)};
}

// the definitions, on the function values recomputed by the harness (o.f, r.ffx) and its gradients (o.g, r.fgx)
bool armijo(const origin_t& o, const observed_t& r)
{
    const auto s   = slopes(o, r);
    const auto rhs = static_cast<long double>(o.f) + static_cast<long double>(o.c1) * r.t * s.dg0;
    return static_cast<long double>(r.ffx) <=
           rhs + 4 * EPS * (std::fabs(static_cast<long double>(o.f)) + std::fabs(static_cast<long double>(r.ffx)));
}
bool wolfe(const origin_t& o, const observed_t& r)
{
    const auto s = slopes(o, r);
    return s.dg1 >= o.c2 * s.dg0 - s.tol;
}
bool strong_wolfe(const origin_t& o, const observed_t& r)
{
    const auto s = slopes(o, r);
    return std::fabs(s.dg1) <= o.c2 * std::fabs(s.dg0) + s.tol;
}
bool approx_wolfe(const origin_t& o, const observed_t& r)
{
    // Hager & Zhang (as in cgdescent.cpp): (2 delta - 1) phi'(0) >= phi'(t) >= sigma phi'(0), phi(t) <= phi(0) + eps_k
    const auto s = slopes(o, r);
    return (2 * static_cast<long double>(o.c1) - 1) * s.dg0 + s.tol >= s.dg1 && s.dg1 >= o.c2 * s.dg0 - s.tol &&
           static_cast<long double>(r.ffx) <=
               static_cast<long double>(o.f) + o.epsk +
                   4 * EPS * (std::fabs(static_cast<long double>(o.f)) + std::fabs(static_cast<long double>(r.ffx)));
}

std::vector<std::string> judge_condition(const origin_t& o, const observed_t& r, const cond c)
{
    std::vector<std::string> bad;
    switch (c)
    {
    case cond::armijo:
        if (!armijo(o, r))
        {
            bad.emplace_back("armijo");
        }
        break;
    case cond::wolfe:
        if (!armijo(o, r))
        {
            bad.emplace_back("armijo");
        }
        if (!wolfe(o, r))
        {
            bad.emplace_back("wolfe");
        }
        break;
    case cond::strong_wolfe:
        if (!armijo(o, r))
        {
            bad.emplace_back("armijo");
        }
        if (!strong_wolfe(o, r))
        {
            bad.emplace_back("strong-wolfe");
        }
        break;
    case cond::approx_wolfe:
        if (!((armijo(o, r) && wolfe(o, r)) || approx_wolfe(o, r)))
        {
            bad.emplace_back("wolfe-or-approx-wolfe");
        }
        break;
    default: break;
    }
    return bad;
}

bool self_test()
{
    // phi(t) = f(3 - 2t) with f(x) = x^2/2 - x: f0 = 1.5, g0 = 2, d = -2, g0.d = -4, minimizer t = 1
    origin_t o;
    o.x  = {3.0};
    o.g  = {2.0};
    o.d  = {-2.0};
    o.f  = 1.5;
    o.c1 = 1e-4;
    o.c2 = 0.1;
    const auto at = [&](const double t, const double xoff = 0.0, const double foff = 0.0)
    {
        observed_t r;
        r.ok    = true;
        r.t     = t;
        const auto x = 3.0 - 2.0 * t;
        r.sx    = {x + xoff};
        r.ffx   = 0.5 * x * x - x;
        r.sfx   = r.ffx + foff;
        r.fgx   = {x - 1.0};
        r.sgx   = r.fgx;
        return r;
    };
    bool ok = true;
    // good answers must pass
    ok = ok && judge_generic(o, at(1.0)).empty() && judge_condition(o, at(1.0), cond::strong_wolfe).empty();
    ok = ok && judge_condition(o, at(1.0), cond::approx_wolfe).empty();
    ok = ok && judge_condition(o, at(0.5), cond::armijo).empty();
    // wrong answers must be rejected
    ok = ok && !judge_generic(o, at(0.0)).empty() && !judge_generic(o, at(-1.0)).empty();
    ok = ok && !judge_generic(o, at(std::numeric_limits<double>::quiet_NaN())).empty();
    ok = ok && !judge_generic(o, at(1.0, 1e-12)).empty();      // state is not at x + t d
    ok = ok && !judge_generic(o, at(1.0, 0.0, 1e-9)).empty();  // state.fx is not f(state.x)
    ok = ok && !judge_condition(o, at(2.0 + 1e-3), cond::armijo).empty();      // f went up
    ok = ok && !judge_condition(o, at(0.5), cond::wolfe).empty();              // slope -2 < 0.1 * -4
    ok = ok && judge_condition(o, at(1.9), cond::wolfe).empty();               // slope +3.6, Armijo still holds
    ok = ok && !judge_condition(o, at(1.9), cond::strong_wolfe).empty();       // |3.6| > 0.4
    ok = ok && judge_condition(o, at(1.9), cond::approx_wolfe).empty();        // Armijo+Wolfe hold: first branch
    return ok;
}
bool self_test2()
{
    // the disjunction of CG_DESCENT: t = 1.9 satisfies Armijo+Wolfe (first branch), so it is accepted; t = 2.05
    // fails Armijo and the approximate branch (f above f0 + eps_k), so it is rejected; direction classification
    origin_t o;
    o.x  = {3.0};
    o.g  = {2.0};
    o.d  = {-2.0};
    o.f  = 1.5;
    o.c1 = 1e-4;
    o.c2 = 0.1;
    observed_t r;
    r.ok  = true;
    r.t   = 2.05;
    r.sx  = {3.0 - 4.1};
    r.ffx = 0.5 * 1.1 * 1.1 + 1.1;
    r.sfx = r.ffx;
    r.fgx = {-2.1};
    r.sgx = r.fgx;
    bool ok = !judge_condition(o, r, cond::approx_wolfe).empty();
    ok      = ok && classify(o) == +1;
    o.d     = {2.0};
    ok      = ok && classify(o) == 0;
    o.d     = {0.0};
    ok      = ok && classify(o) == 0;
    return ok;
}

// ---------------------------------------------------------------------------------------------
std::vector<double> to_std(const vector_t& v)
{
    return {v.data(), v.data() + v.size()};
}

struct snapshot_t
{
    std::vector<double> x, gx;
    double              fx;
    tensor_size_t       fcalls, gcalls;
    solver_status       status;
};
snapshot_t snapshot(const solver_state_t& s)
{
    return {to_std(s.x()), to_std(s.gx()), s.fx(), s.fcalls(), s.gcalls(), s.status()};
}
bool identical(const snapshot_t& a, const snapshot_t& b)
{
    const auto same = [](const std::vector<double>& u, const std::vector<double>& v)
    { return u.size() == v.size() && (u.empty() || std::memcmp(u.data(), v.data(), u.size() * sizeof(double)) == 0); };
    return same(a.x, b.x) && same(a.gx, b.gx) && same_bits(a.fx, b.fx) && a.fcalls == b.fcalls &&
           a.gcalls == b.gcalls && a.status == b.status;
}
} // namespace

int main(int argc, char** argv)
{
    const auto args = parse_args(argc, argv);
    report_t   r("c07/ls", args);

    // oracle self-test: hand-made right answers must pass, hand-made wrong answers must be rejected
    if (!self_test() || !self_test2())
    {
        std::fprintf(stderr, "oracle self-test failed\n");
        return 2;
    }

    // functions: harness quadratics first (simplest), then the registered smooth ones, by increasing dimension
    const std::vector<tensor_size_t> dims = args.thorough() ? std::vector<tensor_size_t>{1, 2, 3, 4, 8, 16}
                                                            : std::vector<tensor_size_t>{1, 2, 4};
    std::vector<fn_t>                fns;
    std::vector<std::string>         names;
    const std::vector<std::string>   exact_quadratics = {"sphere", "quadratic", "axis-ellipsoid", "rotated-ellipsoid",
                                                         "trid"};
    for (const auto n : dims)
    {
        for (const double kappa : {1.0, 1e3})
        {
            auto f = std::make_unique<hquad_t>(n, kappa);
            fns.push_back({std::move(f), "", true, true});
        }
        for (const auto& id : function_t::all().ids())
        {
            const auto proto = function_t::all().get(id);
            if (!proto || !proto->smooth())
            {
                continue;
            }
            auto f = proto->make(n, 10);
            if (!f || !f->smooth() || !f->constraints().empty())
            {
                continue;
            }
            const auto exact = std::find(exact_quadratics.begin(), exact_quadratics.end(), f->name(false)) !=
                                   exact_quadratics.end() ||
                               f->name(false).rfind("mse+ridge", 0) == 0;
            const auto convex_quadratic = exact && f->convex();
            fns.push_back({std::move(f), "", false, convex_quadratic});
        }
    }
    // some functions clamp the number of dimensions (e.g. rosenbrock >= 2): keep one of each name
    {
        std::vector<fn_t> uniq;
        for (auto& fn : fns)
        {
            fn.name = fn.f->name();
            if (std::find(names.begin(), names.end(), fn.name) == names.end())
            {
                names.push_back(fn.name);
                uniq.push_back(std::move(fn));
            }
        }
        fns = std::move(uniq);
    }

    const auto& RADII   = args.thorough() ? RADII_THOROUGH : RADII_QUICK;
    const auto  configs = make_configs();
    std::vector<rlsearchk_t> searches;
    std::vector<std::string> config_names;
    for (const auto& c : configs)
    {
        auto ls = lsearchk_t::all().get(c.id);
        if (!ls)
        {
            std::fprintf(stderr, "unknown line-search %s\n", c.id.c_str());
            return 2;
        }
        if (!c.interp_param.empty())
        {
            ls->parameter(c.interp_param) = c.interp;
        }
        config_names.push_back(c.interp_param.empty() ? c.id : c.id + "/" + scat(c.interp));
        searches.push_back(std::move(ls));
    }

    lattice_t lat;
    lat.axis("function", fns.size(), jarr_str(names));
    lat.axis("x", 2 * RADII.size(), jobj({{"r*(1,1,..) and r*(-1,+1,-1,..) for r in", jarr_num(RADII)}}));
    lat.axis("direction", DIRS.size(), jarr_str(DIRS));
    lat.axis("t0", T0S.size(), jarr_num(T0S));
    lat.axis("c1c2", C12S.size(), jstr("(1e-4,0.1) (1e-4,0.9) (0.1,0.9) (0.49,0.5)"));
    lat.axis("max_iterations", MAXITS.size(), jarr_num(MAXITS));
    lat.axis("method/interpolation", configs.size(), jarr_str(config_names));
    lat.describe(r);
    r.assume("More-Thuente and CG_DESCENT are held to strong Wolfe / Wolfe-or-approximate-Wolfe on convex quadratics "
             "only (harness quadratics and the registered sphere, quadratic, axis-ellipsoid, rotated-ellipsoid, trid, "
             "mse+ridge); elsewhere only to the generic clauses");
    r.assume("'all five succeed on convex quadratics' is demanded for a descent direction, a finite t0 and "
             "max_iterations >= 128");
    r.assume("origins at which the function or its gradient is not finite are not judged; a direction whose slope "
             "g.d is within 4 eps sum|g_i d_i| of zero is not judged");
    r.assume("the clauses particular to convex quadratics are judged when the exact minimum along the direction, "
             "(g0.d)^2 / (2 d'Ad) with d'Ad = (g(x0+d) - g0).d, is more than 1e-10 (|f0| + ||g0|| ||x0||) below f0 (the origin is not "
             "the minimizer up to rounding)");
    r.assume("CG_DESCENT (and More-Thuente) reporting success without their conditions on a convex quadratic with "
             "max_iterations in {1, 2} is counted as an outcome ('not-judged:...'), not as a violation: the "
             "statement's clause on quadratics is asserted for a working budget (max_iterations >= 128) only");

    const auto logger = make_null_logger();

    for_each_case(lat, r, "ls", [&](const uint64_t index, const std::vector<uint64_t>& dg) {
        const auto& fn      = fns[dg[0]];
        const auto& f       = *fn.f;
        const auto  n       = f.size();
        const auto  radius  = RADII[dg[1] / 2];
        const bool  alter   = (dg[1] % 2) == 1;
        const auto  dkind   = dg[2];
        const auto  t0      = T0S[dg[3]];
        const auto [c1, c2] = C12S[dg[4]];
        const auto  maxit   = MAXITS[dg[5]];
        const auto& cfg     = configs[dg[6]];
        auto&       ls      = *searches[dg[6]];
        const auto  one     = "ls:" + std::to_string(index);
        const auto& mname   = config_names[dg[6]];

        r.evaluations += 1;

        vector_t x0(n);
        for (tensor_size_t i = 0; i < n; ++i)
        {
            x0(i) = alter ? ((i % 2 == 0) ? -radius : +radius) : radius;
        }
        if (dkind == 1 && n < 2)
        {
            r.outcome("skipped:rotation-needs-2-dims");
            return;
        }

        // the origin as the user function gives it
        origin_t o;
        o.x = to_std(x0);
        {
            vector_t g(n);
            o.f = f.vgrad(x0, g);
            o.g = to_std(g);
        }
        bool finite = std::isfinite(o.f);
        for (const auto v : o.g)
        {
            finite = finite && std::isfinite(v);
        }
        if (!finite)
        {
            r.outcome("skipped:origin-not-finite");
            return;
        }
        o.d.assign(static_cast<size_t>(n), 0.0);
        switch (dkind)
        {
        case 0:
            for (size_t i = 0; i < o.d.size(); ++i)
            {
                o.d[i] = -o.g[i];
            }
            break;
        case 1:
        {
            const double c = 0.5, s = std::sqrt(3.0) / 2.0;
            for (size_t i = 0; i < o.d.size(); ++i)
            {
                o.d[i] = -o.g[i];
            }
            o.d[0] = -(c * o.g[0] - s * o.g[1]);
            o.d[1] = -(s * o.g[0] + c * o.g[1]);
            break;
        }
        case 2:
            for (size_t i = 0; i < o.d.size(); ++i)
            {
                o.d[i] = -o.g[i] / static_cast<double>(i + 1);
            }
            break;
        case 3:
            for (size_t i = 0; i < o.d.size(); ++i)
            {
                o.d[i] = +o.g[i];
            }
            break;
        default: break;
        }
        o.c1 = c1;
        o.c2 = c2;
        vector_t descent(n);
        for (tensor_size_t i = 0; i < n; ++i)
        {
            descent(i) = o.d[static_cast<size_t>(i)];
        }

        ls.parameter("lsearchk::tolerance")      = std::make_tuple(c1, c2);
        ls.parameter("lsearchk::max_iterations") = maxit;
        if (cfg.id == "cgdescent")
        {
            o.epsk = ls.parameter("lsearchk::cgdescent::epsilon").value<scalar_t>() * std::fabs(o.f);
        }

        const auto kind = classify(o);
        if (kind < 0)
        {
            r.outcome("skipped:slope-sign-within-rounding");
            return;
        }

        // convex quadratics: phi(t) = f0 + t g0.d + t^2/2 d'Ad with d'Ad = (g(x0 + d) - g0).d; the clauses that are
        // particular to quadratics are judged when the exact line minimum lies below f0 by more than rounding
        bool quadratic = false;
        if (fn.quadratic && kind > 0)
        {
            vector_t xd(n), g(n);
            for (tensor_size_t i = 0; i < n; ++i)
            {
                xd(i) = x0(i) + descent(i);
            }
            f.vgrad(xd, g);
            const auto dg0       = dot(o.g, o.d);
            const auto curvature = dot(to_std(g), o.d) - dg0;
            quadratic = curvature > 0 && dg0 * dg0 / (2 * curvature) > 1e-10L * (std::fabs(o.f) + norm2(o.g) * norm2(o.x));
            if (!quadratic)
            {
                r.outcome("not-judged:quadratic-clauses:line-minimum-within-rounding-of-the-origin");
            }
        }

        auto state = solver_state_t{f, x0};
        if (!state.valid())
        {
            r.outcome("skipped:origin-not-finite");
            return;
        }
        const auto before  = snapshot(state);
        const auto fcalls0 = f.fcalls();
        const auto [ok, t] = ls.get(state, descent, t0, logger);
        const auto trials  = f.fcalls() - fcalls0;

        const auto detail = [&](const observed_t& q, const std::string& expected) {
            const auto s = slopes(o, q);
            return jobj({{"function", jstr(fn.name)},
                         {"x0", jarr_num(o.x)},
                         {"direction", jstr(DIRS[dkind])},
                         {"d", jarr_num(o.d)},
                         {"t0", jnum(t0)},
                         {"c1", jnum(c1)},
                         {"c2", jnum(c2)},
                         {"max_iterations", jint(maxit)},
                         {"method", jstr(mname)},
                         {"expected", jstr(expected)},
                         {"reported_success", ok ? "true" : "false"},
                         {"t", jnum(t)},
                         {"trial_steps", jint(trials)},
                         {"f0", jnum(o.f)},
                         {"f(state.x)", jnum(q.ffx)},
                         {"state.fx", jnum(q.sfx)},
                         {"state.x", jarr_num(q.sx)},
                         {"g0.d", jnum(static_cast<double>(s.dg0))},
                         {"g(state.x).d", jnum(static_cast<double>(s.dg1))},
                         {"armijo_rhs", jnum(static_cast<double>(o.f + static_cast<long double>(c1) * t * s.dg0))},
                         {"slope_tolerance", jnum(static_cast<double>(s.tol))}});
        };

        observed_t q;
        q.ok  = ok;
        q.t   = t;
        q.sx  = to_std(state.x());
        q.sgx = to_std(state.gx());
        q.sfx = state.fx();
        q.fgx = q.sgx;
        q.ffx = q.sfx;

        if (kind == 0)
        {
            // not a descent direction: failure and the state untouched
            const auto after = snapshot(state);
            if (ok)
            {
                r.violation(cfg.id + ":non-descent-direction-accepted", one, detail(q, "failure"));
            }
            if (!identical(before, after))
            {
                r.violation(cfg.id + ":non-descent-direction-state-touched", one, detail(q, "state bit-identical"));
            }
            r.outcome(cfg.id + ":refused-non-descent");
            return;
        }

        const bool must_succeed = quadratic && std::isfinite(t0) && maxit >= 128;
        if (!ok)
        {
            r.outcome(cfg.id + ":failure");
            if (must_succeed)
            {
                r.violation("quadratic:" + cfg.id + ":failed", one, detail(q, "success on a convex quadratic"));
            }
            return;
        }

        // reported success: evaluate the user function at the returned point
        {
            vector_t g(n);
            q.ffx = f.vgrad(state.x(), g);
            q.fgx = to_std(g);
        }
        // NB: a success whose returned state is not finite is a class of its own (the key says so)
        bool state_finite = std::isfinite(q.sfx);
        for (const auto v : q.sgx)
        {
            state_finite = state_finite && std::isfinite(v);
        }
        const std::string regime = state_finite ? "" : ":returned-state-not-finite";
        bool              clean  = true;
        for (const auto& b : judge_generic(o, q))
        {
            clean = false;
            r.violation(cfg.id + ":" + b + regime, one, detail(q, b));
        }
        if (clean)
        {
            for (const auto& b : judge_condition(o, q, cfg.advertised))
            {
                clean = false;
                r.violation(cfg.id + ":" + b + regime, one, detail(q, b + " (advertised)"));
            }
            if (quadratic && cfg.advertised == cond::generic)
            {
                // More-Thuente / CG_DESCENT: held to their conditions on convex quadratics, with a working budget
                for (const auto& b : judge_condition(o, q, cfg.on_quadratic))
                {
                    if (maxit >= 128)
                    {
                        clean = false;
                        r.violation("quadratic:" + cfg.id + ":" + b, one, detail(q, b + " (on a convex quadratic)"));
                    }
                    else
                    {
                        r.outcome(cfg.id + ":not-judged:success-without-" + b + "-on-quadratic-with-max_iterations<128");
                    }
                }
            }
        }
        if (trials > 1)
        {
            ++r.nontrivial;
        }
        r.outcome(cfg.id + (trials > 1 ? ":success-after-several-trials" : ":success-at-first-trial"));
        if (index % 99991 == 0)
        {
            r.sample(detail(q, "sample"));
        }
    });

    return r.finish();
}
