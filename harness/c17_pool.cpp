// C17 — nano::parallel::pool_t under the controlled scheduler (E1): every interleaving of small closed
// harnesses within a preemption budget, monitors evaluated on every execution.
//
//   H1 map-index     pool(W); map(T, op)                       ; ~pool
//   H2 map-chunk     pool(W); map(E, chunk, op)                ; ~pool
//   H3 two-submit    pool(W); main: map(T, op0) || thread: map(T2, op1) ; ~pool
//   H4 throw         pool(W); map(T, op) with task k throwing, raise in {0,1} ; ~pool
//   H5 shutdown      pool(W); enqueue T tasks keeping the futures; ~pool while idle / busy / queued
//   H6 reuse         pool(W); map(T, op); map(T2, op) ; ~pool
//
// case encoding: "H<h>:W:T:A:B:budget:spurious|c0,c1,..." (A, B are harness specific: chunk / T2 / thrower / raise)
#include "vsched.h"
#include "verif.h"
#include <atomic>
#include <csignal>
#include <nano/core/parallel.h>
#include <sched.h>
#include <set>
#include <stdexcept>
#include <thread>
#include <unistd.h>

using namespace verif;
using nano::parallel::future_t;
using nano::parallel::pool_t;

namespace
{
constexpr int MAXTASK = 8;
constexpr int MAXCALL = 2;

struct config_t
{
    int h = 1, W = 2, T = 2, A = 0, B = 0, budget = 0, spurious = 0;
    std::string str() const
    {
        char buf[96];
        std::snprintf(buf, sizeof(buf), "H%d:%d:%d:%d:%d:%d:%d", h, W, T, A, B, budget, spurious);
        return buf;
    }
};

// monitors: relaxed atomics (no happens-before edges, no reports under ThreadSanitizer); under the
// scheduler only one controlled thread runs at a time
struct monitors_t
{
    std::atomic<int> count[MAXCALL][MAXTASK];   ///< executions of task / element i
    std::atomic<int> tnum_of[MAXCALL][MAXTASK]; ///< worker id that ran it
    std::atomic<int> running[MAXCALL][MAXTASK]; ///< tasks of the call currently between start/end with that tnum
    std::atomic<int> finished[MAXCALL];
    std::atomic<int> bad_tnum, shared_tnum, bad_range;
    std::atomic<int> returned_early; ///< map() returned while a task of the call was unfinished
    std::atomic<int> exception_ok, exception_bad;
    std::atomic<int> maps_returned;

    void reset()
    {
        for (int c = 0; c < MAXCALL; ++c)
        {
            for (int i = 0; i < MAXTASK; ++i)
            {
                count[c][i]   = 0;
                tnum_of[c][i] = -1;
                running[c][i] = 0;
            }
            finished[c] = 0;
        }
        bad_tnum = shared_tnum = bad_range = returned_early = exception_ok = exception_bad = maps_returned = 0;
    }
};

struct context_t
{
    config_t              cfg;
    monitors_t            mon;
    report_t*             report = nullptr;
    std::vector<future_t> futures; ///< H5
    pool_t*               pool = nullptr; ///< alive pool (for the state digest)
    int                   prune = 2;
    std::set<std::string> assignments;
    uint64_t              preempted_runs = 0;
    bool                  replaying = false;
    int                   violations_here = 0;
};

context_t* G = nullptr;

constexpr auto RLX = std::memory_order_relaxed;

void task_begin(monitors_t& m, const int call, const size_t tnum, const int W)
{
    if (static_cast<int>(tnum) >= W)
    {
        m.bad_tnum.fetch_add(1, RLX);
        return;
    }
    if (m.running[call][tnum].fetch_add(1, RLX) != 0)
    {
        m.shared_tnum.fetch_add(1, RLX);
    }
}
void task_end(monitors_t& m, const int call, const size_t tnum, const int W)
{
    if (static_cast<int>(tnum) < W)
    {
        m.running[call][tnum].fetch_sub(1, RLX);
    }
    m.finished[call].fetch_add(1, RLX);
}

void run_index_task(context_t& c, const int call, const int index, const size_t tnum)
{
    auto& m = c.mon;
    task_begin(m, call, tnum, c.cfg.W);
    if (index >= 0 && index < MAXTASK)
    {
        m.count[call][index].fetch_add(1, RLX);
        m.tnum_of[call][index].store(static_cast<int>(tnum), RLX);
    }
    else
    {
        m.bad_range.fetch_add(1, RLX);
    }
    sched::point(call * 16 + index);
    task_end(m, call, tnum, c.cfg.W);
}

/// digest of everything the controlled threads share: the monitors and the data the pool mutex protects
uint64_t digest(void* p)
{
    auto&    c = *static_cast<context_t*>(p);
    auto&    m = c.mon;
    uint64_t h = 1469598103934665603ULL;
    const auto add = [&](const uint64_t v) { h = (h ^ v) * 1099511628211ULL; };
    for (int call = 0; call < MAXCALL; ++call)
    {
        for (int i = 0; i < MAXTASK; ++i)
        {
            add(static_cast<uint64_t>(m.count[call][i].load(RLX)));
            // tnum_of (which worker ran a *finished* task) is reported, but no monitor depends on it: not part of the state
            add(static_cast<uint64_t>(m.running[call][i].load(RLX)));
        }
        add(static_cast<uint64_t>(m.finished[call].load(RLX)));
    }
    add(static_cast<uint64_t>(m.bad_tnum.load(RLX)));
    add(static_cast<uint64_t>(m.shared_tnum.load(RLX)));
    add(static_cast<uint64_t>(m.bad_range.load(RLX)));
    add(static_cast<uint64_t>(m.returned_early.load(RLX)));
    add(static_cast<uint64_t>(m.exception_ok.load(RLX)));
    add(static_cast<uint64_t>(m.exception_bad.load(RLX)));
    add(static_cast<uint64_t>(m.maps_returned.load(RLX)));
#if !defined(__SANITIZE_THREAD__)
    if (c.pool != nullptr)
    {
        // (-fno-access-control) the queue is FIFO, so with the started/finished bitmaps above its content is
        // determined by its length
        add(c.pool->m_queue.m_tasks.size() + 1);
        add(c.pool->m_queue.m_stop ? 2 : 1);
    }
    else
    {
        add(0);
    }
#endif
    return h;
}

struct pool_scope_t
{
    pool_scope_t(context_t& c, pool_t& pool)
        : m_c(c)
    {
        m_c.pool = &pool;
    }
    ~pool_scope_t() { m_c.pool = nullptr; }
    context_t& m_c;
};

void body(void* p)
{
    auto& c   = *static_cast<context_t*>(p);
    auto& m   = c.mon;
    const auto& k = c.cfg;
    m.reset();
    c.futures.clear();
    switch (k.h)
    {
    case 1:
    {
        pool_t pool(static_cast<size_t>(k.W));
        const pool_scope_t scope(c, pool);
        pool.map(k.T, [&](const int index, const size_t tnum) { run_index_task(c, 0, index, tnum); });
        if (m.finished[0].load(RLX) != k.T)
        {
            m.returned_early.fetch_add(1, RLX);
        }
        break;
    }
    case 2:
    {
        // A = chunk size, T = elements
        pool_t pool(static_cast<size_t>(k.W));
        const pool_scope_t scope(c, pool);
        pool.map(k.T, k.A,
                 [&](const int begin, const int end, const size_t tnum)
                 {
                     task_begin(m, 0, tnum, k.W);
                     if (begin < 0 || end > k.T || begin >= end || end - begin > k.A || begin % k.A != 0)
                     {
                         m.bad_range.fetch_add(1, RLX);
                     }
                     for (int i = std::max(begin, 0); i < std::min(end, MAXTASK); ++i)
                     {
                         m.count[0][i].fetch_add(1, RLX);
                         m.tnum_of[0][i].store(static_cast<int>(tnum), RLX);
                     }
                     sched::point(begin);
                     task_end(m, 0, tnum, k.W);
                 });
        const int chunks = (k.T + k.A - 1) / k.A;
        if (m.finished[0].load(RLX) != chunks)
        {
            m.returned_early.fetch_add(1, RLX);
        }
        break;
    }
    case 3:
    {
        // A = number of tasks of the second submitter
        pool_t      pool(static_cast<size_t>(k.W));
        const pool_scope_t scope(c, pool);
        std::thread second(
            [&]
            {
                sched::straightline();
                pool.map(k.A, [&](const int index, const size_t tnum) { run_index_task(c, 1, index, tnum); });
                if (m.finished[1].load(RLX) != k.A)
                {
                    m.returned_early.fetch_add(1, RLX);
                }
            });
        pool.map(k.T, [&](const int index, const size_t tnum) { run_index_task(c, 0, index, tnum); });
        if (m.finished[0].load(RLX) != k.T)
        {
            m.returned_early.fetch_add(1, RLX);
        }
        second.join();
        break;
    }
    case 4:
    {
        // A = index of the throwing task, B = raise
        pool_t pool(static_cast<size_t>(k.W));
        const pool_scope_t scope(c, pool);
        bool   thrown = false;
        try
        {
            pool.map(
                k.T,
                [&](const int index, const size_t tnum)
                {
                    task_begin(m, 0, tnum, k.W);
                    m.count[0][index].fetch_add(1, RLX);
                    m.tnum_of[0][index].store(static_cast<int>(tnum), RLX);
                    sched::point(index);
                    task_end(m, 0, tnum, k.W);
                    if (index == k.A)
                    {
                        throw std::runtime_error("boom" + std::to_string(index));
                    }
                },
                k.B != 0);
        }
        catch (const std::runtime_error& e)
        {
            thrown = true;
            (std::string(e.what()) == "boom" + std::to_string(k.A) ? m.exception_ok : m.exception_bad).fetch_add(1, RLX);
        }
        catch (...)
        {
            thrown = true;
            m.exception_bad.fetch_add(1, RLX);
        }
        if ((k.B != 0) != thrown)
        {
            m.exception_bad.fetch_add(1, RLX);
        }
        if (m.finished[0].load(RLX) != k.T)
        {
            m.returned_early.fetch_add(1, RLX);
        }
        break;
    }
    case 5:
    {
        // A = 1: the submitter yields once between the last enqueue and the destructor
        {
            pool_t pool(static_cast<size_t>(k.W));
        const pool_scope_t scope(c, pool);
            for (int i = 0; i < k.T; ++i)
            {
                c.futures.push_back(pool.enqueue([&c, i](const size_t tnum) { run_index_task(c, 0, i, tnum); }));
            }
            if (k.A != 0)
            {
                sched::point(99);
            }
        }
        break;
    }
    case 6:
    {
        pool_t pool(static_cast<size_t>(k.W));
        const pool_scope_t scope(c, pool);
        pool.map(k.T, [&](const int index, const size_t tnum) { run_index_task(c, 0, index, tnum); });
        if (m.finished[0].load(RLX) != k.T)
        {
            m.returned_early.fetch_add(1, RLX);
        }
        pool.map(k.A, [&](const int index, const size_t tnum) { run_index_task(c, 1, index, tnum); });
        if (m.finished[1].load(RLX) != k.A)
        {
            m.returned_early.fetch_add(1, RLX);
        }
        break;
    }
    default: std::abort();
    }
}

std::string choices_str(const int* ch, const int n)
{
    std::string s;
    for (int i = 0; i < n; ++i)
    {
        s += (i ? "," : "") + std::to_string(ch[i]);
    }
    return s;
}

void violation(context_t& c, const std::string& what, const int* ch, const int n, const std::string& detail)
{
    ++c.violations_here;
    c.report->violation("H" + std::to_string(c.cfg.h) + ":" + what, c.cfg.str() + "|" + choices_str(ch, n),
                        jobj({{"config", jstr(c.cfg.str())}, {"what", jstr(what)}, {"detail", jstr(detail)},
                              {"decisions", jint(n)}}));
}

/// monitors evaluated after every complete execution (scheduler inactive here)
bool after(void* p, const int* ch, const int n)
{
    auto&       c = *static_cast<context_t*>(p);
    auto&       m = c.mon;
    const auto& k = c.cfg;
    const int   elems[2] = {k.T, (k.h == 3 || k.h == 6) ? k.A : 0};
    std::string assign;
    for (int call = 0; call < MAXCALL; ++call)
    {
        for (int i = 0; i < elems[call]; ++i)
        {
            const int cnt = m.count[call][i].load(RLX);
            assign += static_cast<char>('0' + m.tnum_of[call][i].load(RLX) + 1);
            if (k.h == 5)
            {
                // a queued task may be dropped by the shutdown, but never runs twice and its future tells
                if (cnt > 1)
                {
                    violation(c, "exactly-once", ch, n, "task " + std::to_string(i) + " ran " + std::to_string(cnt) + " times");
                }
            }
            else if (cnt != 1)
            {
                violation(c, "exactly-once", ch, n,
                          "call " + std::to_string(call) + " element " + std::to_string(i) + " ran " + std::to_string(cnt) + " times");
            }
        }
        for (int i = elems[call]; i < MAXTASK; ++i)
        {
            if (m.count[call][i].load(RLX) != 0)
            {
                violation(c, "tiling", ch, n, "element outside [0,elements) was processed: " + std::to_string(i));
            }
        }
    }
    if (m.bad_tnum.load(RLX) != 0)
    {
        violation(c, "tnum-range", ch, n, "worker id >= pool size");
    }
    if (m.shared_tnum.load(RLX) != 0)
    {
        violation(c, "tnum-exclusive", ch, n, "two tasks of one call ran at the same time with the same worker id");
    }
    if (m.bad_range.load(RLX) != 0)
    {
        violation(c, "tiling", ch, n, "a chunk is not [k*chunk, min((k+1)*chunk, elements))");
    }
    if (m.returned_early.load(RLX) != 0)
    {
        violation(c, "completion", ch, n, "map() returned before all its tasks finished");
    }
    if (m.exception_bad.load(RLX) != 0)
    {
        violation(c, "exception", ch, n, "task exception not (or wrongly) propagated to the caller");
    }
    if (k.h == 4 && k.B != 0 && m.exception_ok.load(RLX) != 1)
    {
        violation(c, "exception", ch, n, "raise=true but the caller did not receive the task's exception");
    }
    if (k.h == 5)
    {
        int ran = 0;
        for (int i = 0; i < k.T; ++i)
        {
            auto& f = c.futures[static_cast<size_t>(i)];
            if (!f.valid() || f.wait_for(std::chrono::seconds(0)) != std::future_status::ready)
            {
                violation(c, "shutdown-future", ch, n, "future " + std::to_string(i) + " not ready after ~pool_t");
                continue;
            }
            bool value = false;
            try
            {
                f.get();
                value = true;
            }
            catch (const std::future_error&)
            {
            }
            catch (...)
            {
                violation(c, "shutdown-future", ch, n, "unexpected exception in future " + std::to_string(i));
            }
            const bool executed = m.count[0][i].load(RLX) == 1;
            ran += executed ? 1 : 0;
            if (value != executed)
            {
                violation(c, "shutdown-future", ch, n,
                          "future " + std::to_string(i) + (value ? " has a value but its task never ran" : " is broken but its task ran"));
            }
        }
        if (m.finished[0].load(RLX) != ran)
        {
            violation(c, "shutdown-running-task", ch, n, "~pool_t returned while a started task had not finished");
        }
        assign += ":" + std::to_string(ran);
        c.futures.clear();
    }
    c.assignments.insert(assign);
    if (sched::last_preemptions() > 0)
    {
        ++c.preempted_runs;
    }
    return c.violations_here < 3;
}

[[noreturn]] void fatal(void* p, const sched::status_t why, const int* ch, const int n)
{
    auto& c = *static_cast<context_t*>(p);
    if (why == sched::ST_DIVERGED)
    {
        std::fprintf(stderr, "replay diverged for %s|%s\n", c.cfg.str().c_str(), choices_str(ch, n).c_str());
        _exit(2);
    }
    const char* what = why == sched::ST_DEADLOCK ? "deadlock" : why == sched::ST_HANG ? "hang" : "thread-leak";
    violation(c, what, ch, n, "no execution of this schedule can complete");
    c.report->cap("exploration stopped at the first fatal schedule");
    c.report->finish();
    _exit(1);
}

void crash_handler(int sig)
{
    int         n  = 0;
    const int*  ch = sched::current_choices(&n);
    char        buf[8192];
    int         len = std::snprintf(buf, sizeof(buf), "CASE %s|", G != nullptr ? G->cfg.str().c_str() : "?");
    for (int i = 0; i < n && len < 8000; ++i)
    {
        len += std::snprintf(buf + len, sizeof(buf) - static_cast<size_t>(len), "%s%d", i ? "," : "", ch[i]);
    }
    buf[len++] = '\n';
    (void)!write(2, buf, static_cast<size_t>(len));
    signal(sig, SIG_DFL);
    raise(sig);
}

bool parse_case(const std::string& s, config_t& k, std::vector<int>& choices)
{
    const auto bar = s.find('|');
    const auto head = s.substr(0, bar);
    if (std::sscanf(head.c_str(), "H%d:%d:%d:%d:%d:%d:%d", &k.h, &k.W, &k.T, &k.A, &k.B, &k.budget, &k.spurious) != 7)
    {
        return false;
    }
    choices.clear();
    if (bar != std::string::npos)
    {
        const char* q = s.c_str() + bar + 1;
        while (*q)
        {
            choices.push_back(static_cast<int>(std::strtol(q, const_cast<char**>(&q), 10)));
            if (*q == ',')
            {
                ++q;
            }
        }
    }
    return true;
}

std::vector<config_t> configurations(const args_t& a)
{
    // the list is ordered simplest-first; --set selects the bound
    const auto set = a.get("set", "b1");
    std::vector<config_t> out;
    const auto add = [&](int h, int W, int T, int A, int B, int budget, int spurious)
    {
        config_t k;
        k.h = h, k.W = W, k.T = T, k.A = A, k.B = B, k.budget = budget, k.spurious = spurious;
        out.push_back(k);
    };
    const int b  = static_cast<int>(a.geti("budget", 1));
    const int sp = static_cast<int>(a.geti("spurious", 0));
    const int bheavy = static_cast<int>(a.geti("heavybudget", b)); // H3 (two submitters) with 3 workers
    const int maxW = static_cast<int>(a.geti("maxW", 3));
    const int maxT = static_cast<int>(a.geti("maxT", 4));
    (void)set;
    for (int W = 2; W <= maxW; ++W)
    {
        for (int T = 2; T <= maxT; ++T)
        {
            add(1, W, T, 0, 0, b, sp);
        }
    }
    for (int W = 2; W <= maxW; ++W)
    {
        for (int E = 2; E <= std::min(6, maxT + 2); ++E)
        {
            for (int chunk = 1; chunk < E; ++chunk)
            {
                const int chunks = (E + chunk - 1) / chunk;
                if (chunks >= 2 && chunks <= maxT)
                {
                    add(2, W, E, chunk, 0, b, sp);
                }
            }
        }
    }
    for (int W = 2; W <= maxW; ++W)
    {
        for (int T = 2; T <= std::min(3, maxT); ++T)
        {
            for (int T2 = 2; T2 <= std::min(maxT + 2 - T, 2 + (maxT > 3 ? 1 : 0)); ++T2)
            {
                if (T + T2 <= maxT + 1)
                {
                    add(3, W, T, T2, 0, W >= 3 ? std::min(b, bheavy) : b, sp);
                }
            }
        }
    }
    for (int W = 2; W <= maxW; ++W)
    {
        for (int T = 2; T <= std::min(3, maxT); ++T)
        {
            for (int thrower = 0; thrower < T; ++thrower)
            {
                add(4, W, T, thrower, 0, b, sp);
                add(4, W, T, thrower, 1, b, sp);
            }
        }
    }
    for (int W = 1; W <= maxW; ++W)
    {
        for (int T = 0; T <= std::min(3, maxT); ++T)
        {
            add(5, W, T, 0, 0, b, sp);
            add(5, W, T, 1, 0, b, sp);
        }
    }
    for (int W = 2; W <= maxW; ++W)
    {
        for (int T = 2; T <= std::min(3, maxT); ++T)
        {
            add(6, W, T, 2, 0, b, sp);
        }
    }
    return out;
}
} // namespace

int main(int argc, char** argv)
{
    const auto args = parse_args(argc, argv);
    report_t   r("c17/sched", args);
    context_t  c;
    c.report = &r;
    G        = &c;
    // all threads of a shard on one core: a hand-off is then a direct context switch instead of a cross-core wake-up
    {
        cpu_set_t set;
        CPU_ZERO(&set);
        const long ncpu = sysconf(_SC_NPROCESSORS_ONLN);
        CPU_SET(static_cast<int>(args.shard % (ncpu > 0 ? ncpu : 1)), &set);
        sched_setaffinity(0, sizeof(set), &set);
    }
    signal(SIGSEGV, crash_handler);
    signal(SIGABRT, crash_handler);
    signal(SIGBUS, crash_handler);

    r.assume("sequentially consistent interleavings at synchronisation operations (mutex, condition variable, thread "
             "create/join, future wait/notify) and at one explicit point inside every task; data-race freedom of the "
             "pool is checked separately by the free-running ThreadSanitizer stage");
    r.assume("happens-before fingerprints (64 bit) prune a schedule prefix only when it was reached before with at least "
             "the same remaining preemption budget");

    if (!args.one.empty())
    {
        std::vector<int> choices;
        if (!parse_case(args.one, c.cfg, choices))
        {
            std::fprintf(stderr, "bad case %s\n", args.one.c_str());
            return 2;
        }
        sched::set_hw_threads(c.cfg.W);
        sched::config_t sc;
        sc.budget   = c.cfg.budget;
        sc.spurious = c.cfg.spurious;
        sched::trace(true);
        c.replaying = true;
        sched::replay(sc, body, after, fatal, &c, choices.data(), static_cast<int>(choices.size()));
        std::fprintf(stderr, "%s", sched::trace_text());
        r.evaluations = 1;
        r.traces      = 1;
        return r.finish();
    }

    c.prune = static_cast<int>(args.geti("prune", 2));
    sched::set_digest(digest, &c);
    r.axis("pruning", jstr(c.prune == 2 ? "state fingerprints (pending operations, mutex owners, digest of queue+monitors)"
                           : c.prune == 1 ? "happens-before fingerprints" : "none"));
    const auto configs = configurations(args);
    r.axis("harness_configurations", jint(configs.size()));
    r.axis("preemption_budget", jint(args.geti("budget", 1)));
    r.axis("spurious_wakeup_budget", jint(args.geti("spurious", 0)));
    r.axis("workers", jstr("2.." + std::to_string(args.geti("maxW", 3)) + " (H5 shutdown also 1)"));
    r.axis("tasks", jstr("2.." + std::to_string(args.geti("maxT", 4))));

    // trust check: the default schedule twice, identical decision logs
    {
        c.cfg = configs.front();
        sched::set_hw_threads(c.cfg.W);
        sched::config_t sc;
        sched::replay(sc, body, nullptr, fatal, &c, nullptr, 0);
        int        n1 = 0;
        const int* p1 = sched::current_choices(&n1);
        const std::vector<int> first(p1, p1 + n1);
        sched::replay(sc, body, nullptr, fatal, &c, nullptr, 0);
        int        n2 = 0;
        const int* p2 = sched::current_choices(&n2);
        if (first != std::vector<int>(p2, p2 + n2))
        {
            std::fprintf(stderr, "default schedule is not deterministic\n");
            return 2;
        }
    }

    const double per_cfg_deadline = args.deadline;
    uint64_t     distinct_assign  = 0;
    // --split config (default): whole configurations are dealt out to the shards (one visited set per
    // configuration => best pruning); --split frontier: every shard explores its part of every configuration
    const bool by_config = args.get("split", "config") == "config";
    for (size_t i = 0; i < configs.size(); ++i)
    {
        if (by_config && !args.mine(i))
        {
            continue;
        }
        c.cfg = configs[i];
        c.assignments.clear();
        c.violations_here = 0;
        sched::set_hw_threads(c.cfg.W);
        sched::config_t sc;
        sc.budget   = c.cfg.budget;
        sc.spurious = c.cfg.spurious;
        sc.prune    = c.prune;
        sched::stats_t st;
        const double   left = per_cfg_deadline - r.elapsed();
        if (left <= 0)
        {
            r.cap("deadline: configuration " + c.cfg.str() + " and later ones not explored");
            break;
        }
        sched::explore(sc, body, after, fatal, &c, by_config ? 0 : args.shard, by_config ? 1 : args.shards, left, &st);
        r.outcome("config " + c.cfg.str() + " executions", st.executions);
        r.traces += st.executions;
        r.evaluations += st.executions;
        r.transitions += st.transitions;
        r.states += st.states;
        r.nontrivial += c.preempted_runs;
        c.preempted_runs = 0;
        distinct_assign += c.assignments.size();
        r.outcome("H" + std::to_string(c.cfg.h) + " executions", st.executions);
        r.outcome("H" + std::to_string(c.cfg.h) + " distinct task->worker assignments (per shard)", c.assignments.size());
        r.outcome("executions cut by fingerprint pruning", st.pruned);
        if (st.capped)
        {
            r.cap("deadline hit inside configuration " + c.cfg.str());
        }
        if ((by_config || args.shard == 0) && (i % 7 == 0))
        {
            r.sample(jobj({{"config", jstr(c.cfg.str())}, {"executions_shard0", jint(st.executions)},
                           {"max_decisions", jint(st.max_depth)},
                           {"assignments_seen_shard0", jarr_str(std::vector<std::string>(c.assignments.begin(), c.assignments.end()))}}));
        }
        if (c.violations_here > 0)
        {
            break;
        }
    }
    r.note("distinct_assignments_sum", jint(distinct_assign));
    return r.finish();
}
