// C04 — exact rational arithmetic (fractions over __int128, gcd-normalised, overflow => the check is broken)
// and the exact decision procedures for small linear / convex quadratic programs built on it.
//
// Everything the oracle claims about a program is backed by a certificate that is re-verified by direct exact
// evaluation (no enumeration argument has to be trusted):
//   infeasible : Farkas multipliers (z, y >= 0) with A'z + G'y = 0 and b'z + h'y < 0
//   unbounded  : a feasible point x0 and a direction d with Qd = 0, Ad = 0, Gd <= 0, c'd < 0
//   optimal    : a feasible x*, multipliers u >= 0, v with Qx* + c + A'v + G'u = 0 and u_i (g_i x* - h_i) = 0
#pragma once

#include <algorithm>
#include <cstdint>
#include <cstdio>
#include <cstdlib>
#include <string>
#include <vector>

namespace c04
{
using i128 = __int128;

[[noreturn]] inline void broken(const char* what)
{
    std::fprintf(stderr, "c04: %s\n", what);
    std::fflush(stderr);
    std::exit(2);
}

inline i128 gcd128(i128 a, i128 b)
{
    if (a < 0)
    {
        a = -a;
    }
    if (b < 0)
    {
        b = -b;
    }
    constexpr i128 lim = static_cast<i128>(INT64_MAX);
    if (a <= lim && b <= lim)
    {
        auto x = static_cast<uint64_t>(a);
        auto y = static_cast<uint64_t>(b);
        while (y != 0)
        {
            const auto t = x % y;
            x            = y;
            y            = t;
        }
        return static_cast<i128>(x);
    }
    while (b != 0)
    {
        const auto t = a % b;
        a            = b;
        b            = t;
    }
    return a;
}

inline i128 mul128(const i128 a, const i128 b)
{
    i128 r = 0;
    if (__builtin_mul_overflow(a, b, &r))
    {
        broken("rational overflow (mul)");
    }
    return r;
}

inline i128 add128(const i128 a, const i128 b)
{
    i128 r = 0;
    if (__builtin_add_overflow(a, b, &r))
    {
        broken("rational overflow (add)");
    }
    return r;
}

struct rat
{
    i128 n = 0;
    i128 d = 1;

    rat() = default;

    rat(const long long v) // NOLINT(google-explicit-constructor)
        : n(v)
    {
    }

    rat(const int v) // NOLINT(google-explicit-constructor)
        : n(v)
    {
    }

    rat(const i128 nn, const i128 dd)
        : n(nn)
        , d(dd)
    {
        if (d == 0)
        {
            broken("rational with zero denominator");
        }
        if (d < 0)
        {
            n = -n;
            d = -d;
        }
        if (n == 0)
        {
            d = 1;
        }
        else if (d != 1)
        {
            const auto g = gcd128(n, d);
            if (g > 1)
            {
                n /= g;
                d /= g;
            }
        }
    }

    bool is_zero() const { return n == 0; }

    int sign() const { return n > 0 ? 1 : (n < 0 ? -1 : 0); }

    long double ld() const { return static_cast<long double>(n) / static_cast<long double>(d); }
};

inline rat operator+(const rat& a, const rat& b)
{
    if (a.d == 1 && b.d == 1)
    {
        rat r;
        r.n = add128(a.n, b.n);
        return r;
    }
    return {add128(mul128(a.n, b.d), mul128(b.n, a.d)), mul128(a.d, b.d)};
}

inline rat operator-(const rat& a)
{
    rat r;
    r.n = -a.n;
    r.d = a.d;
    return r;
}

inline rat operator-(const rat& a, const rat& b)
{
    return a + (-b);
}

inline rat operator*(const rat& a, const rat& b)
{
    if (a.n == 0 || b.n == 0)
    {
        return {};
    }
    if (a.d == 1 && b.d == 1)
    {
        rat r;
        r.n = mul128(a.n, b.n);
        return r;
    }
    // cross-cancel first to keep the numbers small
    const auto g1 = gcd128(a.n, b.d);
    const auto g2 = gcd128(b.n, a.d);
    rat        r;
    r.n = mul128(a.n / g1, b.n / g2);
    r.d = mul128(a.d / g2, b.d / g1);
    return r;
}

inline rat operator/(const rat& a, const rat& b)
{
    if (b.n == 0)
    {
        broken("rational division by zero");
    }
    rat inv;
    inv.n = b.n > 0 ? b.d : -b.d;
    inv.d = b.n > 0 ? b.n : -b.n;
    return a * inv;
}

inline int cmp(const rat& a, const rat& b)
{
    return (a - b).sign();
}

inline bool operator==(const rat& a, const rat& b)
{
    return a.n == b.n && a.d == b.d;
}

inline bool operator!=(const rat& a, const rat& b)
{
    return !(a == b);
}

inline bool operator<(const rat& a, const rat& b)
{
    return cmp(a, b) < 0;
}

inline bool operator<=(const rat& a, const rat& b)
{
    return cmp(a, b) <= 0;
}

inline bool operator>(const rat& a, const rat& b)
{
    return cmp(a, b) > 0;
}

inline std::string to_string(const rat& a)
{
    auto p = [](i128 v)
    {
        if (v == 0)
        {
            return std::string("0");
        }
        const bool neg = v < 0;
        if (neg)
        {
            v = -v;
        }
        std::string s;
        while (v > 0)
        {
            s.insert(s.begin(), static_cast<char>('0' + static_cast<int>(v % 10)));
            v /= 10;
        }
        return (neg ? "-" : "") + s;
    };
    return a.d == 1 ? p(a.n) : p(a.n) + "/" + p(a.d);
}

using rvec = std::vector<rat>;
using rmat = std::vector<rvec>; // row-major, possibly zero rows

inline rat dot(const rvec& a, const rvec& b)
{
    rat s;
    for (size_t i = 0; i < a.size(); ++i)
    {
        if (!a[i].is_zero() && !b[i].is_zero())
        {
            s = s + a[i] * b[i];
        }
    }
    return s;
}

/// Gauss-Jordan over the rationals: a particular solution of M y = r (free variables = 0); false if inconsistent.
inline bool solve_particular(rmat M, rvec r, const size_t cols, rvec& y)
{
    const auto         rows = M.size();
    std::vector<long>  pivot_col_of_row(rows, -1);
    size_t             prow = 0;
    for (size_t col = 0; col < cols && prow < rows; ++col)
    {
        size_t sel = rows;
        for (size_t i = prow; i < rows; ++i)
        {
            if (!M[i][col].is_zero())
            {
                sel = i;
                break;
            }
        }
        if (sel == rows)
        {
            continue;
        }
        std::swap(M[sel], M[prow]);
        std::swap(r[sel], r[prow]);
        const auto inv = rat(1) / M[prow][col];
        for (size_t j = col; j < cols; ++j)
        {
            M[prow][j] = M[prow][j] * inv;
        }
        r[prow] = r[prow] * inv;
        for (size_t i = 0; i < rows; ++i)
        {
            if (i != prow && !M[i][col].is_zero())
            {
                const auto f = M[i][col];
                for (size_t j = col; j < cols; ++j)
                {
                    if (!M[prow][j].is_zero())
                    {
                        M[i][j] = M[i][j] - f * M[prow][j];
                    }
                }
                r[i] = r[i] - f * r[prow];
            }
        }
        pivot_col_of_row[prow] = static_cast<long>(col);
        ++prow;
    }
    for (size_t i = prow; i < rows; ++i)
    {
        if (!r[i].is_zero())
        {
            return false;
        }
    }
    y.assign(cols, rat());
    for (size_t i = 0; i < prow; ++i)
    {
        y[static_cast<size_t>(pivot_col_of_row[i])] = r[i];
    }
    return true;
}

/// rank of a rational matrix with `cols` columns
inline size_t rank_of(rmat M, const size_t cols)
{
    const auto rows = M.size();
    size_t     prow = 0;
    for (size_t col = 0; col < cols && prow < rows; ++col)
    {
        size_t sel = rows;
        for (size_t i = prow; i < rows; ++i)
        {
            if (!M[i][col].is_zero())
            {
                sel = i;
                break;
            }
        }
        if (sel == rows)
        {
            continue;
        }
        std::swap(M[sel], M[prow]);
        for (size_t i = prow + 1; i < rows; ++i)
        {
            if (!M[i][col].is_zero())
            {
                const auto f = M[i][col] / M[prow][col];
                for (size_t j = col; j < cols; ++j)
                {
                    if (!M[prow][j].is_zero())
                    {
                        M[i][j] = M[i][j] - f * M[prow][j];
                    }
                }
            }
        }
        ++prow;
    }
    return prow;
}

/// a polyhedron { y : E y = e, F y <= f } in `dims` variables
struct poly_t
{
    size_t dims = 0;
    rmat   E;
    rvec   e;
    rmat   F;
    rvec   f;

    bool contains(const rvec& y) const
    {
        for (size_t i = 0; i < E.size(); ++i)
        {
            if (dot(E[i], y) != e[i])
            {
                return false;
            }
        }
        for (size_t i = 0; i < F.size(); ++i)
        {
            if (dot(F[i], y) > f[i])
            {
                return false;
            }
        }
        return true;
    }
};

/// Non-emptiness with a witness. A non-empty polyhedron has a minimal face, which is the affine set
/// { E y = e, F_I y = f_I } for some row subset I and lies inside the polyhedron entirely; hence the polyhedron is
/// non-empty iff for some I the particular solution of that linear system is a member. The witness is verified by
/// `contains`, a negative answer is backed by a Farkas certificate in `decide`.
inline bool find_point(const poly_t& P, rvec& y)
{
    const auto m = P.F.size();
    if (m > 20)
    {
        broken("find_point: too many inequality rows");
    }
    // smaller subsets first
    std::vector<uint32_t> order;
    for (uint32_t I = 0; I < (1U << m); ++I)
    {
        order.push_back(I);
    }
    std::stable_sort(order.begin(), order.end(),
                     [](const uint32_t a, const uint32_t b) { return __builtin_popcount(a) < __builtin_popcount(b); });
    for (const auto I : order)
    {
        rmat M = P.E;
        rvec r = P.e;
        for (size_t i = 0; i < m; ++i)
        {
            if ((I >> i) & 1U)
            {
                M.push_back(P.F[i]);
                r.push_back(P.f[i]);
            }
        }
        rvec cand;
        if (M.empty())
        {
            cand.assign(P.dims, rat());
        }
        else if (!solve_particular(M, r, P.dims, cand))
        {
            continue;
        }
        if (P.contains(cand))
        {
            y = cand;
            return true;
        }
    }
    return false;
}

/// min 1/2 x'Qx + c'x  s.t.  A x = b, G x <= h   (Q empty => linear program), all data rational
struct program_t
{
    size_t n = 0;
    rmat   Q; // n x n or empty
    rvec   c;
    rmat   A;
    rvec   b;
    rmat   G;
    rvec   h;

    bool quadratic() const { return !Q.empty(); }

    rat value(const rvec& x) const
    {
        rat f = dot(c, x);
        if (quadratic())
        {
            rat q;
            for (size_t i = 0; i < n; ++i)
            {
                q = q + x[i] * dot(Q[i], x);
            }
            f = f + q * rat(1, 2);
        }
        return f;
    }

    rvec gradient(const rvec& x) const
    {
        rvec g = c;
        if (quadratic())
        {
            for (size_t i = 0; i < n; ++i)
            {
                g[i] = g[i] + dot(Q[i], x);
            }
        }
        return g;
    }

    poly_t feasible_set() const
    {
        poly_t P;
        P.dims = n;
        P.E    = A;
        P.e    = b;
        P.F    = G;
        P.f    = h;
        return P;
    }
};

enum class verdict
{
    infeasible,
    unbounded,
    optimal
};

struct decision_t
{
    verdict v = verdict::infeasible;
    rat     fstar;      // optimal
    rvec    xstar;      // optimal: one optimal point
    rvec    ustar;      // optimal: multipliers of G x <= h (>= 0, complementary)
    rvec    vstar;      // optimal: multipliers of A x = b
    rvec    x0;         // unbounded: a feasible point
    rvec    direction;  // unbounded: Qd=0, Ad=0, Gd<=0, c'd<0
    rvec    farkas_z;   // infeasible
    rvec    farkas_y;   // infeasible, >= 0
    size_t  candidates = 0; ///< number of feasible KKT points of active-set subproblems seen
};

inline rvec mat_t_vec(const rmat& M, const rvec& w, const size_t n)
{
    rvec out(n);
    for (size_t i = 0; i < M.size(); ++i)
    {
        for (size_t j = 0; j < n; ++j)
        {
            if (!M[i][j].is_zero() && !w[i].is_zero())
            {
                out[j] = out[j] + M[i][j] * w[i];
            }
        }
    }
    return out;
}

/// direct exact verification of the certificate stored in a decision (independent of how it was found)
inline bool verify(const program_t& P, const decision_t& D)
{
    const auto n = P.n;
    const auto p = P.A.size();
    const auto m = P.G.size();
    const auto S = P.feasible_set();
    switch (D.v)
    {
    case verdict::infeasible:
    {
        if (D.farkas_z.size() != p || D.farkas_y.size() != m)
        {
            return false;
        }
        for (const auto& y : D.farkas_y)
        {
            if (y.sign() < 0)
            {
                return false;
            }
        }
        const auto s1 = mat_t_vec(P.A, D.farkas_z, n);
        const auto s2 = mat_t_vec(P.G, D.farkas_y, n);
        for (size_t j = 0; j < n; ++j)
        {
            if (!(s1[j] + s2[j]).is_zero())
            {
                return false;
            }
        }
        return (dot(P.b, D.farkas_z) + dot(P.h, D.farkas_y)).sign() < 0;
    }
    case verdict::unbounded:
    {
        if (D.x0.size() != n || D.direction.size() != n || !S.contains(D.x0))
        {
            return false;
        }
        const auto& d = D.direction;
        if (P.quadratic())
        {
            for (size_t i = 0; i < n; ++i)
            {
                if (!dot(P.Q[i], d).is_zero())
                {
                    return false;
                }
            }
        }
        for (size_t i = 0; i < p; ++i)
        {
            if (!dot(P.A[i], d).is_zero())
            {
                return false;
            }
        }
        for (size_t i = 0; i < m; ++i)
        {
            if (dot(P.G[i], d).sign() > 0)
            {
                return false;
            }
        }
        return dot(P.c, d).sign() < 0;
    }
    case verdict::optimal:
    {
        if (D.xstar.size() != n || D.ustar.size() != m || D.vstar.size() != p || !S.contains(D.xstar))
        {
            return false;
        }
        for (size_t i = 0; i < m; ++i)
        {
            if (D.ustar[i].sign() < 0)
            {
                return false;
            }
            if (!(D.ustar[i] * (dot(P.G[i], D.xstar) - P.h[i])).is_zero())
            {
                return false;
            }
        }
        const auto g  = P.gradient(D.xstar);
        const auto s1 = mat_t_vec(P.A, D.vstar, n);
        const auto s2 = mat_t_vec(P.G, D.ustar, n);
        for (size_t j = 0; j < n; ++j)
        {
            if (!(g[j] + s1[j] + s2[j]).is_zero())
            {
                return false;
            }
        }
        return P.value(D.xstar) == D.fstar;
    }
    }
    return false;
}

/// Decide a small program exactly.
///  feasibility : minimal-face enumeration (find_point); a negative answer produces Farkas multipliers
///  boundedness : a convex QP over a non-empty polyhedron is unbounded below iff some d has
///                Qd = 0, Ad = 0, Gd <= 0, c'd < 0 (Farkas' lemma applied to dual feasibility + strong duality)
///  optimum     : active-set enumeration; for every subset I of inequality rows the KKT system of
///                min f s.t. Ax=b, G_I x = h_I is solved exactly; f* = the least value over those solutions that are
///                feasible (for the active set of a point in a minimal face of the optimal set every KKT solution
///                lies in that face, so the minimum is attained and exact); multipliers are then found as a point of
///                { (v,u_I) : A'v + G_I'u_I = -(Qx*+c), u_I >= 0 } over the active set I of x*.
inline decision_t decide(const program_t& P)
{
    const auto n = P.n;
    const auto p = P.A.size();
    const auto m = P.G.size();
    decision_t D;

    const auto S = P.feasible_set();
    rvec       x0;
    if (!find_point(S, x0))
    {
        // Farkas: { (z,y) : A'z + G'y = 0, b'z + h'y = -1, y >= 0 } is non-empty
        poly_t K;
        K.dims = p + m;
        for (size_t j = 0; j < n; ++j)
        {
            rvec row(p + m);
            for (size_t i = 0; i < p; ++i)
            {
                row[i] = P.A[i][j];
            }
            for (size_t i = 0; i < m; ++i)
            {
                row[p + i] = P.G[i][j];
            }
            K.E.push_back(row);
            K.e.emplace_back(0);
        }
        {
            rvec row(p + m);
            for (size_t i = 0; i < p; ++i)
            {
                row[i] = P.b[i];
            }
            for (size_t i = 0; i < m; ++i)
            {
                row[p + i] = P.h[i];
            }
            K.E.push_back(row);
            K.e.emplace_back(-1);
        }
        for (size_t i = 0; i < m; ++i)
        {
            rvec row(p + m);
            row[p + i] = rat(-1);
            K.F.push_back(row);
            K.f.emplace_back(0);
        }
        rvec zy;
        if (!find_point(K, zy))
        {
            broken("oracle: neither a feasible point nor a Farkas certificate");
        }
        D.v = verdict::infeasible;
        D.farkas_z.assign(zy.begin(), zy.begin() + static_cast<long>(p));
        D.farkas_y.assign(zy.begin() + static_cast<long>(p), zy.end());
        return D;
    }

    // direction of unboundedness
    {
        poly_t K;
        K.dims = n;
        if (P.quadratic())
        {
            for (size_t i = 0; i < n; ++i)
            {
                K.E.push_back(P.Q[i]);
                K.e.emplace_back(0);
            }
        }
        for (size_t i = 0; i < p; ++i)
        {
            K.E.push_back(P.A[i]);
            K.e.emplace_back(0);
        }
        K.E.push_back(P.c);
        K.e.emplace_back(-1);
        for (size_t i = 0; i < m; ++i)
        {
            K.F.push_back(P.G[i]);
            K.f.emplace_back(0);
        }
        rvec d;
        if (find_point(K, d))
        {
            D.v         = verdict::unbounded;
            D.x0        = x0;
            D.direction = d;
            return D;
        }
    }

    // optimum by active-set enumeration
    bool have = false;
    for (uint32_t I = 0; I < (1U << m); ++I)
    {
        std::vector<size_t> rows;
        for (size_t i = 0; i < m; ++i)
        {
            if ((I >> i) & 1U)
            {
                rows.push_back(i);
            }
        }
        const auto k    = rows.size();
        const auto cols = n + p + k;
        rmat       M;
        rvec       r;
        for (size_t j = 0; j < n; ++j)
        {
            rvec row(cols);
            if (P.quadratic())
            {
                for (size_t t = 0; t < n; ++t)
                {
                    row[t] = P.Q[j][t];
                }
            }
            for (size_t i = 0; i < p; ++i)
            {
                row[n + i] = P.A[i][j];
            }
            for (size_t i = 0; i < k; ++i)
            {
                row[n + p + i] = P.G[rows[i]][j];
            }
            M.push_back(row);
            r.push_back(-P.c[j]);
        }
        for (size_t i = 0; i < p; ++i)
        {
            rvec row(cols);
            for (size_t t = 0; t < n; ++t)
            {
                row[t] = P.A[i][t];
            }
            M.push_back(row);
            r.push_back(P.b[i]);
        }
        for (size_t i = 0; i < k; ++i)
        {
            rvec row(cols);
            for (size_t t = 0; t < n; ++t)
            {
                row[t] = P.G[rows[i]][t];
            }
            M.push_back(row);
            r.push_back(P.h[rows[i]]);
        }
        rvec sol;
        if (!solve_particular(M, r, cols, sol))
        {
            continue;
        }
        rvec x(sol.begin(), sol.begin() + static_cast<long>(n));
        if (!S.contains(x))
        {
            continue;
        }
        ++D.candidates;
        const auto fx = P.value(x);
        if (!have || fx < D.fstar)
        {
            have    = true;
            D.fstar = fx;
            D.xstar = x;
        }
    }
    if (!have)
    {
        broken("oracle: feasible and bounded program without a feasible KKT point");
    }

    // multipliers over the active set of x*
    {
        std::vector<size_t> act;
        for (size_t i = 0; i < m; ++i)
        {
            if (dot(P.G[i], D.xstar) == P.h[i])
            {
                act.push_back(i);
            }
        }
        const auto k = act.size();
        poly_t     K;
        K.dims       = p + k;
        const auto g = P.gradient(D.xstar);
        for (size_t j = 0; j < n; ++j)
        {
            rvec row(p + k);
            for (size_t i = 0; i < p; ++i)
            {
                row[i] = P.A[i][j];
            }
            for (size_t i = 0; i < k; ++i)
            {
                row[p + i] = P.G[act[i]][j];
            }
            K.E.push_back(row);
            K.e.push_back(-g[j]);
        }
        for (size_t i = 0; i < k; ++i)
        {
            rvec row(p + k);
            row[p + i] = rat(-1);
            K.F.push_back(row);
            K.f.emplace_back(0);
        }
        rvec vu;
        if (!find_point(K, vu))
        {
            broken("oracle: least feasible KKT value has no multipliers (not optimal)");
        }
        D.vstar.assign(vu.begin(), vu.begin() + static_cast<long>(p));
        D.ustar.assign(m, rat());
        for (size_t i = 0; i < k; ++i)
        {
            D.ustar[act[i]] = vu[p + i];
        }
    }
    D.v = verdict::optimal;
    return D;
}
} // namespace c04
